#!/usr/bin/env python3
"""Copy confirmed seeded defects into /verif/seeded/<id>/ and write selfcheck/KILLMATRIX.md.

usage: selfcheck/assemble_seeded.py <seed root> <round label> [<seed root> <round label> ...]
A seed is kept only if its evaluation (selfcheck/eval_seed.py, output in <root>/Cxx/out/final_X.txt) confirmed:
the patch applies to /repo's HEAD, the repository's own tests still pass with it, the demonstration program exits 0
on the unchanged tree and non-zero with the patch.
"""
import os
import sys
import json
import shutil

HERE = os.path.dirname(os.path.abspath(__file__))
VERIF = os.path.dirname(HERE)
sys.path.insert(0, HERE)
try:
    from seed_meta import META
except Exception:
    META = {}


def main(argv):
    rows = []
    pairs = list(zip(argv[0::2], argv[1::2]))
    for root, label in pairs:
        for cid in sorted(os.listdir(root)):
            out = os.path.join(root, cid, 'out')
            if not os.path.isdir(out):
                continue
            for v in ('a', 'b', 'c'):
                # own_X.txt: the latest evaluation against the check of the patch's own property (eval_all_own.py); final_X.txt: an
                # evaluation against all twenty checks (possibly made with an earlier state of the checks).  The own-property verdict
                # and the confirmation come from the latest; the other checks' verdicts from the full evaluation where there is one.
                r, cross = None, None
                for fn, kind in (('own_%s.txt' % v, 'own'), ('final_%s.txt' % v, 'full')):
                    fp = os.path.join(out, fn)
                    if not os.path.exists(fp):
                        continue
                    js = [ln for ln in open(fp).read().splitlines() if ln.startswith('JSON ')]
                    if not js:
                        continue
                    d = json.loads(js[0][5:])
                    if not d.get('checks'):
                        continue
                    if kind == 'own':
                        r = d
                    else:
                        cross = d
                if r is None and cross is None:
                    continue
                if r is None:
                    r = cross
                elif cross is not None:
                    merged = dict(cross['checks'])
                    merged.update(r['checks'])
                    r = dict(r, checks=merged)
                r['other_checks_evaluated'] = cross is not None
                name = '%s-%s%s' % (cid, v, '' if label == 'r1' else '-' + label)
                demo = r.get('demo') or {}
                confirmed = bool(r.get('applies') and r.get('tests_pass') and demo.get('clean_exit') == 0
                                 and demo.get('patched_exit') not in (0, None))
                fired = sorted(c for c, x in r['checks'].items() if x['exit'] == 1)
                odd = {c: x['exit'] for c, x in r['checks'].items() if x['exit'] not in (0, 1)}
                key = '%s-%s' % (cid, v) if label == 'r1' else name
                what, needs = META.get(key, ('(see notes.md)', '(see notes.md)'))
                rows.append((name, cid, confirmed, fired, odd, what, needs, r))
                if not confirmed:
                    continue
                dst = os.path.join(VERIF, 'seeded', name)
                os.makedirs(dst, exist_ok=True)
                src = os.path.join(out, '%s.diff' % v)
                if r.get('applied_with_3way_merge') and os.path.exists(src + '.rebased'):
                    # /repo's HEAD moved (a later fix: commit nearby): the stored patch is the same change against the current HEAD
                    shutil.copy(src, os.path.join(dst, 'patch.as-written.diff'))
                    src = src + '.rebased'
                shutil.copy(src, os.path.join(dst, 'patch.diff'))
                shutil.copy(os.path.join(out, 'demo_%s.py' % v), os.path.join(dst, 'demo.py'))
                if os.path.exists(os.path.join(out, 'notes.md')):
                    shutil.copy(os.path.join(out, 'notes.md'), os.path.join(dst, 'author_notes.md'))
                meta = {
                    'property': cid[:3],
                    'origin': 'written by an independent sub-agent that was given only the text of the property and a scratch git '
                              'worktree of /repo (nothing from /verif); round ' + label,
                    'what_it_changes': what,
                    'needs_in_order_to_manifest': needs,
                    'confirmed_by_me': {
                        'patch_applies_to_repo_HEAD': r.get('applies'),
                        'repository_tests_pass_with_patch (199, test_main deselected)': r.get('tests_pass'),
                        'demo_exit_unchanged_tree': demo.get('clean_exit'),
                        'demo_exit_with_patch': demo.get('patched_exit'),
                        'how': 'selfcheck/eval_seed.py patch.diff --demo demo.py --worktree <scratch worktree of /repo HEAD>: applies the '
                               'patch in a scratch worktree outside /repo and /verif, runs pytest there, the demo with and without the '
                               'patch, then every check with GLOM_VERIF_SRC=<worktree> (evidence redirected), and restores the worktree',
                    },
                    'checks_that_fire_quick_tier': fired,
                    'first_mechanisms': {c: r['checks'][c]['mechanisms'][:2] for c in fired},
                    'caught_by_own_property_check': cid[:3] in fired,
                }
                with open(os.path.join(dst, 'meta.json'), 'w') as f:
                    json.dump(meta, f, indent=1)
                    f.write('\n')
    lines = ['# Kill matrix: seeded defects vs checks (quick tier, seed 0)', '',
             'Each seeded defect was written by an independent sub-agent that saw only the property text and a scratch worktree.',
             'Kept only when confirmed: applies to /repo HEAD, the 199 repository tests still pass with it, its demonstration',
             'program passes on the unchanged tree and fails with the patch. "own" = the check of the property it was written',
             'against fires (latest state of the checks); other checks firing are listed where the patch was also run against all twenty',
             'checks (possibly at an earlier state of the checks - they only grew since), "(own check only)" where it was not.', '',
             '| seeded defect | confirmed | own check fires | all checks that fire | what it changes | needs |',
             '|---|---|---|---|---|---|']
    for name, cid, confirmed, fired, odd, what, needs, r in rows:
        lines.append('| %s | %s | %s | %s%s%s | %s | %s |' % (name, 'yes' if confirmed else 'NO', 'yes' if cid[:3] in fired else '**no**',
                                                         ' '.join(fired) or '-', '' if r.get('other_checks_evaluated') else ' (own check only)',
                                                         (' (other exit: %s)' % odd) if odd else '',
                                                         what.replace('|', '/'), needs.replace('|', '/')))
    n_conf = sum(1 for r in rows if r[2])
    n_own = sum(1 for r in rows if r[2] and r[1][:3] in r[3])
    n_any = sum(1 for r in rows if r[2] and r[3])
    lines += ['', 'confirmed: %d of %d; caught by the property\'s own check: %d; caught by at least one check: %d' % (n_conf, len(rows), n_own, n_any)]
    with open(os.path.join(HERE, 'KILLMATRIX.md'), 'w') as f:
        f.write('\n'.join(lines) + '\n')
    print('\n'.join(lines[-1:]))


if __name__ == '__main__':
    main(sys.argv[1:])
