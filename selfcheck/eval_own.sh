#!/bin/sh
# quick triage of a directory of seeded defects: run only the property's own check against each patch
# usage: selfcheck/eval_own.sh <seed root> [Cxx ...]
root=$1; shift
cd "$(dirname "$0")/.."
ids=${*:-$(ls $root | grep '^C[0-9][0-9]$')}
for c in $ids; do
  for v in a b c; do
    d=$root/$c/out
    [ -f $d/$v.diff ] || continue
    git -C $root/$c checkout -q -- glom 2>/dev/null
    echo "== $c/$v: $(selfcheck/eval_seed.py $d/$v.diff --checks $c --skip-tests --worktree $root/$c 2>&1 | grep -E 'FIRED|  mechanism|^    C|DOES NOT APPLY' | head -3 | tr '\n' ' ' | cut -c1-260)"
  done
done
