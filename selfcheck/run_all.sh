#!/bin/sh
# run every claimed check (quick or thorough tier) and print one summary line each
# usage: selfcheck/run_all.sh [quick|thorough] [seed] [parallelism]
TIER=${1:-quick}; SEED=${2:-0}; PAR=${3:-8}
cd "$(dirname "$0")/.."
IDS=$(ls rv/checks/c[0-9][0-9].py | sed 's/.*\/c\([0-9]*\)\.py/C\1/')
echo $IDS | tr ' ' '\n' | xargs -P $PAR -I{} sh -c "VERIF_SEED=$SEED /venv/bin/python -m rv.run {} --tier $TIER > /tmp/rv_{}.out 2>&1; echo \"{} exit=\$? \$(grep -E '^{} (HELD|VIOLATED|INCONCLUSIVE)' /tmp/rv_{}.out | cut -c1-150)\"; grep -E 'VIOLATION|INCONCLUSIVE|Traceback' /tmp/rv_{}.out | head -3"
rm -f /tmp/rv_C*.out
