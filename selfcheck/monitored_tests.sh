#!/bin/sh
# the repository's own tests with EvalTracer + RegistryContract + ModeWatch installed: must pass as without them
cd /repo && PYTHONDONTWRITEBYTECODE=1 PYTHONPATH=/verif/selfcheck:/verif /venv/bin/python -m pytest -q -p no:cacheprovider -p monitored_tests "$@" 2>&1 | tail -15
