#!/usr/bin/env python3
"""Evaluate seeded defects against the checks.

usage: selfcheck/eval_seed.py <patch.diff> [--demo demo.py] [--checks C01,C07|all] [--tier quick] [--seed 0]

Creates a scratch git worktree of /repo's HEAD outside /repo and /verif, applies the patch, runs
 (1) the repository's own test suite (the defect must survive it),
 (2) the demonstration program with and without the patch,
 (3) the selected checks with GLOM_VERIF_SRC pointing at the scratch copy (evidence/replays go to a temp dir),
prints one line per check, and removes the worktree again.
"""
import os
import sys
import json
import shutil
import argparse
import tempfile
import subprocess
import concurrent.futures

VERIF = os.path.dirname(os.path.dirname(os.path.abspath(__file__)))
PY = '/venv/bin/python'


def sh(cmd, **kw):
    return subprocess.run(cmd, stdout=subprocess.PIPE, stderr=subprocess.STDOUT, text=True, **kw)


def main():
    ap = argparse.ArgumentParser()
    ap.add_argument('patch')
    ap.add_argument('--demo')
    ap.add_argument('--checks', default='all')
    ap.add_argument('--tier', default='quick')
    ap.add_argument('--seed', default='0')
    ap.add_argument('--par', type=int, default=10)
    ap.add_argument('--skip-tests', action='store_true')
    ap.add_argument('--worktree', help='use this existing clean scratch worktree instead of creating one (it is restored afterwards)')
    a = ap.parse_args()
    patch = os.path.abspath(a.patch)
    own = not a.worktree
    if own:
        wt = tempfile.mkdtemp(prefix='evalwt-', dir='/tmp')
        os.rmdir(wt)
    else:
        wt = os.path.abspath(a.worktree)
    out = tempfile.mkdtemp(prefix='evalout-', dir='/tmp')
    result = {'patch': patch, 'checks': {}}
    try:
        if own:
            r = sh(['git', '-C', '/repo', 'worktree', 'add', '-q', '--detach', wt, 'HEAD'])
            if r.returncode:
                print('worktree failed:', r.stdout)
                return 2
        else:
            sh(['git', '-C', wt, 'checkout', '--', 'glom'])
        demo_clean = None
        if a.demo:
            d = sh([PY, os.path.abspath(a.demo)], cwd=wt, env=dict(os.environ, PYTHONPATH=wt, PYTHONDONTWRITEBYTECODE='1'), timeout=600)
            demo_clean = d.returncode
        r = sh(['git', '-C', wt, 'apply', patch])
        if r.returncode:
            # /repo's HEAD moved on since the patch was written (a later fix: commit touched lines nearby): three-way merge
            r = sh(['git', '-C', wt, 'apply', '--3way', patch])
            sh(['git', '-C', wt, 'reset', '-q'])
            result['applied_with_3way_merge'] = r.returncode == 0
            if r.returncode == 0:
                # keep the change as a diff against the current HEAD next to the original
                with open(patch + '.rebased', 'w') as f:
                    f.write(sh(['git', '-C', wt, 'diff', '--', 'glom']).stdout)
            if r.returncode:
                sh(['git', '-C', wt, 'checkout', '--', 'glom'])
        if r.returncode:
            print('PATCH DOES NOT APPLY:', r.stdout)
            result['applies'] = False
            print(json.dumps(result))
            return 3
        result['applies'] = True
        if not a.skip_tests:
            t = sh([PY, '-m', 'pytest', '-q', '-p', 'no:cacheprovider', '-x', '--deselect', 'glom/test/test_cli.py::test_main'], cwd=wt,
                   env=dict(os.environ, PYTHONDONTWRITEBYTECODE='1'), timeout=1800)
            result['tests_pass'] = t.returncode == 0
            result['tests_tail'] = t.stdout.strip().splitlines()[-1:] if t.stdout else []
        if a.demo:
            d = sh([PY, os.path.abspath(a.demo)], cwd=wt, env=dict(os.environ, PYTHONPATH=wt, PYTHONDONTWRITEBYTECODE='1'), timeout=600)
            result['demo'] = {'clean_exit': demo_clean, 'patched_exit': d.returncode, 'patched_tail': d.stdout.strip().splitlines()[-3:]}
        ids = sorted(f[:-3].upper() for f in os.listdir(os.path.join(VERIF, 'rv', 'checks')) if f.startswith('c') and f[1:3].isdigit())
        if a.checks != 'all':
            ids = [c.strip().upper() for c in a.checks.split(',')]

        def one(cid):
            env = dict(os.environ, GLOM_VERIF_SRC=wt, RV_OUT_DIR=out, VERIF_SEED=a.seed)
            env.pop('PYTHONHASHSEED', None)
            try:
                p = sh([PY, '-m', 'rv.run', cid, '--tier', a.tier], cwd=VERIF, env=env, timeout=3600)
            except subprocess.TimeoutExpired:
                return cid, 'timeout', []
            mechs = [ln.strip() for ln in p.stdout.splitlines() if ln.strip().startswith('mechanism=')]
            return cid, p.returncode, mechs[:4]
        with concurrent.futures.ThreadPoolExecutor(max_workers=a.par) as ex:
            for cid, rc, mechs in ex.map(one, ids):
                result['checks'][cid] = {'exit': rc, 'mechanisms': mechs}
        fired = [c for c, v in result['checks'].items() if v['exit'] == 1]
        odd = [c for c, v in result['checks'].items() if v['exit'] not in (0, 1)]
        print('PATCH %s' % patch)
        print('  applies=%s tests_pass=%s demo=%s' % (result.get('applies'), result.get('tests_pass'), result.get('demo')))
        print('  FIRED: %s' % (' '.join(fired) or '-'))
        if odd:
            print('  OTHER EXIT: %s' % {c: result['checks'][c]['exit'] for c in odd})
        for c in fired:
            for m in result['checks'][c]['mechanisms'][:3]:
                print('    %s %s' % (c, m))
        print('JSON ' + json.dumps(result))
        return 0
    finally:
        if own:
            sh(['git', '-C', '/repo', 'worktree', 'remove', '--force', wt])
            shutil.rmtree(wt, ignore_errors=True)
            sh(['git', '-C', '/repo', 'worktree', 'prune'])
        else:
            sh(['git', '-C', wt, 'checkout', '--', 'glom'])
        shutil.rmtree(out, ignore_errors=True)


if __name__ == '__main__':
    sys.exit(main())
