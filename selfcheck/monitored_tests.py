"""pytest plugin: run the repository's own test suite with the monitors installed (transparency of the monitors).

usage: selfcheck/monitored_tests.sh     (runs pytest in /repo with `-p monitored_tests`)

EvalTracer (the wrapper around glom.core._glom), RegistryContract (post-condition on TargetRegistry.get_handler) and ModeWatch
(sys.monitoring PY_START on the mode functions) are installed for the whole session.  The suite must pass exactly as without
them; what the monitors saw is printed at the end (a RegistryContract disagreement there is triaged like any other report).
"""
import os
import sys

VERIF = os.path.dirname(os.path.dirname(os.path.abspath(__file__)))
sys.path.insert(0, VERIF)
os.environ.setdefault('GLOM_VERIF_SRC', '/repo')

_state = {}


def pytest_configure(config):
    from rv import env
    env.bind()
    from rv.monitors import EvalTracer, RegistryContract, ModeWatch
    tr, rc = EvalTracer(), RegistryContract()
    tr.install()
    rc.install()
    _state.update(tracer=tr, contract=rc, modes=ModeWatch())


def pytest_runtest_teardown(item):
    tr = _state.get('tracer')
    if tr is not None:
        tr.reset()          # (the frame trees are only counted here; do not keep every test's targets alive)
    mw = _state.get('modes')
    if mw is not None:
        _state['mode_events'] = _state.get('mode_events', 0) + len(mw.log)
        del mw.log[:]


def pytest_terminal_summary(terminalreporter):
    tr, rc, mw = _state.get('tracer'), _state.get('contract'), _state.get('modes')
    terminalreporter.write_line('MONITORS frames_traced=%d handler_lookups_checked=%d contract_disagreements=%d mode_events=%d modewatch_ok=%s'
                                % (tr.frames, rc.lookups, len(rc.disagreements), _state.get('mode_events', 0), bool(mw and mw.ok)))
    for d in rc.disagreements[:5]:
        terminalreporter.write_line('  DISAGREEMENT %r' % (d,))
    if mw is not None:
        mw.close()
    rc.uninstall()
    tr.uninstall()
