#!/usr/bin/env python3
"""Evaluate every seeded defect under the given roots against the check of its OWN property (plus the repository's tests and the
demonstration), several at a time.  Each patch is applied in its own scratch worktree (<root>/Cxx, restored afterwards) by
selfcheck/eval_seed.py; the result goes to <root>/Cxx/out/own_X.txt.  The full cross evaluation (all twenty checks per patch) is
what eval_seed.py does without --checks; it takes twenty times as long and is run for the recent rounds only.

usage: selfcheck/eval_all_own.py [--par N] <root> [<root> ...]
"""
import os
import sys
import subprocess
import concurrent.futures

HERE = os.path.dirname(os.path.abspath(__file__))


def jobs(roots):
    for root in roots:
        for cid in sorted(os.listdir(root)):
            out = os.path.join(root, cid, 'out')
            if not os.path.isdir(out):
                continue
            todo = [v for v in ('a', 'b', 'c') if os.path.exists(os.path.join(out, v + '.diff')) and os.path.exists(os.path.join(out, 'demo_%s.py' % v))]
            if todo:
                yield root, cid, todo      # the variants of one worktree run one after the other


def run(job):
    root, cid, todo = job
    res = []
    for v in todo:
        out = os.path.join(root, cid, 'out')
        dst = os.path.join(out, 'own_%s.txt' % v)
        prop = cid[:3]
        subprocess.run(['git', '-C', os.path.join(root, cid), 'checkout', '-q', '--', 'glom'])
        p = subprocess.run([sys.executable, os.path.join(HERE, 'eval_seed.py'), os.path.join(out, v + '.diff'), '--demo', os.path.join(out, 'demo_%s.py' % v),
                            '--checks', prop, '--worktree', os.path.join(root, cid)], stdout=subprocess.PIPE, stderr=subprocess.STDOUT, text=True)
        open(dst, 'w').write(p.stdout)
        fired = [ln.strip() for ln in p.stdout.splitlines() if 'FIRED' in ln or 'applies=' in ln or 'DOES NOT APPLY' in ln]
        res.append('%s %s/%s: %s' % (root, cid, v, ' '.join(fired)[:160]))
    return res


def main():
    args = sys.argv[1:]
    par = 8
    if args and args[0] == '--par':
        par = int(args[1])
        args = args[2:]
    with concurrent.futures.ThreadPoolExecutor(max_workers=par) as ex:
        for lines in ex.map(run, list(jobs(args))):
            for ln in lines:
                print(ln, flush=True)


if __name__ == '__main__':
    main()
