"""Own description of Auto-mode spec trees, a builder to real glom specs, a type-directed
generator and a compositional reference interpreter (C03, C04, C06).

Node kinds
  ('path', 'a.b')                      dotted string
  ('t', [('[', k) | ('.', name)...])   T expression
  ('dict', [(key, node)...], dict|OrderedDict)   key: str | ('tkey', t-node)
  ('list', node) ('tuple', [nodes]) ('pipe', [nodes])
  ('fn', Fn) ('val', v) ('spec', node)
  ('coalesce', [nodes], opts)          opts: default / default_factory / skip / skip_exc
  ('call', Fn, [arg nodes], [(kw, arg node)])    arg node: ('lit', v) | t-node
  ('invoke', Fn, [('C', [consts], [(k, const)]) | ('S', [nodes], [(k, node)]) | ('*', node|None, node|None)])
  ('ref', name, node|None)
The reference interpreter implements only the laws of the property statement.
"""
from collections import OrderedDict

from . import env

glom = env.bind()
from glom import T, SKIP, STOP, Val, Spec, Coalesce, Call, Invoke, Ref, Pipe, GlomError  # noqa: E402


class RefGlom(Exception):
    """a failure glom itself must detect (kind = documented error class name)"""
    def __init__(self, kind, detail=''):
        Exception.__init__(self, kind, detail)
        self.kind = kind


class Fn:
    """instrumented callable; behaviour is a pure function of its arguments"""
    def __init__(self, tag, kind='pair', param=None):
        self.tag, self.kind, self.param = tag, kind, param
        self.__name__ = 'f%s' % tag
        self.log = None
        self.fault = None      # (n-th call, exception object) injected by C04
        self.calls = 0

    def __call__(self, *args, **kw):
        self.calls += 1
        if self.log is not None:
            self.log.append((self.tag,) + tuple(_brief(a) for a in args) + tuple(sorted((k, _brief(v)) for k, v in kw.items())))
        if self.fault is not None and self.fault[0] == self.calls:
            raise self.fault[1]
        k = self.kind
        if k == 'ident':
            return args[0]
        if k == 'pair':
            return {'fn': self.tag, 'arg': args[0] if len(args) == 1 else list(args)}
        if k == 'len':
            try:
                return len(args[0])
            except TypeError:
                return -1
        if k == 'skip':
            return SKIP
        if k == 'stop':
            return STOP
        if k == 'skip_if':
            return SKIP if _matches(args[0], self.param) else args[0]
        if k == 'stop_if':
            return STOP if _matches(args[0], self.param) else args[0]
        if k == 'collect':
            return {'fn': self.tag, 'args': list(args), 'kw': dict(kw)}
        if k == 'const':
            return self.param
        raise AssertionError(k)

    def __repr__(self):
        return '<f%s:%s>' % (self.tag, self.kind)


def _matches(v, param):
    try:
        return v == param or (isinstance(param, tuple) and v in param)
    except Exception:
        return False


def _brief(v):
    try:
        s = repr(v)
    except Exception:
        s = '<%s>' % type(v).__name__
    return s if len(s) <= 80 else s[:80] + '~'


# ---------------------------------------------------------------------------
# build real specs

def build(node):
    k = node[0]
    if k == 'path':
        return node[1]
    if k == 't':
        return build_t(node)
    if k == 'dict':
        out = node[2]()
        for key, sub in node[1]:
            out[build_t(key[1]) if isinstance(key, tuple) else key] = build(sub)
        return out
    if k == 'list':
        return [build(node[1])]
    if k == 'tuple':
        return tuple(build(s) for s in node[1])
    if k == 'pipe':
        return Pipe(*[build(s) for s in node[1]])
    if k == 'fn':
        return node[1]
    if k == 'val':
        return Val(node[1])
    if k == 'spec':
        return Spec(build(node[1]))
    if k == 'coalesce':
        opts = dict(node[2])
        return Coalesce(*[build(s) for s in node[1]], **opts)
    if k == 'call':
        return Call(node[1], args=tuple(build_arg(a) for a in node[2]), kwargs={kw: build_arg(a) for kw, a in node[3]})
    if k == 'invoke':
        inv = Invoke(node[1])
        for part in node[2]:
            if part[0] in 'CS' and part[2]:
                # derive (and throw away) a sibling that sets the same keywords again: deriving must not change `inv`
                inv.constants(**{kw: 'SIBLING' for kw, _ in part[2]})
                inv.specs(**{kw: Val('SIBLING') for kw, _ in part[2]})
            if part[0] == 'C':
                inv = inv.constants(*part[1], **dict(part[2]))
            elif part[0] == 'S':
                inv = inv.specs(*[build(s) for s in part[1]], **{kw: build(s) for kw, s in part[2]})
            else:
                inv = inv.star(args=None if part[1] is None else build(part[1]),
                               kwargs=None if part[2] is None else build(part[2]))
        for part in node[2]:
            if part[0] in 'CS' and part[2]:
                inv.specs(**{kw: Val('LATE-SIBLING') for kw, _ in part[2]})     # (derived after the fact, discarded)
        return inv
    if k == 'ref':
        return Ref(node[1]) if node[2] is None else Ref(node[1], build(node[2]))
    raise AssertionError(k)


def build_t(node):
    t = T
    for st, a in node[1]:
        t = t[a] if st == '[' else getattr(t, a)
    return t


def build_arg(a):
    if a[0] == 'lit':
        return a[1]
    return build_t(a)


# ---------------------------------------------------------------------------
# reference interpreter

def _get(cur, seg):
    """the access registered for plain path segments (see C01)"""
    try:
        if isinstance(cur, dict):
            return cur[seg]
        if isinstance(cur, (list, tuple)):
            return cur[int(seg)]
        return getattr(cur, seg)
    except Exception as e:
        raise RefGlom('PathAccessError', repr(e))


def ref_t(node, target):
    cur = target
    for st, a in node[1]:
        try:
            cur = cur[a] if st == '[' else getattr(cur, a)
        except (KeyError, IndexError, TypeError, AttributeError) as e:
            raise RefGlom('PathAccessError', repr(e))
    return cur


def iterate(target):
    if isinstance(target, (str, bytes)) or not callable(getattr(type(target), '__iter__', None)):
        raise RefGlom('UnregisteredTarget', type(target).__name__)
    return iter(target)


def ref(node, target, env=None):
    env = env or {}
    k = node[0]
    if k == 'path':
        cur = target
        for seg in node[1].split('.'):
            cur = _get(cur, seg)
        return cur
    if k == 't':
        return ref_t(node, target)
    if k == 'dict':
        out = node[2]()
        for key, sub in node[1]:
            v = ref(sub, target, env)
            if v is SKIP:
                continue
            if isinstance(key, tuple):
                key = ref_t(key[1], target)
            out[key] = v
        return out
    if k == 'list':
        out = []
        for item in iterate(target):
            v = ref(node[1], item, env)
            if v is SKIP:
                continue
            if v is STOP:
                break
            out.append(v)
        return out
    if k in ('tuple', 'pipe'):
        res = target
        for sub in node[1]:
            nxt = ref(sub, res, env)
            if nxt is SKIP:
                continue
            if nxt is STOP:
                break
            res = nxt
        return res
    if k == 'fn':
        return node[1](target)
    if k == 'val':
        return node[1]
    if k == 'spec':
        return ref(node[1], target, env)
    if k == 'coalesce':
        opts = dict(node[2])
        skip = opts.get('skip', _NOSKIP)
        skip_exc = opts.get('skip_exc', GlomError)
        for sub in node[1]:
            try:
                v = ref(sub, target, env)
            except Exception as e:
                if caught_by(e, skip_exc):
                    continue
                raise
            if skip is _NOSKIP:
                return v
            if callable(skip):
                if not skip(v):
                    return v
            elif isinstance(skip, tuple):
                if v not in skip:
                    return v
            elif not (v == skip):
                return v
        if 'default' in opts:
            return opts['default']
        if 'default_factory' in opts:
            return opts['default_factory']()
        raise RefGlom('CoalesceError')
    if k == 'call':
        args = [a[1] if a[0] == 'lit' else ref_t(a, target) for a in node[2]]
        kwargs = {kw: (a[1] if a[0] == 'lit' else ref_t(a, target)) for kw, a in node[3]}
        return node[1](*args, **kwargs)
    if k == 'invoke':
        args, kwargs = [], {}
        # the freshest setting of a keyword wins, but keeps the position of its *last* setter
        last_setter = {}
        for i, part in enumerate(node[2]):
            if part[0] in 'CS':
                for kw, _ in part[2]:
                    last_setter[kw] = i
        for i, part in enumerate(node[2]):
            if part[0] == 'C':
                args.extend(part[1])
                kwargs.update({kw: v for kw, v in part[2] if last_setter[kw] == i})
            elif part[0] == 'S':
                args.extend([ref(s, target, env) for s in part[1]])
                kwargs.update({kw: ref(s, target, env) for kw, s in part[2] if last_setter[kw] == i})
            else:
                if part[1] is not None:
                    args.extend(ref(part[1], target, env))
                if part[2] is not None:
                    kwargs.update(ref(part[2], target, env))
        return node[1](*args, **kwargs)
    if k == 'ref':
        if node[2] is None:
            if node[1] not in env:
                raise RefGlom('KeyError', node[1])
            return ref(env[node[1]], target, env)
        env = dict(env)
        env[node[1]] = node[2]
        return ref(node[2], target, env)
    raise AssertionError(k)


_NOSKIP = object()


def real_class(e):
    """the exception class glom would raise for a reference failure"""
    if isinstance(e, RefGlom):
        import glom as g
        return getattr(g, e.kind, None) or {'KeyError': KeyError}.get(e.kind, GlomError)
    return type(e)


def caught_by(e, classes):
    return issubclass(real_class(e), classes)


# ---------------------------------------------------------------------------
# type-directed generation

class Gen:
    def __init__(self, rng, skipstop=True):
        self.rng = rng
        self.serial = 0
        self.fns = []
        self.skipstop = skipstop

    def fn(self, kind='pair', param=None):
        self.serial += 1
        f = Fn(self.serial, kind, param)
        self.fns.append(f)
        return f

    def target(self, depth=3):
        rng = self.rng
        if depth <= 0:
            return rng.choice([rng.randint(0, 9), 'leaf%d' % rng.randint(0, 3), None, 2.5])
        r = rng.random()
        if r < 0.5:
            return {k: self.target(depth - 1) for k in rng.sample(['a', 'b', 'c', 'd'], rng.randint(1, 3))}
        if r < 0.8:
            # homogeneous list
            proto_depth = depth - 1
            n = rng.randint(0, 4)
            if rng.random() < 0.5:
                return [rng.randint(0, 9) for _ in range(n)]
            keys = rng.sample(['a', 'b', 'c'], rng.randint(1, 2))
            return [{k: self.target(proto_depth - 1) if proto_depth > 1 else rng.randint(0, 9) for k in keys} for _ in range(n)]
        return rng.choice([rng.randint(0, 9), 'leaf'])

    def spec(self, value, depth, ctx=''):
        """a spec valid (or deliberately failing inside a Coalesce) for `value`.
        ctx: 'L' list element, 'S' chain step, 'D' dict value (where SKIP/STOP are meaningful)"""
        rng = self.rng
        choices = ['fn', 'fn', 'val', 'spec']
        if isinstance(value, dict) and value:
            choices += ['path', 'path', 't', 'dict', 'dict', 'coalesce', 'call', 'invoke']
        if isinstance(value, list):
            choices += ['list', 'list', 'list', 'coalesce', 'len', 'invoke-star']
            if value:
                choices += ['t-index']
        if depth > 0:
            choices += ['tuple', 'tuple', 'pipe', 'dict', 'coalesce']
        if self.skipstop and ctx in ('L', 'S', 'D') and rng.random() < 0.25:
            choices = ['skipstop']
        c = rng.choice(choices)
        if depth <= 0 and c in ('tuple', 'pipe', 'dict', 'list', 'coalesce'):
            c = 'fn'
        if c == 'fn':
            return ('fn', self.fn(rng.choice(['pair', 'pair', 'ident', 'len'])))
        if c == 'len':
            return ('fn', self.fn('len'))
        if c == 'val':
            return ('val', rng.choice([1, 'v', None, ('t',), {'lit': 1}]))
        if c == 'spec':
            return ('spec', self.spec(value, depth - 1, ctx))
        if c == 'skipstop':
            if ctx == 'D':
                return ('fn', self.fn('skip'))
            if ctx == 'L' and not isinstance(value, (dict, list)):
                return ('fn', self.fn(rng.choice(['skip_if', 'stop_if', 'skip_if']), value))
            return ('fn', self.fn(rng.choice(['skip', 'stop'])))
        if c == 'path':
            return self._path(value)
        if c == 't':
            key = rng.choice(list(value))
            return ('t', [('[', key)])
        if c == 't-index':
            return ('t', [('[', rng.randrange(len(value)))])
        if c == 'dict':
            typ = rng.choice([dict, dict, OrderedDict])
            entries = []
            for name in rng.sample(['x', 'y', 'z', 'w'], rng.randint(1, 3)):
                key = name
                if isinstance(value, dict) and value and rng.random() < 0.15:
                    kk = rng.choice(list(value))
                    if isinstance(value[kk], (str, int)) and not any(isinstance(e[0], tuple) for e in entries):
                        key = ('tkey', ('t', [('[', kk)]))
                entries.append((key, self.spec(value, depth - 1, 'D')))
            if self.skipstop and rng.random() < 0.1:
                # an omitted entry (value SKIP) whose computed key could not even be evaluated: still just omitted
                entries.insert(rng.randint(0, len(entries)), (('tkey', ('t', [('[', 'zz_no_such_key')])), ('fn', self.fn('skip'))))
            return ('dict', entries, typ)
        if c == 'list':
            elem = value[0] if value else 0
            return ('list', self.spec(elem, depth - 1, 'L'))
        if c in ('tuple', 'pipe'):
            steps = []
            cur = value
            for _ in range(rng.randint(1, 3)):
                s = self.spec(cur, depth - 1, 'S')
                steps.append(s)
                try:
                    nxt = self._quiet_ref(s, cur)
                except Exception:
                    break
                if nxt is STOP:
                    if rng.random() < 0.5:
                        steps.append(('fn', self.fn('pair')))   # must never run
                    break
                if nxt is not SKIP:
                    cur = nxt
            return (c, steps)
        if c == 'coalesce':
            subs = []
            for _ in range(rng.randint(1, 3)):
                r = rng.random()
                if r < 0.4:
                    subs.append(('path', rng.choice(['nope', 'a.nope.x', 'zz.0'])))   # fails: skipped
                elif r < 0.5:
                    subs.append(('fn', self.fn('const', None)))
                elif r < 0.6 and self.skipstop and ctx in ('L', 'S', 'D'):
                    # an alternative that *succeeds* with a marker: it wins, and the marker means what it means there
                    subs.append(rng.choice([('fn', self.fn('skip')), ('val', SKIP), ('spec', ('fn', self.fn('skip'))),
                                            ('coalesce', [('path', 'nope')], [('default', SKIP)])] +
                                           ([] if ctx == 'D' else [('fn', self.fn('stop')), ('val', STOP)])))
                else:
                    subs.append(self.spec(value, depth - 1, ctx))
            opts = []
            r = rng.random()
            if r < 0.08 and self.skipstop and ctx in ('L', 'S', 'D'):
                opts.append(('default', SKIP if ctx == 'D' else rng.choice([SKIP, STOP])))
            elif r < 0.3:
                opts.append(('default', rng.choice(['DFLT', None, 0])))
            elif r < 0.4:
                opts.append(('default_factory', self.fn('const', 'FACTORY')))
            if rng.random() < 0.25:
                opts.append(('skip', rng.choice([None, (None, 0), _is_none])))
            if rng.random() < 0.15:
                # (the empty tuple is a value of its own: skip nothing)
                opts.append(('skip_exc', rng.choice([GlomError, (GlomError, ValueError), KeyError, (), ()])))
            return ('coalesce', subs, opts)
        if c == 'call':
            keys = list(value)
            args = [('t', [('[', rng.choice(keys))]) if rng.random() < 0.6 else ('lit', rng.choice(['a.b', 3, None]))
                    for _ in range(rng.randint(0, 2))]
            kwargs = [(kw, ('t', [('[', rng.choice(keys))]) if rng.random() < 0.5 else ('lit', 'k'))
                      for kw in rng.sample(['p', 'q'], rng.randint(0, 2))]
            return ('call', self.fn('collect'), args, kwargs)
        if c == 'invoke':
            parts = []
            # keyword names include keys of the target, so that a star(kwargs=...) group taken from the target collides with
            # explicit keywords given before and after it (groups are stacked in the order given)
            names = ['p', 'q', 'r'] + [k for k in value if isinstance(k, str) and k.isidentifier()][:2]
            for _ in range(rng.randint(1, 4)):
                r = rng.random()
                if r < 0.35:
                    parts.append(('C', [rng.choice([1, 'c', None]) for _ in range(rng.randint(0, 2))],
                                  [(kw, rng.randint(0, 9)) for kw in rng.sample(names, rng.randint(0, 2))]))
                elif r < 0.75:
                    # (half of the sub-specs are logging callables: positional and keyword sub-specs of all groups are evaluated
                    # in the order written, group by group)
                    sub = lambda: self._path(value) if rng.random() < 0.5 else ('fn', self.fn(rng.choice(['pair', 'len', 'ident'])))
                    parts.append(('S', [sub() for _ in range(rng.randint(0, 2))],
                                  [(kw, sub()) for kw in rng.sample(names, rng.randint(0, 2))]))
                elif all(isinstance(k, str) and k.isidentifier() for k in value):
                    parts.append(('*', None, ('t', [])))
            return ('invoke', self.fn('collect'), parts)
        if c == 'invoke-star':
            return ('invoke', self.fn('collect'), [('*', ('t', []), None), ('C', ['tail'], [])])
        raise AssertionError(c)

    def _path(self, value):
        rng = self.rng
        segs = []
        cur = value
        for _ in range(rng.randint(1, 3)):
            keys = [k for k in cur if isinstance(k, str) and k and '.' not in k and k not in ('*', '**')] \
                if isinstance(cur, dict) else []
            if keys:
                k = rng.choice(keys)
                segs.append(k)
                cur = cur[k]
            elif isinstance(cur, list) and cur:
                i = rng.randrange(len(cur))
                segs.append(str(i))
                cur = cur[i]
            else:
                break
        if not segs:
            return ('t', [])
        return ('path', '.'.join(segs))

    def _quiet_ref(self, node, target):
        saved = [(f, f.log, f.calls) for f in self.fns]
        for f in self.fns:
            f.log = None
        try:
            return ref(node, target)
        finally:
            for f, log, calls in saved:
                f.log, f.calls = log, calls


def _is_none(v):
    return v is None


def describe(node):
    from .report import short
    return short(build(node), 300)


def depth_of(node):
    k = node[0]
    if k in ('path', 't', 'fn', 'val', 'call'):
        return 0
    if k == 'dict':
        return 1 + max([depth_of(s) for _, s in node[1]] or [0])
    if k in ('list', 'spec'):
        return 1 + depth_of(node[1])
    if k in ('tuple', 'pipe', 'coalesce'):
        return 1 + max([depth_of(s) for s in node[1]] or [0])
    if k == 'invoke':
        return 1
    if k == 'ref':
        return 1 + (depth_of(node[2]) if node[2] else 0)
    return 0


def shape(node):
    k = node[0]
    if k in ('path', 't', 'val', 'call', 'invoke'):
        return k
    if k == 'fn':
        return 'fn:' + node[1].kind
    if k == 'dict':
        return ('dict', node[2].__name__) + tuple(shape(s) for _, s in node[1])
    if k in ('list', 'spec'):
        return (k, shape(node[1]))
    if k in ('tuple', 'pipe'):
        return (k,) + tuple(shape(s) for s in node[1])
    if k == 'coalesce':
        return (k, tuple(sorted(o[0] for o in node[2]))) + tuple(shape(s) for s in node[1])
    if k == 'ref':
        return (k, shape(node[2]) if node[2] else None)
    return k
