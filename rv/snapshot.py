"""Deep snapshots of object graphs: structure + identity, cycle safe.

snapshot(obj)            canonical nested tuples with id()s     -> "unchanged, same objects"
snapshot(obj, ids=False) same without ids; shared/cyclic nodes are numbered in
                         first-visit order, so two *different* graphs compare
                         equal iff they are isomorphic (same types, values,
                         sharing and cycle pattern)
"""
import collections

ATOMS = (int, float, str, bytes, bool, type(None), complex)


def snapshot(obj, ids=True, spec_aware=False):
    memo = {}

    def walk(o):
        t = type(o)
        if t in ATOMS:
            if t is float and o != o:
                return ('float', 'nan')
            return (t.__name__, o)
        if id(o) in memo:
            return ('ref', memo[id(o)])
        memo[id(o)] = len(memo)
        ident = id(o) if ids else None
        if isinstance(o, dict):
            body = tuple((walk(k), walk(v)) for k, v in dict.items(o))
            extra = _attrs(o, walk) if hasattr(o, '__dict__') else ()
            return (t.__name__, ident, body, extra)
        if isinstance(o, list):
            return (t.__name__, ident, tuple(walk(x) for x in list.__iter__(o)))
        if isinstance(o, tuple):
            return (t.__name__, ident, tuple(walk(x) for x in tuple.__iter__(o)))
        if isinstance(o, (set, frozenset)):
            return (t.__name__, ident, tuple(sorted((walk(x) for x in o), key=repr)))
        if isinstance(o, collections.deque):
            return (t.__name__, ident, tuple(walk(x) for x in o))
        if isinstance(o, type) or callable(o) and not hasattr(o, '__dict__'):
            return ('callable', id(o))
        if t.__name__ == 'TType' and hasattr(o, '__ops__'):
            ops = o.__ops__
            return ('TType', ident, tuple(('root', id(x)) if x is ops[0] and i == 0 else walk(x) for i, x in enumerate(ops)))
        if hasattr(o, '__dict__') or hasattr(t, '__slots__'):
            return (t.__name__, ident, _attrs(o, walk))
        return ('opaque', t.__name__, id(o))

    return walk(obj)


def _attrs(o, walk):
    out = []
    try:
        d = object.__getattribute__(o, '__dict__')
    except AttributeError:
        d = {}
    for k in d:
        if k in ('_log', '_fail', 'fail'):
            continue
        out.append((k, walk(d[k])))
    for klass in type(o).__mro__:
        slots = klass.__dict__.get('__slots__', ())
        if isinstance(slots, str):
            slots = (slots,)
        for s in slots:
            if s in ('__dict__', '__weakref__'):
                continue
            if s.startswith('__') and not s.endswith('__'):
                s = '_%s%s' % (klass.__name__.lstrip('_'), s)
            try:
                out.append((s, walk(object.__getattribute__(o, s))))
            except AttributeError:
                out.append((s, ('unset',)))
    return tuple(out)


def isomorphic(a, b):
    return snapshot(a, ids=False) == snapshot(b, ids=False)


def first_diff(a, b, path='$'):
    """human-readable location of the first difference between two snapshots"""
    if a == b:
        return None
    if type(a) is not tuple or type(b) is not tuple or len(a) != len(b):
        return '%s: %s != %s' % (path, _s(a), _s(b))
    for i, (x, y) in enumerate(zip(a, b)):
        if x != y:
            return first_diff(x, y, '%s[%d]' % (path, i))
    return path


def _s(v):
    s = repr(v)
    return s if len(s) < 200 else s[:200] + '...'
