"""Plain-Python reference for nested assignment / deletion (C11, C12) and the
fault-injecting containers used by both checks.  No glom code is imported."""
import collections
from collections import OrderedDict

from . import gen


class RefError(Exception):
    """the plain-Python edit cannot be done"""
    def __init__(self, stage, pos, exc=None):
        self.stage, self.pos, self.exc = stage, pos, exc   # stage: 'access' | 'assign' | 'delete' | 'factory'

    def __repr__(self):
        return 'RefError(%s at %s: %r)' % (self.stage, self.pos, self.exc)


# ---------------------------------------------------------------------------
# fault-injecting containers

class Boom(Exception):
    pass


class FaultDict(dict):
    """dict whose __setitem__ / __delitem__ raise for the keys in .fail (item access works)"""
    def __init__(self, *a, **kw):
        dict.__init__(self, *a, **kw)
        self.fail = ()

    def __setitem__(self, k, v):
        if k in self.fail:
            raise Boom('setitem %r' % (k,))
        dict.__setitem__(self, k, v)

    def __delitem__(self, k):
        if k in self.fail:
            raise Boom('delitem %r' % (k,))
        dict.__delitem__(self, k)

    def __repr__(self):
        return 'FaultDict(%s)' % dict.__repr__(self)


class FaultList(list):
    fail = ()

    def __setitem__(self, k, v):
        if k in self.fail:
            raise Boom('setitem %r' % (k,))
        list.__setitem__(self, k, v)

    def __delitem__(self, k):
        if k in self.fail:
            raise Boom('delitem %r' % (k,))
        list.__delitem__(self, k)

    def __repr__(self):
        return 'FaultList(%s)' % list.__repr__(self)


class FaultObj:
    """attribute object whose __setattr__/__delattr__ raise for names in _fail; 'ro' is a read-only property"""
    def __init__(self, **kw):
        self.__dict__['_fail'] = ()
        self.__dict__.update(kw)

    @property
    def ro(self):
        return 'read-only'

    def __setattr__(self, name, v):
        if name in self._fail:
            raise Boom('setattr %s' % name)
        object.__setattr__(self, name, v)

    def __delattr__(self, name):
        if name in self._fail:
            raise Boom('delattr %s' % name)
        object.__delattr__(self, name)

    def __repr__(self):
        return 'FaultObj(%s)' % ', '.join('%s=%r' % kv for kv in self.__dict__.items() if kv[0] != '_fail')


# ---------------------------------------------------------------------------
# glom's documented access rules for a path segment (see C01)

ACCESS_WRAPPED = {'P': (Exception,), '.': (AttributeError,), '[': (KeyError, IndexError, TypeError)}


def access(cur, style, arg):
    if style == 'P':
        if isinstance(cur, dict):
            return cur[arg]
        if isinstance(cur, (list, tuple)):
            return cur[int(arg)]
        return getattr(cur, arg)
    if style == '.':
        return getattr(cur, arg)
    return cur[arg]


_UNASSIGNABLE = (tuple, str, bytes, int, float, complex, frozenset, set, range, bytearray, slice, memoryview, type(None))


def do_assign(dest, style, arg, val):
    """the plain Python nested item / attribute assignment"""
    if style == '[':
        dest[arg] = val
    elif style == '.':
        setattr(dest, arg, val)
    else:
        if isinstance(dest, _UNASSIGNABLE):
            raise TypeError('%s does not support assignment' % type(dest).__name__)
        t = type(dest)
        if callable(getattr(t, '__setitem__', None)):
            if callable(getattr(t, 'index', None)):
                dest[int(arg)] = val
            else:
                dest[arg] = val
        else:
            setattr(dest, arg, val)


def do_delete(dest, style, arg):
    if style == '[':
        del dest[arg]
    elif style == '.':
        delattr(dest, arg)
    else:
        if isinstance(dest, _UNASSIGNABLE):
            raise TypeError('%s does not support deletion' % type(dest).__name__)
        t = type(dest)
        if callable(getattr(t, '__delitem__', None)):
            if callable(getattr(t, 'index', None)):
                del dest[int(arg)]
            else:
                del dest[arg]
        else:
            delattr(dest, arg)


def ref_assign(root, steps, val, factory=None):
    """apply the edit to `root` in place; raises RefError when plain Python cannot do it"""
    cur = root
    parents, final = steps[:-1], steps[-1]
    for k, (style, arg) in enumerate(parents):
        try:
            nxt = access(cur, style, arg)
        except Exception as e:
            if not isinstance(e, ACCESS_WRAPPED[style]) or factory is None:
                raise RefError('access', k, e)
            try:
                fresh = factory()
            except Exception as e2:
                raise RefError('factory', k, e2)
            ref_assign(fresh, steps[k + 1:], val, factory)
            try:
                do_assign(cur, style, arg, fresh)
            except Exception as e3:
                raise RefError('assign', k, e3)
            return
        cur = nxt
    try:
        do_assign(cur, final[0], final[1], val)
    except Exception as e:
        raise RefError('assign', len(parents), e)


MISSING_FINAL = {'P': (Exception,), '.': (AttributeError,), '[': (KeyError, IndexError)}


def ref_delete(root, steps):
    cur = root
    parents, final = steps[:-1], steps[-1]
    for k, (style, arg) in enumerate(parents):
        try:
            cur = access(cur, style, arg)
        except Exception as e:
            raise RefError('access' if isinstance(e, ACCESS_WRAPPED[style]) else 'access-other', k, e)
    try:
        do_delete(cur, final[0], final[1])
    except Exception as e:
        raise RefError('delete', len(parents), e)


def final_is_missing(root, steps):
    """is the failure of the final deletion an 'element is absent' failure (as opposed to an injected fault)?"""
    cur = root
    for style, arg in steps[:-1]:
        cur = access(cur, style, arg)
    style, arg = steps[-1]
    try:
        access(cur, style if style != 'P' else 'P', arg)
        return False
    except Exception:
        return True
