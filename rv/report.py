"""Collector of observations, verdict discipline, evidence writer.

Verdicts are three-valued:
  held          exit 0   (requires the deciding monitors to have been reached)
  violation     exit 1 + 'VIOLATION property=<id> replay=<path>' per mechanism
  inconclusive  exit 2 + 'INCONCLUSIVE property=<id> reason=...'
Known findings (committed file known_findings.json, never written at run time)
print 'KNOWN-FINDING: property=<id> <what fails>' and do not affect the status.
"""
import os
import json
import time

from . import env

MAX_VIOLATION_LINES = 20
MAX_SAMPLES_PER_KIND = 4


def short(obj, n=300):
    try:
        s = obj if isinstance(obj, str) else repr(obj)
    except Exception as e:  # hostile reprs must not break reporting
        s = '<unreprable %s: %s>' % (type(obj).__name__, type(e).__name__)
    if len(s) > n:
        s = s[:n] + '...(%d chars)' % len(s)
    return s


class Collector:
    def __init__(self, prop, tier='quick', shard=0, nshards=1):
        self.prop = prop
        self.tier = tier
        self.shard = shard
        self.nshards = nshards
        self.evaluations = 0
        self.keys = set()
        self.samples = {}
        self.counters = {}
        self.violations = {}     # mech -> {'count', 'detail', 'witness'}
        self.inconclusive = []
        self.requirements = []   # (counter name, minimum)
        self.t0 = time.time()

    # -- observation API used by the checks ------------------------------
    def case(self, key=None, nontrivial=True):
        """one generated case / execution; `key` identifies its class for the
        distinct-non-trivial count (None or nontrivial=False: not counted)"""
        self.evaluations += 1
        if key is not None and nontrivial:
            self.keys.add(key if isinstance(key, str) else repr(key))

    def count(self, name, n=1):
        self.counters[name] = self.counters.get(name, 0) + n

    def sample(self, obj, kind='case'):
        lst = self.samples.setdefault(kind, [])
        if len(lst) < MAX_SAMPLES_PER_KIND:
            lst.append(obj if isinstance(obj, (dict, list, str, int, float, type(None))) else short(obj))

    def want_sample(self, kind='case'):
        return len(self.samples.get(kind, ())) < MAX_SAMPLES_PER_KIND

    def violation(self, mech, detail, witness=None):
        """mech: mechanism key, structural (never built from random values)."""
        v = self.violations.get(mech)
        if v is None:
            self.violations[mech] = {'count': 1, 'detail': short(detail, 1500),
                                     'witness': witness, 'shard': self.shard}
        else:
            v['count'] += 1

    def require(self, counter, minimum=1):
        """the run is inconclusive unless counter >= minimum at the end"""
        self.requirements.append((counter, minimum))

    def fail_inconclusive(self, reason):
        self.inconclusive.append(reason)

    # -- (de)serialisation for shard merging ----------------------------
    def to_dict(self):
        return {
            'evaluations': self.evaluations, 'keys': sorted(self.keys),
            'samples': self.samples, 'counters': self.counters,
            'violations': self.violations, 'inconclusive': self.inconclusive,
            'requirements': self.requirements,
        }

    def merge_dict(self, d):
        self.evaluations += d['evaluations']
        self.keys.update(d['keys'])
        for k, lst in d['samples'].items():
            mine = self.samples.setdefault(k, [])
            for s in lst:
                if len(mine) < MAX_SAMPLES_PER_KIND:
                    mine.append(s)
        for k, n in d['counters'].items():
            self.counters[k] = self.counters.get(k, 0) + n
        for mech, v in d['violations'].items():
            if mech in self.violations:
                self.violations[mech]['count'] += v['count']
            else:
                self.violations[mech] = v
        self.inconclusive.extend(d['inconclusive'])
        for r in d['requirements']:
            r = tuple(r)
            if r not in self.requirements:
                self.requirements.append(r)


def load_known():
    path = os.path.join(env.VERIF_DIR, 'known_findings.json')
    try:
        with open(path) as f:
            data = json.load(f)
    except FileNotFoundError:
        return []
    return data.get('findings', [])


def finalize(col, meta):
    """Write evidence, print verdict lines, return the exit status."""
    prop = col.prop
    known = {k['mechanism']: k for k in load_known()
             if k.get('property') == prop and k.get('state') == 'known'}
    for counter, minimum in col.requirements:
        if col.counters.get(counter, 0) < minimum:
            col.inconclusive.append('monitor counter %s=%d below minimum %d'
                                    % (counter, col.counters.get(counter, 0), minimum))
    if col.evaluations == 0:
        col.inconclusive.append('no executions were observed')

    real, known_hit = {}, {}
    for mech, v in col.violations.items():
        (known_hit if mech in known else real)[mech] = v

    out_root = os.environ.get('RV_OUT_DIR') or env.VERIF_DIR     # (self-check runs against mutants write elsewhere)
    os.makedirs(os.path.join(out_root, 'evidence'), exist_ok=True)
    samples = []
    for kind, lst in sorted(col.samples.items()):
        for s in lst:
            samples.append({'kind': kind, 'case': s})
    wall = round(time.time() - col.t0, 2)
    coverage = {
        'evaluations': col.evaluations,
        'distinct_nontrivial': len(col.keys),
        'rule': meta['rule'],
        'samples': samples,
        'exhaustive': bool(meta.get('exhaustive', False)),
        'monitor_counters': dict(sorted(col.counters.items())),
        'shards': col.nshards,
        'source_tree': env.SRC,
        'known_findings_hit': {m: v['count'] for m, v in known_hit.items()},
        'inconclusive': col.inconclusive,
    }
    if meta.get('extra'):
        coverage.update(meta['extra'])
    evidence = {
        'property_id': prop, 'tier': col.tier, 'seed': env.seed(),
        'level': meta['level'], 'coverage': coverage,
        'assumptions': meta.get('assumptions', []),
        'wall_s': wall, 'violations': len(real),
    }
    with open(os.path.join(out_root, 'evidence', prop + '.json'), 'w') as f:
        json.dump(evidence, f, indent=1, sort_keys=True, default=short)
        f.write('\n')

    for mech, v in sorted(known_hit.items()):
        print('KNOWN-FINDING: property=%s %s (%s; seen %d times)'
              % (prop, mech, known[mech].get('witness', ''), v['count']))

    status = 0
    if real:
        status = 1
        rdir = os.path.join(out_root, 'replays')
        os.makedirs(rdir, exist_ok=True)
        for n, (mech, v) in enumerate(sorted(real.items())):
            if n >= MAX_VIOLATION_LINES:
                print('... %d more violation mechanisms suppressed' % (len(real) - n))
                break
            safe = ''.join(c if c.isalnum() or c in '-_.' else '_' for c in mech)[:80]
            path = os.path.join(rdir, '%s-%s.json' % (prop, safe))
            with open(path, 'w') as f:
                json.dump({'property': prop, 'mechanism': mech, 'seed': env.seed(),
                           'tier': col.tier, 'shard': v.get('shard', 0),
                           'count': v['count'], 'detail': v['detail'],
                           'witness': v['witness']}, f, indent=1, default=short)
                f.write('\n')
            print('VIOLATION property=%s replay=%s' % (prop, path))
            print('  mechanism=%s count=%d' % (mech, v['count']))
            print('  ' + v['detail'].replace('\n', '\n  '))
    elif col.inconclusive:
        status = 2
        for r in col.inconclusive[:10]:
            print('INCONCLUSIVE property=%s reason=%s' % (prop, r))
    print('%s %s tier=%s seed=%d evaluations=%d distinct_nontrivial=%d wall=%.1fs counters=%s'
          % (prop, {0: 'HELD', 1: 'VIOLATED', 2: 'INCONCLUSIVE'}[status], col.tier,
             env.seed(), col.evaluations, len(col.keys), wall,
             json.dumps(dict(sorted(col.counters.items())))))
    return status
