"""C17 - Iter pipelines equal the itertools composition, stay lazy, never mutate specs.

Oracle: the same stages composed with itertools / boltons.iterutils over an identical
counting source, plus independent list-based re-implementations of chunked /
windowed / unique for finite sources.  Monitor: PullCounter sources count every
__next__ (and raise past a logical budget when infinite), so laziness is decided on
pulls, never on wall-clock.  Builder immutability: deep snapshot + repr + behaviour
of a spec before and after other specs are derived from it.
"""
import itertools

from boltons.iterutils import split_iter, chunked_iter, windowed_iter, unique_iter

from .. import env
from ..util import call
from ..report import short
from ..snapshot import snapshot, first_diff

glom = env.bind()
from glom import T, S, SKIP, STOP, Iter, Invoke, Check, glom as G  # noqa: E402

META = {
    'level': 'exploration',
    'rule': ('stage sequences of length 0-4 over map, filter, slice, limit, takewhile, dropwhile, chunked(+fill), windowed, '
             'split, unique, flatten with small parameters (type-directed so every stage receives elements it accepts) x '
             'base Iter(subspec, sentinel=) whose subspec yields SKIP / STOP / the sentinel at chosen positions x finite '
             '(0-12 elements) and infinite counting sources x every k <= 6 outputs requested, plus .all() and .first(); '
             'builder sequences on Iter and Invoke where a prefix spec is re-used after being extended. Non-trivial: >= 2 '
             'stages or a SKIP/STOP/sentinel-producing base; distinct by (stage-name sequence, parameter classes, base '
             'kind, source kind, k).'),
    'assumptions': [
        'stage callables return ordinary values (SKIP/STOP/sentinel are honoured for the Iter(subspec) base only)',
        'pull bound: pulls made through glom <= pulls of the reference composition + 1 per stage',
        'boltons.iterutils (a dependency, not under test) provides split/chunked/windowed/unique for the lazy reference',
    ],
}

BUDGET = 3000


class BudgetExceeded(Exception):
    pass


class PullCounter:
    """iterable source counting __next__ calls; optionally infinite with a logical budget"""
    def __init__(self, items=None, infinite=False):
        self.items, self.infinite = items, infinite
        self.pulls = 0

    def __iter__(self):
        return self

    def __next__(self):
        self.pulls += 1
        if self.infinite:
            if self.pulls > BUDGET:
                raise BudgetExceeded('source pulled more than %d times' % BUDGET)
            return self.items(self.pulls - 1)
        if self.pulls > len(self.items):
            raise StopIteration
        return self.items[self.pulls - 1]


# ---------------------------------------------------------------------------
# stages: (name, param class, glom builder, reference builder, output kind)

INT_MAPS = [('x+1', lambda x: x + 1, None), ('x*2', lambda x: x * 2, T * 2), ('x%3', lambda x: x % 3, T % 3), ('-x', lambda x: -x, -T)]
INT_PREDS = [('odd', lambda x: x % 2, T % 2), ('gt3', lambda x: x > 3, None), ('lt5', lambda x: x < 5, None),
             ('truthy', lambda x: x, T), ('ne4', lambda x: x != 4, None)]
SEQ_MAPS = [('len', len, None), ('sum', sum, None), ('list', list, None)]
SEQ_PREDS = [('nonempty', lambda s: len(s), None), ('truthy', lambda s: s, T), ('len<3', lambda s: len(s) < 3, None)]


def _odd_or_not_a_number(x):
    try:
        return x % 2 == 1
    except Exception:
        return False


def gen_stage(rng, kind):
    """kind: 'int' | 'seq' (elements are lists/tuples of ints) -> (name, pclass, apply_glom, apply_ref, new kind)"""
    names = ['map', 'filter', 'slice', 'limit', 'takewhile', 'dropwhile', 'chunked', 'windowed', 'unique']
    names += ['split'] if kind == 'int' else ['flatten', 'flatten']
    name = rng.choice(names)
    if name == 'map':
        n, f, t = rng.choice(INT_MAPS if kind == 'int' else SEQ_MAPS)
        spec = t if (t is not None and rng.random() < 0.5) else f
        out = kind if kind == 'int' else ('seq' if n == 'list' else 'int')
        return (name, n, lambda it: it.map(spec), lambda src: map(f, src), out)
    if name in ('filter', 'takewhile', 'dropwhile'):
        n, f, t = rng.choice(INT_PREDS if kind == 'int' else SEQ_PREDS)
        if name == 'filter' and rng.random() < 0.2:
            # explicit Check as filter key: keeps items the check accepts
            if kind == 'int':
                # (a validator that raises fails its Check like one that returns False: with default=SKIP the item is dropped)
                chk = Check(T, validate=lambda x: x % 2 == 1, default=SKIP)
                return (name, 'Check', lambda it: it.filter(chk), lambda src: filter(_odd_or_not_a_number, src), kind)
        spec = t if (t is not None and rng.random() < 0.5) else f
        if name == 'filter':
            if rng.random() < 0.15:
                return (name, 'default', lambda it: it.filter(), lambda src: filter(None, src), kind)
            return (name, n, lambda it: it.filter(spec), lambda src: filter(f, src), kind)
        if name == 'takewhile':
            return (name, n, lambda it: it.takewhile(spec), lambda src: itertools.takewhile(f, src), kind)
        return (name, n, lambda it: it.dropwhile(spec), lambda src: itertools.dropwhile(f, src), kind)
    if name == 'slice':
        args = rng.choice([(3,), (0,), (1, 4), (2, None), (0, 6, 2), (1, None, 3), (None, 5)])
        return (name, str(args), lambda it: it.slice(*args), lambda src: itertools.islice(src, *args), kind)
    if name == 'limit':
        n = rng.choice([0, 1, 2, 5])
        return (name, str(n), lambda it: it.limit(n), lambda src: itertools.islice(src, n), kind)
    if name == 'chunked':
        size = rng.choice([1, 2, 3])
        if rng.random() < 0.4:
            fill = rng.choice([None, 0, -1])
            return (name, 'fill', lambda it: it.chunked(size, fill), lambda src: chunked_iter(src, size, fill=fill), 'seq')
        return (name, str(size), lambda it: it.chunked(size), lambda src: chunked_iter(src, size), 'seq')
    if name == 'windowed':
        size = rng.choice([1, 2, 3])
        return (name, str(size), lambda it: it.windowed(size), lambda src: windowed_iter(src, size), 'seq')
    if name == 'unique':
        if kind == 'int':
            n, f, t = rng.choice([('T', lambda x: x, T), ('x%3', lambda x: x % 3, T % 3), ('x//2', lambda x: x // 2, None)])
            spec = t if (t is not None and rng.random() < 0.5) else f
            if n == 'T' and rng.random() < 0.5:
                return (name, 'default', lambda it: it.unique(), lambda src: unique_iter(src), kind)
            return (name, n, lambda it: it.unique(spec), lambda src: unique_iter(src, key=f), kind)
        return (name, 'len', lambda it: it.unique(len), lambda src: unique_iter(src, key=len), kind)
    if name == 'split':
        sep = rng.choice([0, 3, [0, 1], None])
        maxsplit = rng.choice([None, None, 1, 2])
        if sep is None:
            # sep=None groups None values; give the stream some Nones via a map first? keep to int separators mostly
            return (name, 'None', lambda it: it.split(), lambda src: split_iter(src), 'seq')
        return (name, 'sep%s' % ('+max' if maxsplit else ''), lambda it: it.split(sep, maxsplit),
                lambda src: split_iter(src, sep=sep, maxsplit=maxsplit), 'seq')
    if name == 'flatten':
        return (name, '-', lambda it: it.flatten(), lambda src: itertools.chain.from_iterable(src), 'int')
    raise AssertionError(name)


def gen_base(rng):
    """-> (kind name, glom Iter factory, reference base function)"""
    r = rng.random()
    if r < 0.4:
        return ('plain', lambda: Iter(), lambda src: iter(src))
    if r < 0.55:
        f = lambda x: x + 10
        return ('subspec', lambda: Iter(f), lambda src: map(f, src))
    skips = set(rng.sample(range(12), rng.randint(1, 4)))
    stop_at = rng.choice([None, None, 3, 6, 0])
    sentinel = rng.choice([None, 7, 7, 'S'])
    equal_twin = sentinel == 7 and rng.random() < 0.5     # the stream also carries 7.0: EQUAL to the sentinel, not the sentinel
    kinds = 'skip'

    def sub(x, skips=skips, stop_at=stop_at):
        if x == stop_at:
            return STOP
        if x in skips:
            return SKIP
        if equal_twin and x in (2, 5):
            return 7.0
        if sentinel == 'S' and x == 9:
            return 'S'
        return x

    def ref(src):
        for x in src:
            y = sub(x)
            if y is SKIP:
                continue
            if y is STOP or (sentinel is not None and y is sentinel):
                return
            yield y
    if sentinel is not None:
        kinds += '+sentinel' + ('+equal-twin' if equal_twin else '')
        mk = lambda: Iter(sub, sentinel=sentinel)
    else:
        mk = lambda: Iter(sub)
    if stop_at is not None:
        kinds += '+stop'
    return (kinds, mk, ref)


def finite_items(rng):
    n = rng.choice([0, 1, 2, 3, 5, 8, 12])
    style = rng.choice(['range', 'random', 'dups'])
    if style == 'range':
        return list(range(n))
    if style == 'random':
        return [rng.randint(0, 11) for _ in range(n)]
    return [rng.choice([0, 1, 1, 4, 4, 7]) for _ in range(n)]


def take(it, k):
    return list(itertools.islice(it, k))


# independent list-based re-implementations (finite inputs)
def simple_chunked(lst, size, fill=None, has_fill=False):
    out = [lst[i:i + size] for i in range(0, len(lst), size)]
    if has_fill and out and len(out[-1]) < size:
        out[-1] = out[-1] + [fill] * (size - len(out[-1]))
    return out


def simple_windowed(lst, size):
    return [tuple(lst[i:i + size]) for i in range(len(lst) - size + 1)]


def simple_unique(lst, key):
    seen, out = set(), []
    for x in lst:
        k = key(x)
        if k not in seen:
            seen.add(k)
            out.append(x)
    return out


def pipeline_case(col, rng):
    base_kind, mk_base, ref_base = gen_base(rng)
    nstages = rng.choice([0, 1, 1, 2, 2, 3, 3, 4])
    kind = 'int'
    stages = []
    for _ in range(nstages):
        st = gen_stage(rng, kind)
        stages.append(st)
        kind = st[4]
    infinite = rng.random() < 0.3
    if infinite:
        gen = rng.choice([lambda i: i, lambda i: i % 7, lambda i: (i * 5) % 12])
        mk_src = lambda: PullCounter(gen, infinite=True)
        items_desc = 'infinite'
    else:
        items = finite_items(rng)
        mk_src = lambda: PullCounter(list(items))
        items_desc = short(items)
    names = tuple(s[0] for s in stages)
    pclasses = tuple(s[1] for s in stages)

    def build_spec():
        it = mk_base()
        for s in stages:
            it = s[2](it)
        return it

    def build_ref(src):
        r = ref_base(src)
        for s in stages:
            r = s[3](r)
        return r

    spec = build_spec()
    rendering = short(spec)
    nontrivial = nstages >= 2 or base_kind not in ('plain', 'subspec')
    ks = [0, 1, 2, 3, 6] + ([None] if not infinite else [])
    for k in ks:
        col.case((names, pclasses, base_kind, 'inf' if infinite else 'fin', k), nontrivial)
        rsrc = mk_src()
        want = call(lambda: take(build_ref(rsrc), k) if k is not None else list(build_ref(rsrc)))
        if not want.ok and isinstance(want.exc, BudgetExceeded):
            col.count('reference_diverges')
            continue
        gsrc = mk_src()
        got = call(lambda: take(G(gsrc, spec), k) if k is not None else list(G(gsrc, spec)))
        col.count('pipelines_run')
        col.count('pulls_observed', gsrc.pulls)
        wit = {'spec': rendering, 'source': items_desc, 'k': k}
        if col.want_sample('pipeline'):
            col.sample({'spec': rendering, 'source': items_desc, 'k': k, 'reference_output': short(want),
                        'pulls_glom': gsrc.pulls, 'pulls_reference': rsrc.pulls}, 'pipeline')
        # (when a stage callable itself fails, e.g. None % 3 on a fill value, both must fail; how glom
        #  wraps that error is C02/C04's subject)
        if want.ok != got.ok or (want.ok and got.value != want.value):
            if not got.ok and isinstance(got.exc, BudgetExceeded):
                col.violation('C17/not-lazy-infinite-source:' + '.'.join(names),
                              '%s over an infinite source, %s outputs: reference needs %d pulls, glom exceeded the budget of %d'
                              % (rendering, k, rsrc.pulls, BUDGET), wit)
            else:
                col.violation('C17/output-differs:' + ('.'.join(names) or 'base:' + base_kind),
                              '%s over %s, first %s outputs: reference %r, glom %r' % (rendering, items_desc, k, want, got), wit)
            return
        if gsrc.pulls > rsrc.pulls + nstages + 1:
            col.violation('C17/pulls-more-than-reference:' + '.'.join(names),
                          '%s over %s, %s outputs: reference pulled %d, glom %d' % (rendering, items_desc, k, rsrc.pulls, gsrc.pulls), wit)
            return
    # nothing may be pulled before the first output is requested beyond what the reference composition pulls
    gsrc, rsrc = mk_src(), mk_src()
    res = call(G, gsrc, spec)
    call(build_ref, rsrc)
    if res.ok and gsrc.pulls > rsrc.pulls + nstages + 1:
        col.violation('C17/eager-at-construction:' + '.'.join(names), '%s pulled %d items before any output was requested (reference %d)'
                      % (rendering, gsrc.pulls, rsrc.pulls), {'spec': rendering})
    # terminal helpers
    if not infinite:
        src = mk_src()
        got = call(G, src, build_spec().all())
        want = call(lambda: list(build_ref(mk_src())))
        col.count('terminal_all')
        if got.ok != want.ok or (got.ok and (got.value != want.value or type(got.value) is not list)):
            col.violation('C17/all-differs', '%s.all() over %s: %r vs reference %r' % (rendering, items_desc, got, want), None)
    if kind == 'int':
        # (is-zero / even / lt1: the first MATCHING item may itself be falsy - the key decides, not the item's truth value)
        key_name, key = rng.choice([('default', None), ('gt3', lambda x: x > 3), ('odd', lambda x: x % 2), ('is-zero', lambda x: x == 0),
                                    ('even', lambda x: x % 2 == 0), ('lt1', lambda x: x < 1)])
        src, rsrc = mk_src(), mk_src()
        dflt = rng.choice([None, 'DFLT'])
        args = {} if key is None else {'key': key}
        if dflt is not None:
            args['default'] = dflt
        want = call(lambda: next((x for x in build_ref(rsrc) if (key(x) if key else x)), dflt))
        if want.ok:
            got = call(G, src, build_spec().first(**args))
            col.count('terminal_first')
            if not got.ok or got.value != want.value:
                col.violation('C17/first-differs', '%s.first(%s) over %s: %r vs reference %r' % (rendering, short(args), items_desc, got, want), None)
            elif src.pulls > rsrc.pulls + nstages + 1:
                col.violation('C17/first-not-lazy', '%s.first(): pulled %d, reference %d' % (rendering, src.pulls, rsrc.pulls), None)


def markers_returned_by_later_stages_are_values(col):
    """SKIP / STOP are honoured where the statement says so: by the Iter(subspec) stage.  What the callable of a chained map() returns
    is the item the next stage receives, whatever it is - `Iter().map(f).map(g)` is map(g, map(f, src)) - also when f returns one of
    the marker objects, for adjacent maps and maps separated by other stages"""
    skip_odd = lambda x: SKIP if x % 2 else x
    stop_from_3 = lambda x: STOP if x >= 3 else x
    describe = lambda v: 'skipped' if v is SKIP else 'stopped' if v is STOP else 'value %s' % (v,)
    keep = lambda v: v
    plus = lambda x: x + 1
    pipes = [
        ('map(skip).map(describe)', lambda: Iter().map(skip_odd).map(describe), lambda s: map(describe, map(skip_odd, s))),
        ('map(stop).map(describe)', lambda: Iter().map(stop_from_3).map(describe), lambda s: map(describe, map(stop_from_3, s))),
        ('map.map(skip).map(describe)', lambda: Iter().map(plus).map(skip_odd).map(describe), lambda s: map(describe, map(skip_odd, map(plus, s)))),
        ('map(skip).map(keep).map(describe)', lambda: Iter().map(skip_odd).map(keep).map(describe), lambda s: map(describe, map(keep, map(skip_odd, s)))),
        ('base.map(skip).map(describe)', lambda: Iter(plus).map(skip_odd).map(describe), lambda s: map(describe, map(skip_odd, map(plus, s)))),
        ('map(skip).limit.map(describe)', lambda: Iter().map(skip_odd).limit(4).map(describe), lambda s: map(describe, itertools.islice(map(skip_odd, s), 4))),
        ('map(stop).filter.map(describe)', lambda: Iter().map(stop_from_3).filter(lambda v: v != 0).map(describe),
         lambda s: map(describe, filter(lambda v: v != 0, map(stop_from_3, s)))),
        ('map(skip) last', lambda: Iter().map(plus).map(skip_odd), lambda s: map(skip_odd, map(plus, s))),
        ('T-map.map(skip).map(describe)', lambda: Iter().map(T + 1).map(skip_odd).map(describe), lambda s: map(describe, map(skip_odd, map(plus, s)))),
        ('chunked.map(skip-on-list).map(describe)', lambda: Iter().chunked(2).map(lambda c: SKIP if sum(c) % 3 == 0 else c).map(describe),
         lambda s: map(describe, map(lambda c: SKIP if sum(c) % 3 == 0 else c, chunked_iter(s, 2)))),
    ]
    for name, mk, ref in pipes:
        spec = mk()
        for src_name, mk_src in (('range(6)', lambda: PullCounter(list(range(6)))), ('empty', lambda: PullCounter([])),
                                 ('infinite', lambda: PullCounter(lambda i: i % 5, infinite=True))):
            for k in (0, 1, 3, 5) + ((None,) if src_name != 'infinite' else ()):
                rsrc, gsrc = mk_src(), mk_src()
                want = call(lambda: take(ref(rsrc), k) if k is not None else list(ref(rsrc)))
                got = call(lambda: take(G(gsrc, spec), k) if k is not None else list(G(gsrc, spec)))
                col.case(('markers-as-values', name, src_name, k), True)
                col.count('pipelines_run')
                col.count('marker_value_pipelines')
                if want.ok != got.ok or (want.ok and got.value != want.value):
                    col.violation('C17/output-differs:marker-returned-by-a-map-stage:' + name,
                                  '%s over %s, first %s outputs: the composition gives %r, glom %r' % (short(spec), src_name, k, want, got), None)
                    break
                if gsrc.pulls > rsrc.pulls + 4:
                    col.violation('C17/pulls-more-than-reference:marker-returned-by-a-map-stage', '%s over %s, %s outputs: reference pulled %d, glom %d'
                                  % (short(spec), src_name, k, rsrc.pulls, gsrc.pulls), None)
                    break


def split_separators_of_every_kind(col):
    """Iter().split(sep) is split_iter(source, sep): a str / bytes separator is ONE value (whatever its length), None separates at
    None, a list / tuple / set is a collection of separator values, a callable is a predicate - on streams of strings, bytes and mixed
    records, with and without maxsplit, on one spec object evaluated twice"""
    streams = [
        ('lines', ['a', '--', 'b', 'c', '', 'd', '--', '--', 'e', '-']),
        ('paragraphs', ['t1', 't2', '', 't3', '', '', 't4']),
        ('bytes', [b'x', b'ab', b'y', b'', b'a', b'b', b'ab']),
        ('mixed', [1, None, 'ab', 2, 0, None, 'a', 'b', 3, ('a',), 0]),
        ('chars', list('a-b--c')),
    ]
    seps = [('two-char str', '--'), ('empty str', ''), ('one-char str', '-'), ('bytes', b'ab'), ('empty bytes', b''), ('None', None),
            ('list of strs', ['--', '']), ('tuple', ('a', 'b')), ('set', {'--', '-'}), ('frozenset', frozenset(['ab', 0])), ('zero', 0),
            ('predicate', lambda x: x in ('', None)), ('list holding a tuple', [('a',)]), ('str of separators', 'ab')]
    for sname, items in streams:
        for pname, sep in seps:
            for maxsplit in (None, 1, 2):
                spec = Iter().split(sep) if maxsplit is None else Iter().split(sep, maxsplit)
                want = call(lambda: list(split_iter(list(items), sep=sep, maxsplit=maxsplit)))
                for n in (1, 2):
                    got = call(lambda: list(G(list(items), spec)))
                    col.case(('split-separators', sname, pname, maxsplit, n), True)
                    col.count('glom_pipelines')
                    col.count('split_separator_cases')
                    if got.ok != want.ok or (got.ok and got.value != want.value):
                        col.violation('C17/output-differs:split:separator-%s' % pname.replace(' ', '-'),
                                      'Iter().split(%r%s) over %r (evaluation #%d): %r ; split_iter gives %r'
                                      % (sep, '' if maxsplit is None else ', %d' % maxsplit, items, n, got, want), None)
                        break


def independent_stage_checks(col, rng):
    """chunked / windowed / unique against list-based re-implementations"""
    for _ in range(60):
        items = [rng.randint(0, 6) for _ in range(rng.randint(0, 10))]
        size = rng.choice([1, 2, 3, 4])
        fill = rng.choice([None, 0])
        col.case(('independent', size, len(items) % size), True)
        checks = [
            ('chunked', Iter().chunked(size), simple_chunked(items, size)),
            ('chunked-fill', Iter().chunked(size, fill), simple_chunked(items, size, fill, True)),
            ('windowed', Iter().windowed(size), simple_windowed(items, size)),
            ('unique', Iter().unique(), simple_unique(items, lambda x: x)),
            ('unique-key', Iter().unique(T % 3), simple_unique(items, lambda x: x % 3)),
            ('map-filter', Iter().map(T * 2).filter(lambda x: x > 4), [x * 2 for x in items if x * 2 > 4]),
            ('filter-map', Iter().filter(lambda x: x > 2).map(T * 2), [x * 2 for x in items if x > 2]),
            ('flatten', Iter().chunked(size).flatten(), list(items)),
        ]
        for name, spec, want in checks:
            got = call(lambda: list(G(list(items), spec)))
            col.count('independent_checks')
            if not got.ok or got.value != want:
                col.violation('C17/stage-differs-from-simple-model:' + name, '%s over %s: %r, simple model %s'
                              % (short(spec), items, got, short(want)), None)


def _pull_all_keeping_errors(it, limit=50):
    """what a consumer sees that catches an item-level error and keeps pulling"""
    out = []
    for _ in range(limit):
        try:
            out.append(next(it))
        except StopIteration:
            break
        except Exception as e:
            out.append('ERR:' + type(e).__name__)
    return out


def stages_after_an_item_level_error_and_keys_in_context(col):
    """(1) a map / filter stage is the builtin map / filter over its source: when the function raises for one item, a consumer that
    catches the error and pulls again gets the following items - on finite and infinite sources.  (2) first(key): the key is a spec
    evaluated in the context of the running call - it sees scope= values, S(..) bindings made before, and the registry of the Glommer
    the call goes through"""
    import itertools as it
    from glom import Glommer, Call, Coalesce
    from glom.streaming import First
    div = lambda x: 10 // x
    odd_or_boom = lambda x: (x % 2 == 1) if x != 4 else 1 // 0
    stages = [('map', lambda i: i.map(div), lambda src: map(div, src)), ('filter', lambda i: i.filter(odd_or_boom), lambda src: filter(odd_or_boom, src)),
              ('map then filter', lambda i: i.map(div).filter(lambda v: v != 5), lambda src: filter(lambda v: v != 5, map(div, src))),
              ('filter then map', lambda i: i.filter(odd_or_boom).map(div), lambda src: map(div, filter(odd_or_boom, src))),
              ('map then limit', lambda i: i.map(div).limit(4), lambda src: it.islice(map(div, src), 4))]
    for sname, mk_src in (('finite', lambda: [1, 2, 0, 5, 4, 3, 0, 7]), ('infinite', lambda: it.cycle([1, 2, 0, 5, 4, 3]))):
        for name, build, ref in stages:
            got = call(lambda: _pull_all_keeping_errors(iter(G(mk_src(), build(Iter()))), 12))
            want = _pull_all_keeping_errors(iter(ref(iter(mk_src()))), 12)
            col.case(('stage-after-item-error', sname, name), True)
            col.count('independent_checks')
            if not (got.ok and got.value == want):
                col.violation('C17/stage-ends-after-an-item-level-error:' + name.split(' ')[0], 'Iter().%s over a %s source, consumer keeps pulling after an error: %r ; '
                              'the map / filter composition gives %r' % (name, sname, got, want), None)

    class Rec:
        __slots__ = ('flag', 'name')

        def __init__(self, name, flag):
            self.name, self.flag = name, flag
    g = Glommer()
    g.register(Rec, get=lambda o, k: getattr(o, k) if k != 'flag' else not o.flag)       # this Glommer reads flags inverted
    above = Call(lambda a, b: a > b, args=(T, S.threshold))
    ctx_cases = [
        ('scope= value', lambda: G([3, 12, 20], Iter().first(above), scope={'threshold': 5}), 12),
        ('S() binding made before', lambda: G({'lim': 15, 'xs': [3, 12, 20]}, (S(threshold=T['lim']), 'xs', Iter().first(above))), 20),
        ('First(key) with a scope= value', lambda: G([3, 12, 20], First(above), scope={'threshold': 15}), 20),
        ('key with a fallback when unbound', lambda: G([3, 12], Iter().first(Call(lambda a, b: a > b, args=(T, Coalesce(S.threshold, default=0)))), scope={'threshold': 5}), 12),
        ('Glommer registry in the key', lambda: g.glom([Rec('a', True), Rec('b', False)], (Iter().first('flag'), 'name')), 'b'),
        ('plain glom, same targets', lambda: G([Rec('a', True), Rec('b', False)], (Iter().first(T.flag), T.name)), 'a'),
        ('no item satisfies: default', lambda: G([1, 2], Iter().first(above, default='none'), scope={'threshold': 5}), 'none'),
    ]
    for desc, prog, want in ctx_cases:
        got = call(prog)
        col.case(('first-key-in-context', desc), True)
        col.count('independent_checks')
        if not (got.ok and got.value == want):
            col.violation('C17/first-key-not-evaluated-in-the-context-of-the-call', '%s: %r, expected %r' % (desc, got, want), None)


def builder_case(col, rng):
    """derive specs from a prefix, then check the prefix is untouched"""
    ops = [('map', lambda it: it.map(lambda x: x + 1)), ('filter', lambda it: it.filter(lambda x: x % 2)),
           ('limit', lambda it: it.limit(2)), ('slice', lambda it: it.slice(1, 3)), ('chunked', lambda it: it.chunked(2)),
           ('unique', lambda it: it.unique()), ('takewhile', lambda it: it.takewhile(lambda x: x < 4)),
           ('dropwhile', lambda it: it.dropwhile(lambda x: x < 2)), ('windowed', lambda it: it.windowed(2))]
    # sub-spec OBJECTS shared between the stages of a prefix and the stage that is added (one Check / Coalesce / Iter used as map spec
    # here and as filter key there): the added stage may wrap them, never change them
    chk = Check(T, validate=lambda x: x < 4)
    chk_typed = Check(type=int)
    inner = Iter().map(lambda x: x)
    ops += [('map-shared-check', lambda it: it.map(chk)), ('filter-shared-check', lambda it: it.filter(chk)), ('filter-typed-check', lambda it: it.filter(chk_typed)),
            ('map-typed-check', lambda it: it.map(chk_typed)), ('takewhile-shared-check', lambda it: it.takewhile(chk)), ('unique-shared-check', lambda it: it.unique(chk_typed))]
    r = rng.random()
    base = Iter() if r < 0.35 else Iter(lambda x: x * 1) if r < 0.6 else Iter(chk) if r < 0.8 else Iter(chk_typed)
    chain = [base]
    names = []
    probe = [0, 1, 2, 3, 4, 5, 1, 2]
    for _ in range(rng.randint(1, 4)):
        n, f = rng.choice(ops[:8] + ops[9:])
        chain.append(f(chain[-1]))
        names.append(n)
    # record every prefix, then derive two different extensions from each and re-check
    for i, prefix in enumerate(chain):
        before = (snapshot(prefix), repr(prefix), call(lambda: list(G(list(probe), prefix))))
        for _ in range(2):
            n, f = rng.choice(ops)
            derived = f(prefix)
            call(lambda: list(G(list(probe), derived)))
            if derived is prefix:
                col.violation('C17/builder-returns-self:' + n, 'Iter.%s returned the spec it was called on' % n, None)
        after = (snapshot(prefix), repr(prefix), call(lambda: list(G(list(probe), prefix))))
        col.case(('builder', 'Iter', tuple(names[:i])), True)
        col.count('builder_prefixes_checked')
        if before[0] != after[0]:
            col.violation('C17/builder-mutates-prefix:Iter', 'deriving from %s changed it: %s' % (before[1], first_diff(before[0], after[0])), None)
        elif before[1] != after[1] or before[2].ok != after[2].ok or (before[2].ok and before[2].value != after[2].value):
            col.violation('C17/builder-changes-prefix-behaviour:Iter', '%s -> %s; output %r -> %r' % (before[1], after[1], before[2], after[2]), None)
    # Invoke
    def f(*a, **kw):
        return (a, tuple(sorted(kw.items())))
    inv_ops = [('constants', lambda iv: iv.constants(rng.randint(0, 9))), ('constants-kw', lambda iv: iv.constants(k=rng.randint(0, 9))),
               ('specs', lambda iv: iv.specs(T)), ('specs-kw', lambda iv: iv.specs(j=T)), ('star', lambda iv: iv.star(args=T)),
               ('star-kw', lambda iv: iv.star(kwargs=lambda t: {'z': 1}))]
    chain = [Invoke(f)]
    names = []
    for _ in range(rng.randint(1, 4)):
        n, op = rng.choice(inv_ops)
        chain.append(op(chain[-1]))
        names.append(n)
    for i, prefix in enumerate(chain):
        before = (snapshot(prefix), repr(prefix), call(G, [1, 2], prefix))
        for _ in range(2):
            n, op = rng.choice(inv_ops)
            derived = op(prefix)
            call(G, [1, 2], derived)
            if derived is prefix:
                col.violation('C17/builder-returns-self:Invoke.' + n, 'Invoke.%s returned the spec it was called on' % n, None)
        after = (snapshot(prefix), repr(prefix), call(G, [1, 2], prefix))
        col.case(('builder', 'Invoke', tuple(names[:i])), True)
        col.count('builder_prefixes_checked')
        if before[0] != after[0]:
            col.violation('C17/builder-mutates-prefix:Invoke', 'deriving from %s changed it: %s' % (before[1], first_diff(before[0], after[0])), None)
        elif before[1] != after[1] or before[2].ok != after[2].ok or (before[2].ok and before[2].value != after[2].value):
            col.violation('C17/builder-changes-prefix-behaviour:Invoke', '%s -> %s; %r -> %r' % (before[1], after[1], before[2], after[2]), None)


def run(ctx):
    col, rng = ctx.col, ctx.rng
    col.require('pipelines_run', 1000)
    col.require('pulls_observed', 1000)
    col.require('builder_prefixes_checked', 100)
    if ctx.shard == 0:
        independent_stage_checks(col, rng)
        stages_after_an_item_level_error_and_keys_in_context(col)
        markers_returned_by_later_stages_are_values(col)
        split_separators_of_every_kind(col)
    for i in range(ctx.n(8000, 40000)):
        pipeline_case(col, rng)
    for i in range(ctx.n(1000, 5000)):
        builder_case(col, rng)
