"""C09 - Match succeeds exactly on conforming targets and returns them unchanged.

Oracle: `ref_match`, an independent matcher over the check's own pattern description
implementing only the documented rules.  Targets: a conforming sampler derived from
the pattern, one-edit mutations of conforming targets (near misses) and unrelated
targets; for each the reference decides conformance, and glom(t, Match(p)),
Match(p).matches(t), .verify(t) and Match(p, default=d) must agree.  Monitor: deep
snapshot of the target before/after.
"""
import re
import functools

from .. import env
from ..util import call
from ..report import short
from ..snapshot import snapshot

glom = env.bind()
from glom import (T, M, And, Or, Not, Match, MatchError, TypeMatchError, Regex, Optional, Required, GlomError, Val,  # noqa: E402
                  glom as G)

META = {
    'level': 'exploration',
    'rule': ('patterns to depth 3 over literals, types, [alternatives], {set alternatives}, frozenset, tuples, dicts with '
             'literal / type / Optional(k[, default]) / Required(type) / Or(...) / tuple keys, Regex (fullmatch, search, match), '
             'predicates (functions, callable instances, partials; total and raising), And/Or/Not, M comparisons x targets: '
             'pattern-derived conforming samples, every kind of one-edit mutation of them (leaf of wrong type or value, missing '
             'key, unexpected key, tuple length +-1, wrong container type, dropped/added element) and unrelated values. '
             'Non-trivial: pattern depth >= 2; distinct by (pattern shape, edit kind, reference verdict).'),
    'assumptions': [
        'TypeMatchError/TypeError is demanded only when a type rule is the only rule on the failing path (no alternatives)',
        'cases in which an M comparison itself raises (incomparable operands) are skipped: neither true nor false',
        'set patterns contain hashable alternatives (literals and types) only',
    ],
}

MISSING = object()
SENT = 'DEFAULT-SENTINEL'


class Rej(Exception):
    def __init__(self, kind, clean=True):
        self.kind, self.clean = kind, clean


class Incomparable(Exception):
    pass


# ---------------------------------------------------------------------------
# predicates

def pos(x):
    return x > 0          # raises TypeError on str/None: a raising predicate


def is_short(x):
    return len(x) < 3     # raises TypeError on ints


def always(x):
    return True


def inv(x):
    return 1 / x > 0.1    # ZeroDivisionError on 0 / False, TypeError on str/None


def nonzero(x):
    assert x != 0, 'zero'   # AssertionError on 0 / False / 0.0
    return True


def keyed(x):
    return {'a': 1, 'b': 2}[x] == 1    # KeyError on other hashables, TypeError on unhashables


class PredObj:
    def __init__(self, fn):
        self.fn = fn

    def __call__(self, x):
        return self.fn(x)

    def __repr__(self):
        return '<PredObj %s>' % self.fn.__name__


PREDS = {
    'pos': (pos, pos), 'short': (is_short, is_short), 'always': (always, always),
    'pos-obj': (PredObj(pos), pos), 'short-partial': (functools.partial(lambda lim, x: len(x) < lim, 3), is_short),
    # predicates whose rejection is an exception of a class other than TypeError
    'inv': (inv, inv), 'nonzero': (nonzero, nonzero), 'keyed': (keyed, keyed), 'nonzero-obj': (PredObj(nonzero), nonzero),
}
REGEXES = [
    ('[abc]+', None, ['a', 'abc', 'cab'], ['', 'abd', 'xa', 'A']),
    ('[0-9]{2}', re.search, ['a12b', '99'], ['a1b', '', 'x']),
    ('ab', re.match, ['ab', 'abz'], ['zab', 'a', '']),
    (r'\w+@\w+', None, ['a@b', 'x1@y2'], ['a@', '@b', 'a b@c']),
    # a full match that needs the expression to be tried AGAIN for a longer match: an alternative that is a prefix of a later one,
    # a lazy quantifier, an optional tail (re.match alone stops at the first way to succeed)
    ('a|ab', None, ['a', 'ab'], ['b', 'abc', 'ba', '']),
    (r'x|x-\w+', None, ['x', 'x-rate'], ['x-', 'y', 'xx']),
    (r'\d+?', None, ['1', '123'], ['', '12a', 'a1']),
    (r'(ab)*?c?', None, ['', 'ab', 'abab', 'ababc', 'c'], ['a', 'abca', 'cc']),
    (r'[a-z]+?\.(txt|text)', None, ['a.txt', 'notes.text'], ['a.tx', '.txt', 'a.texts']),
    ('a|ab', re.match, ['a', 'ab', 'abc', 'ax'], ['b', 'ba', '']),
    (r'\d+?$', re.search, ['1', 'a123', '12'], ['', '12a', 'a']),
    (r'^$|^-$', None, ['', '-'], ['--', ' ', 'a']),
]
OPS = {'==': lambda a, b: a == b, '!=': lambda a, b: a != b, '>': lambda a, b: a > b, '<': lambda a, b: a < b,
       '>=': lambda a, b: a >= b, '<=': lambda a, b: a <= b}

import numbers as _numbers  # noqa: E402
import collections.abc as _abc  # noqa: E402
# (classes with a metaclass of their own - ABCs - are type rules like any other class)
TYPE_SAMPLES = {int: [3, 0, -7], str: ['s', '', 'abc'], float: [1.5, 0.0], list: [[1], []], dict: [{}, {'q': 1}],
                object: [None, 'o', 4, (1,)], tuple: [(1,), ()], bool: [True, False], type(None): [None],
                _numbers.Number: [3, 2.5, True], _abc.Mapping: [{}, {'q': 1}], _abc.Sequence: [[1], (2,), 'txt']}
WRONG = {int: 'str!', str: 12345, float: 'f', list: (9,), dict: [1], tuple: [9], bool: 'b', type(None): 0, object: None,
         _numbers.Number: 'five', _abc.Mapping: [('q', 1)], _abc.Sequence: {1}}


# ---------------------------------------------------------------------------
# pattern generation (own description)

def gen_pat(rng, depth, ctx='any'):
    """ctx 'hash': must be usable inside a set pattern / as dict value anywhere is fine"""
    leafs = ['lit', 'lit', 'type', 'type', 'regex', 'pred', 'm', 'intand']
    comps = ['list', 'list', 'tuple', 'dict', 'dict', 'set', 'fset', 'and', 'or', 'not', 'anddict']
    if ctx == 'hash':
        k = rng.choice(['lit', 'type'])
    elif depth <= 0:
        k = rng.choice(leafs)
    else:
        k = rng.choice(leafs + comps + comps)
    if k == 'lit':
        return ('lit', rng.choice([1, 0, 'a', 'key', None, 2.5, True, '']))
    if k == 'type':
        return ('type', rng.choice([int, str, float, list, dict, object, tuple, _numbers.Number, _abc.Mapping, _abc.Sequence]))
    if k == 'regex':
        return ('regex', rng.randrange(len(REGEXES)))
    if k == 'pred':
        return ('pred', rng.choice(sorted(PREDS)))
    if k == 'm':
        return ('m', rng.choice(sorted(OPS)), rng.choice([0, 1, 5]))
    if k == 'intand':
        return ('and', [('type', int), ('m', rng.choice(['>', '>=', '<', '!=']), rng.choice([0, 2]))])
    if k == 'list':
        return ('list', [gen_pat(rng, depth - 1) for _ in range(rng.choice([0, 1, 1, 2, 3]))])
    if k in ('set', 'fset'):
        return (k, [gen_pat(rng, 0, 'hash') for _ in range(rng.choice([0, 1, 2]))])
    if k == 'tuple':
        return ('tuple', [gen_pat(rng, depth - 1) for _ in range(rng.randint(0, 3))])
    if k == 'dict':
        entries = []
        used = set()
        for _ in range(rng.randint(0, 4)):
            kk = rng.choice(['klit', 'klit', 'ktype', 'kopt', 'kopt', 'kreq', 'kor', 'ktuple'])
            if kk == 'klit':
                key = ('klit', rng.choice(['a', 'b', 'c', 1, None]))
            elif kk == 'ktype':
                key = ('ktype', rng.choice([str, int, object]))
            elif kk == 'kopt':
                key = ('kopt', rng.choice(['a', 'b', 'o', 2]), rng.choice([MISSING, MISSING, 'dflt', 0]))
            elif kk == 'kreq':
                key = ('kreq', rng.choice([str, int, object]))
            elif kk == 'kor':
                key = ('kor', rng.sample(['x', 'y', 'a', 7], 2))
            else:
                key = rng.choice([('ktuple', [('type', str), ('type', int)]), ('ktuple', [('lit', 'p'), ('lit', 1)])])
            ident = repr(key[:2])
            if ident in used:
                continue
            used.add(ident)
            entries.append((key, gen_pat(rng, depth - 1)))
        return ('dict', entries)
    if k == 'anddict':
        # every And child sees the TARGET (not the previous child's result): a dict pattern that fills in an Optional
        # default, followed by a stricter dict pattern that does not know that key
        name = rng.choice(['o', 'b'])
        first = ('dict', [(('klit', 'a'), ('type', int)), (('kopt', name, rng.choice(['dflt', 0, None])), ('type', object))])
        second = ('dict', [(('klit', 'a'), ('type', int))] + ([(('kreq', str), ('type', int))] if rng.random() < 0.3 else []))
        kids = [first, second] if rng.random() < 0.7 else [first, second, ('type', dict)]
        return ('and', kids)
    if k == 'and':
        return ('and', [gen_pat(rng, depth - 1) for _ in range(rng.randint(1, 3))])
    if k == 'or':
        return ('or', [gen_pat(rng, depth - 1) for _ in range(rng.randint(1, 3))])
    return ('not', gen_pat(rng, depth - 1))


def build(p):
    k = p[0]
    if k == 'lit':
        return p[1]
    if k == 'type':
        return p[1]
    if k == 'regex':
        pat, func, _, _ = REGEXES[p[1]]
        return Regex(pat, func=func) if func else Regex(pat)
    if k == 'pred':
        return PREDS[p[1]][0]
    if k == 'm':
        return {'==': lambda c: M == c, '!=': lambda c: M != c, '>': lambda c: M > c, '<': lambda c: M < c,
                '>=': lambda c: M >= c, '<=': lambda c: M <= c}[p[1]](p[2])
    if k == 'list':
        return [build(x) for x in p[1]]
    if k == 'set':
        return {build(x) for x in p[1]}
    if k == 'fset':
        return frozenset(build(x) for x in p[1])
    if k == 'tuple':
        return tuple(build(x) for x in p[1])
    if k == 'dict':
        return {build_key(kp): build(vp) for kp, vp in p[1]}
    if k == 'and':
        return And(*[build(x) for x in p[1]])
    if k == 'or':
        return Or(*[build(x) for x in p[1]])
    return Not(build(p[1]))


def build_key(kp):
    k = kp[0]
    if k == 'klit':
        return kp[1]
    if k == 'ktype':
        return kp[1]
    if k == 'kopt':
        return Optional(kp[1]) if kp[2] is MISSING else Optional(kp[1], default=kp[2])
    if k == 'kreq':
        return Required(kp[1])
    if k == 'kor':
        return Or(*kp[1])
    return tuple(build(x) for x in kp[1])


def describe(p):
    k = p[0]
    if k in ('lit',):
        return repr(p[1])
    if k == 'type':
        return p[1].__name__
    if k == 'regex':
        return 'Regex(%r)' % REGEXES[p[1]][0]
    if k == 'pred':
        return '<%s>' % p[1]
    if k == 'm':
        return 'M%s%r' % (p[1], p[2])
    if k in ('list', 'set', 'fset', 'tuple'):
        o, c = {'list': '[]', 'set': '{}', 'fset': ('frozenset(', ')'), 'tuple': '()'}[k]
        return o + ', '.join(describe(x) for x in p[1]) + c
    if k == 'dict':
        return '{' + ', '.join('%s: %s' % (describe_key(kp), describe(vp)) for kp, vp in p[1]) + '}'
    if k in ('and', 'or'):
        return '%s(%s)' % (k.capitalize(), ', '.join(describe(x) for x in p[1]))
    return 'Not(%s)' % describe(p[1])


def describe_key(kp):
    k = kp[0]
    if k == 'klit':
        return repr(kp[1])
    if k == 'ktype':
        return kp[1].__name__
    if k == 'kopt':
        return 'Optional(%r%s)' % (kp[1], '' if kp[2] is MISSING else ', default=%r' % (kp[2],))
    if k == 'kreq':
        return 'Required(%s)' % kp[1].__name__
    if k == 'kor':
        return 'Or(%s)' % ', '.join(map(repr, kp[1]))
    return '(' + ', '.join(describe(x) for x in kp[1]) + ')'


def shape(p):
    k = p[0]
    if k in ('lit', 'regex', 'pred', 'm'):
        return k
    if k == 'type':
        return 'type'
    if k in ('list', 'set', 'fset', 'tuple', 'and', 'or'):
        return (k,) + tuple(shape(x) for x in p[1])
    if k == 'dict':
        return ('dict',) + tuple((kp[0], shape(vp)) for kp, vp in p[1])
    return ('not', shape(p[1]))


def depth_of(p):
    k = p[0]
    if k in ('lit', 'type', 'regex', 'pred', 'm'):
        return 0
    if k == 'not':
        return 1 + depth_of(p[1])
    if k == 'dict':
        return 1 + max([depth_of(vp) for _, vp in p[1]] or [0])
    return 1 + max([depth_of(x) for x in p[1]] or [0])


# ---------------------------------------------------------------------------
# reference matcher

def ref_match(t, p, clean=True):
    """returns the matched value or raises Rej(kind, clean) / Incomparable"""
    k = p[0]
    if k == 'lit':
        if t != p[1]:
            raise Rej('value', clean)
        return t
    if k == 'type':
        if not isinstance(t, p[1]):
            raise Rej('type', clean)
        return t
    if k == 'regex':
        pat, func, _, _ = REGEXES[p[1]]
        if type(t) not in (str, bytes):
            raise Rej('value', clean)
        try:
            m = {None: re.fullmatch, re.search: re.search, re.match: re.match}[func](pat, t)
        except TypeError:
            raise Rej('value', clean)   # bytes target against a str pattern: reported as a mismatch? see note
        if not m:
            raise Rej('value', clean)
        return t
    if k == 'pred':
        try:
            ok = PREDS[p[1]][1](t)
        except Exception:
            raise Rej('value', clean)
        if not ok:
            raise Rej('value', clean)
        return t
    if k == 'm':
        try:
            ok = OPS[p[1]](t, p[2])
        except TypeError:
            raise Incomparable()
        if not ok:
            raise Rej('value', clean)
        return t
    if k in ('list', 'set', 'fset'):
        typ = {'list': list, 'set': set, 'fset': frozenset}[k]
        if not isinstance(t, typ):
            raise Rej('type', clean)
        out = []
        alts = p[1]
        for item in t:
            for alt in alts:
                try:
                    out.append(ref_match(item, alt, clean and len(alts) == 1))
                    break
                except Rej as r:
                    last = r
            else:
                if not alts:
                    raise Rej('value', clean)
                raise Rej(last.kind, last.clean and len(alts) == 1)
        return out if k == 'list' else typ(out)
    if k == 'tuple':
        if not isinstance(t, tuple):
            raise Rej('type', clean)
        if len(t) != len(p[1]):
            raise Rej('value', clean)
        return tuple(ref_match(x, sp, clean) for x, sp in zip(t, p[1]))
    if k == 'dict':
        if not isinstance(t, dict):
            raise Rej('type', clean)
        entries = p[1]
        required = set()
        for i, (kp, vp) in enumerate(entries):
            if kp[0] == 'klit' or kp[0] == 'kreq' or (kp[0] == 'ktuple' and all(x[0] == 'lit' for x in kp[1])):
                required.add(i)
        result = {}
        for key, val in t.items():
            for i, (kp, vp) in enumerate(entries):
                try:
                    mkey = ref_match_key(key, kp)
                except Rej:
                    continue
                result[mkey] = ref_match(val, vp, clean)
                required.discard(i)
                break
            else:
                raise Rej('value', clean)
        for kp, vp in entries:
            if kp[0] == 'kopt' and kp[2] is not MISSING and kp[1] not in result:
                result[kp[1]] = kp[2]
        if required:
            raise Rej('value', clean)
        return result
    if k == 'and':
        res = t
        for sp in p[1]:
            res = ref_match(t, sp, clean)
        return res
    if k == 'or':
        for sp in p[1][:-1]:
            try:
                return ref_match(t, sp, False)
            except Rej:
                pass
        return ref_match(t, p[1][-1], clean and len(p[1]) == 1)
    if k == 'not':
        try:
            ref_match(t, p[1], False)
        except Rej:
            return t
        raise Rej('value', clean)
    raise AssertionError(k)


def ref_match_key(key, kp):
    k = kp[0]
    if k in ('klit', 'kopt'):
        if key != kp[1]:
            raise Rej('value')
        return key
    if k in ('ktype', 'kreq'):
        if not isinstance(key, kp[1]):
            raise Rej('type')
        return key
    if k == 'kor':
        for alt in kp[1]:
            if key == alt:
                return key
        raise Rej('value')
    return ref_match(key, ('tuple', kp[1]))


# ---------------------------------------------------------------------------
# targets

class CannotSample(Exception):
    pass


def sample(p, rng, depth=0):
    k = p[0]
    if k == 'lit':
        return p[1]
    if k == 'type':
        return rng.choice(TYPE_SAMPLES[p[1]])
    if k == 'regex':
        return rng.choice(REGEXES[p[1]][2])
    if k == 'pred':
        return {'pos': 5, 'pos-obj': 2.5, 'short': 'ab', 'short-partial': [1], 'always': rng.choice([None, 'x', 3]),
                'inv': 2, 'nonzero': rng.choice([3, 'x']), 'keyed': 'a', 'nonzero-obj': 7}[p[1]]
    if k == 'm':
        op, c = p[1], p[2]
        return {'==': c, '!=': c + 1, '>': c + 2, '<': c - 1, '>=': c, '<=': c}[op]
    if k == 'list':
        if not p[1]:
            return []
        return [sample(rng.choice(p[1]), rng, depth + 1) for _ in range(rng.randint(0, 3))]
    if k in ('set', 'fset'):
        typ = set if k == 'set' else frozenset
        if not p[1]:
            return typ()
        out = []
        for _ in range(rng.randint(0, 3)):
            v = sample(rng.choice(p[1]), rng, depth + 1)
            try:
                hash(v)
                out.append(v)
            except TypeError:
                pass
        return typ(out)
    if k == 'tuple':
        return tuple(sample(x, rng, depth + 1) for x in p[1])
    if k == 'dict':
        out = {}
        for kp, vp in p[1]:
            kk = kp[0]
            if kk == 'klit':
                keys = [kp[1]]
            elif kk == 'kopt':
                keys = [kp[1]] if rng.random() < 0.5 else []
            elif kk in ('ktype', 'kreq'):
                pool = {str: ['s1', 's2', 'zz'], int: [11, 12], object: ['obj', 13, (1, 2)]}[kp[1]]
                n = rng.randint(1, 2) if kk == 'kreq' else rng.randint(0, 2)
                keys = rng.sample(pool, n)
            elif kk == 'kor':
                keys = [rng.choice(kp[1])] if rng.random() < 0.6 else []
            else:
                keys = [tuple(sample(x, rng, depth + 1) for x in kp[1])] if (rng.random() < 0.6 or all(x[0] == 'lit' for x in kp[1])) else []
            for key in keys:
                if key not in out:
                    out[key] = sample(vp, rng, depth + 1)
        return out
    if k == 'and':
        # take the sample of the most demanding child (heuristic; the reference decides anyway)
        order = sorted(p[1], key=lambda c: {'lit': 0, 'm': 1, 'regex': 1, 'pred': 2, 'type': 3}.get(c[0], 2))
        return sample(order[0], rng, depth + 1)
    if k == 'or':
        return sample(rng.choice(p[1]), rng, depth + 1)
    if k == 'not':
        return rng.choice(['zz-not', 987654, None, (), 2.25])
    raise AssertionError(k)


def mutations(t, rng):
    """[(edit kind, mutated copy)]: every kind of single edit at a random position"""
    import copy
    out = []
    paths = list(walk(t))
    rng.shuffle(paths)
    for path in paths[:4]:
        node = follow(t, path)
        edits = []
        if isinstance(node, dict):
            edits.append(('add-unexpected-key', lambda n: dict(n, zz_extra=1)))
            if node:
                key = rng.choice(list(node))
                edits.append(('drop-key', lambda n, key=key: {k: v for k, v in n.items() if k != key}))
            edits.append(('wrong-container', lambda n: list(n.items())))
        elif isinstance(node, list):
            edits.append(('add-element', lambda n: n + [object_of_odd_type()]))
            if any(_equal_twin(x) is not None for x in node):
                # an element EQUAL to an earlier one (same hash) but of another type: 1 -> 1.0, True -> 1, 2.0 -> 2, (1, 2) -> (1.0, 2)
                edits.append(('add-equal-element-of-other-type',
                              lambda n: n + [_equal_twin(next(x for x in n if _equal_twin(x) is not None))]))
                edits.append(('prepend-equal-element-of-other-type',
                              lambda n: [_equal_twin(next(x for x in n if _equal_twin(x) is not None))] + n))
            if node:
                edits.append(('drop-element', lambda n: n[:-1]))
            edits.append(('wrong-container', lambda n: tuple(n)))
        elif isinstance(node, tuple):
            edits.append(('tuple-longer', lambda n: n + ('extra',)))
            if node:
                edits.append(('tuple-shorter', lambda n: n[:-1]))
            edits.append(('wrong-container', lambda n: list(n)))
        elif isinstance(node, (set, frozenset)):
            edits.append(('add-element', lambda n: type(n)(list(n) + ['zz-odd'])))
            edits.append(('wrong-container', lambda n: list(n)))
        else:
            edits.append(('leaf-wrong-type', lambda n: WRONG.get(type(n), 'wrong')))
            edits.append(('leaf-other-value', lambda n: other_value(n)))
        for kind, fn in edits:
            c = copy.deepcopy(t)
            try:
                out.append((kind, replace(c, path, fn(follow(c, path)))))
            except TypeError:
                pass
    return out


def _equal_twin(x):
    if isinstance(x, bool):
        return int(x)
    if isinstance(x, int):
        return float(x) if abs(x) < 2 ** 50 else None
    if isinstance(x, float) and x == int(x):
        return int(x)
    if isinstance(x, tuple) and x and _equal_twin(x[0]) is not None and not isinstance(x[0], tuple):
        return (_equal_twin(x[0]),) + x[1:]
    return None


def object_of_odd_type():
    return 3 + 4j


def other_value(n):
    if isinstance(n, bool):
        return not n
    if isinstance(n, (int, float)):
        return -n - 1
    if isinstance(n, str):
        return n + '~'
    return 'other'


def walk(t, path=()):
    yield path
    if isinstance(t, dict):
        for k in t:
            yield from walk(t[k], path + (('d', k),))
    elif isinstance(t, (list, tuple)):
        for i, v in enumerate(t):
            yield from walk(v, path + (('i', i),))


def follow(t, path):
    for kind, k in path:
        t = t[k]
    return t


def replace(t, path, new):
    if not path:
        return new
    (kind, k), rest = path[0], path[1:]
    if isinstance(t, tuple):
        lst = list(t)
        lst[k] = replace(lst[k], rest, new)
        return tuple(lst)
    t[k] = replace(t[k], rest, new)
    return t


UNRELATED = [None, 0, 1, 'a', '', 2.5, [], [1, 'a'], (), (1,), {}, {'a': 1}, {'zz': {'a': [1]}}, {1, 2}, frozenset(), b'ab', True]


def judge(col, p, spec_desc, t, edit):
    pat = build(p)
    try:
        want = ('ok', ref_match(t, p))
    except Rej as r:
        want = ('rej', r)
    except Incomparable:
        col.count('skipped_incomparable')
        return
    verdict = want[0]
    col.case((shape(p), edit, verdict), depth_of(p) >= 2)
    col.count('conforming_targets' if verdict == 'ok' else 'rejected_targets')
    snap = snapshot(t)
    m = Match(pat)
    got = call(G, t, m)
    got_matches = call(m.matches, t)
    got_verify = call(m.verify, t)
    got_default = call(G, t, Match(pat, default=SENT))
    wit = {'pattern': spec_desc, 'target': short(t), 'edit': edit}
    if col.want_sample(verdict + ':' + (edit.split('-')[0])):
        col.sample({'pattern': spec_desc, 'target': short(t), 'edit': edit,
                    'reference': 'conforms' if verdict == 'ok' else 'rejects (%s rule)' % want[1].kind},
                   verdict + ':' + (edit.split('-')[0]))
    pk = p[0]
    if isinstance(got.exc, TypeError) and not isinstance(got.exc, GlomError) and not got.ok:
        pass
    if verdict == 'ok':
        exp = want[1]
        if not got.ok:
            col.violation('C09/conforming-target-rejected:' + pk, 'Match(%s) on %s: reference accepts, glom raised %r'
                          % (spec_desc, short(t), got.exc), wit)
        elif got.value != exp or not same_types(got.value, exp):
            col.violation('C09/wrong-matched-value:' + pk, 'Match(%s) on %s: expected %s, glom returned %s'
                          % (spec_desc, short(t), short(exp), short(got.value)), wit)
        if not (got_matches.ok and got_matches.value is True):
            col.violation('C09/matches-disagrees', 'Match(%s).matches(%s) = %r, reference accepts' % (spec_desc, short(t), got_matches), wit)
        if not got_verify.ok or (got.ok and got_verify.value != got.value):
            col.violation('C09/verify-disagrees', 'Match(%s).verify(%s) = %r, reference accepts' % (spec_desc, short(t), got_verify), wit)
        if not got_default.ok or got_default.value != exp:
            col.violation('C09/default-used-on-conforming-target', 'Match(%s, default=) on %s = %r' % (spec_desc, short(t), got_default), wit)
    else:
        r = want[1]
        if got.ok:
            col.violation('C09/non-conforming-target-accepted:' + pk, 'Match(%s) on %s (%s): reference rejects (%s rule), glom returned %s'
                          % (spec_desc, short(t), edit, r.kind, short(got.value)), wit)
        else:
            if not isinstance(got.exc, MatchError):
                col.violation('C09/rejection-not-MatchError:' + pk, 'Match(%s) on %s: raised %r' % (spec_desc, short(t), got.exc), wit)
            elif r.kind == 'type' and r.clean:
                col.count('type_rule_rejections')
                if not (isinstance(got.exc, TypeMatchError) and isinstance(got.exc, TypeError)):
                    col.violation('C09/type-rule-not-TypeMatchError:' + pk, 'Match(%s) on %s: a type rule failed, raised %r'
                                  % (spec_desc, short(t), got.exc), wit)
        if not (got_matches.ok and got_matches.value is False):
            col.violation('C09/matches-disagrees', 'Match(%s).matches(%s) = %r, reference rejects' % (spec_desc, short(t), got_matches), wit)
        if got_verify.ok:
            col.violation('C09/verify-disagrees', 'Match(%s).verify(%s) returned %r, reference rejects' % (spec_desc, short(t), got_verify.value), wit)
        if not (got_default.ok and got_default.value is SENT):
            col.violation('C09/default-not-returned', 'Match(%s, default=) on %s = %r' % (spec_desc, short(t), got_default), wit)
    # matches() and verify() are about the pattern: they agree with the outcome also on a Match object that carries a default= (which is
    # what glom() returns instead of raising)
    md = Match(pat, default=SENT)
    d_matches, d_verify = call(md.matches, t), call(md.verify, t)
    col.count('matches_and_verify_on_a_match_with_default')
    if not (d_matches.ok and d_matches.value is (verdict == 'ok')):
        col.violation('C09/matches-disagrees:on-a-Match-with-default', 'Match(%s, default=..).matches(%s) = %r, reference %s'
                      % (spec_desc, short(t), d_matches, 'accepts' if verdict == 'ok' else 'rejects'), wit)
    if verdict == 'ok' and not (d_verify.ok and got.ok and d_verify.value == got.value):
        col.violation('C09/verify-disagrees:on-a-Match-with-default', 'Match(%s, default=..).verify(%s) = %r, reference accepts' % (spec_desc, short(t), d_verify), wit)
    if verdict != 'ok' and (d_verify.ok or not isinstance(d_verify.exc, MatchError)):
        col.violation('C09/verify-disagrees:on-a-Match-with-default', 'Match(%s, default=..).verify(%s): %r, reference rejects (verify raises MatchError when the '
                      'target does not match)' % (spec_desc, short(t), d_verify), wit)
    if snapshot(t) != snap:
        col.violation('C09/target-modified', 'Match(%s) modified its target %s' % (spec_desc, short(t)), wit)
    col.count('snapshots_compared')


def same_types(a, b):
    if type(a) is not type(b):
        return False
    if isinstance(a, dict):
        return all(k in b and same_types(a[k], b[k]) for k in a)
    if isinstance(a, (list, tuple)):
        return len(a) == len(b) and all(same_types(x, y) for x, y in zip(a, b))
    return True


def one_pattern(col, rng, depth=None):
    p = gen_pat(rng, depth if depth is not None else rng.choice([0, 1, 1, 2, 2, 3]))
    desc = describe(p)
    for _ in range(2):
        try:
            t = sample(p, rng)
        except (CannotSample, KeyError, TypeError):
            break
        judge(col, p, desc, t, 'sampled')
        for kind, mt in mutations(t, rng):
            judge(col, p, desc, mt, kind)
    for t in rng.sample(UNRELATED, 3):
        judge(col, p, desc, t, 'unrelated')


def optional_defaults_and_compound_keys(col):
    """(1) "a value equal to the target plus Optional defaults": a default is evaluated like any argument - a container
    literal is built anew for every match (several rows of one call, several calls of one pattern, whatever the caller did to
    earlier results), a Val / T default yields its value.  (2) a tuple key whose non-constant members sit two levels deep is
    a pattern key like any other: optional unless Required, and Required / Optional accept or refuse it accordingly"""
    pat = Match({'id': int, Optional('tags', default=[]): list, Optional('meta', default={'n': []}): dict,
                 Optional('mode', default=Val('rw')): str, Optional('copy', default=T['id']): int})
    for n in (1, 2, 3):
        got = call(G, {'id': n}, pat)
        want = {'id': n, 'tags': [], 'meta': {'n': []}, 'mode': 'rw', 'copy': n}
        col.case(('optional-default-per-match', 'calls', n), True)
        col.count('conforming_targets')
        if not got.ok or got.value != want:
            col.violation('C09/optional-default-not-evaluated-per-match:call-%s' % ('first' if n == 1 else 'repeated'),
                          'call #%d of one Match object on {id: %d}: %r, expected %r' % (n, n, got, want), None)
            break
        got.value['tags'].append('urgent'); got.value['meta']['n'].append(1); got.value['meta']['x'] = 1
    rows = call(G, [{'id': 1}, {'id': 2}, {'id': 3, 'tags': ['own']}], Match([{'id': int, Optional('tags', default=[]): list}]))
    col.case(('optional-default-per-match', 'rows'), True)
    if not rows.ok or rows.value != [{'id': 1, 'tags': []}, {'id': 2, 'tags': []}, {'id': 3, 'tags': ['own']}] or \
            rows.value[0]['tags'] is rows.value[1]['tags']:
        col.violation('C09/optional-default-not-evaluated-per-match:rows', 'rows of one call: %r (first two tags lists the same object: %s)'
                      % (rows, rows.ok and rows.value[0]['tags'] is rows.value[1]['tags']), None)
    # (2)
    for key, kdesc in ((((int, int), 'seg'), "((int, int), 'seg')"), (((M > 0, 1), 'x'), "((M > 0, 1), 'x')"),
                       ((frozenset({int}), 'x'), "(frozenset({int}), 'x')")):
        pattern = {'name': str, key: float}
        for target, conforms in (({'name': 'p'}, True), ({'name': 'p', ((1, 2), 'seg') if key[1] == 'seg' else ((1, 1), 'x') if isinstance(key[0], tuple) else (frozenset({3}), 'x'): 1.5}, True),
                                 ({'name': 'p', ((1, 2), 'other'): 1.5}, False)):
            got = call(G, target, Match(pattern))
            col.case(('compound-key-depth-2', kdesc, conforms, len(target)), True)
            col.count('conforming_targets' if conforms else 'rejected_targets')
            if got.ok != conforms or (got.ok and got.value != target):
                col.violation('C09/nested-compound-key-%s' % ('conforming-target-rejected' if conforms else 'accepted'),
                              'Match({name: str, %s: float}) on %r: %r' % (kdesc, target, got), None)
        pass
    # (2') Not(M op c) conforms exactly when the comparison is false - also for values that are only partially ordered
    nan = float('nan')
    for desc, pat, target in (('~(M > frozenset({1})) on frozenset({2})', ~(M > frozenset({1})), frozenset({2})),
                              ('Not(M >= frozenset({1, 2})) on frozenset({3})', Not(M >= frozenset({1, 2})), frozenset({3})),
                              ('~(M > 0) on nan', ~(M > 0), nan), ('~(M <= 0) on nan', ~(M <= 0), nan),
                              ("[~(M < frozenset({1}))] on [frozenset({2})]", [~(M < frozenset({1}))], [frozenset({2})])):
        got = call(G, target, Match(pat))
        col.case(('not-over-partial-order', desc), True)
        col.count('conforming_targets')
        if not got.ok or (got.value is not target and got.value != target):
            col.violation('C09/negated-comparison-of-incomparable-values', 'Match(%s): %r, the comparison is false so its negation conforms' % (desc, got), None)
    # (3) an Optional key is an EQUALITY key, whatever the constant looks like: a frozenset / tuple-with-frozenset constant is not
    # matched element-wise
    for const, near_misses in ((frozenset({'a', 'b'}), [frozenset({'a'}), frozenset()]), ((1, frozenset({2, 3})), [(1, frozenset({2})), (1, frozenset())])):
        for dflt in (MISSING, 'dflt'):
            okey = Optional(const) if dflt is MISSING else Optional(const, default=dflt)
            pattern = {'name': str, okey: int}
            cases = [({'name': 'p', const: 5}, True, {'name': 'p', const: 5}),
                     ({'name': 'p'}, True, {'name': 'p'} if dflt is MISSING else {'name': 'p', const: dflt})]
            cases += [({'name': 'p', nm: 5}, False, None) for nm in near_misses]
            for target, conforms, want in cases:
                got = call(G, target, Match(pattern))
                col.case(('optional-constant-key', short(const), dflt is not MISSING, conforms, len(target)), True)
                col.count('conforming_targets' if conforms else 'rejected_targets')
                if got.ok != conforms or (got.ok and got.value != want) or (not got.ok and not isinstance(got.exc, MatchError)):
                    col.violation('C09/optional-constant-key-%s' % ('conforming-target-rejected' if conforms else 'near-miss-accepted'),
                                  'Match({name: str, Optional(%s%s): int}) on %r: %r, expected %s'
                                  % (short(const), '' if dflt is MISSING else ', default=..', target, got, want if conforms else 'a MatchError'), None)
    for key, kdesc in ((((int, int), 'seg'), "((int, int), 'seg')"), (((M > 0, 1), 'x'), "((M > 0, 1), 'x')"),
                       ((frozenset({int}), 'x'), "(frozenset({int}), 'x')")):
        req, opt = call(Required, key), call(Optional, key)
        if not req.ok or opt.ok:
            col.violation('C09/nested-compound-key-required-optional', 'Required(%s) -> %r, Optional(%s) -> %r (a key with non-constant members is a '
                          'pattern key: Required accepts it, Optional refuses it)' % (kdesc, req, kdesc, opt), None)


def repeated_dict_pattern(col, rng):
    """ONE dict pattern object matched against several dicts within one Match run (list elements, dict values, nested rows):
    each of them must satisfy the pattern on its own - a required key missing from any single row is a rejection"""
    import copy
    for _ in range(12):
        row = ('dict', [(('klit', 'id'), ('type', int)), (('klit', 'name'), ('type', str)),
                        (('kopt', 'tag', rng.choice([MISSING, 'dflt'])), ('type', str)), (('kreq', int), ('type', object))][:rng.randint(2, 4)])
        full = lambda: {'id': 1, 'name': 'n', 7: 'extra'} if len(row[1]) >= 4 else {'id': 1, 'name': 'n'}[:0] if False else \
            dict([('id', 1), ('name', 'n')][:min(len(row[1]), 2)] + ([(7, 'x')] if len(row[1]) >= 4 else []))
        shapes = [('list', ('list', [row]), lambda rows: list(rows)),
                  ('dict-values', ('dict', [(('ktype', str), row)]), lambda rows: {'r%d' % i: r for i, r in enumerate(rows)}),
                  ('nested', ('list', [('dict', [(('klit', 'rows'), ('list', [row]))])]), lambda rows: [{'rows': list(rows)}, {'rows': list(rows)}])]
        for sname, pat, wrap in shapes:
            n = rng.randint(2, 4)
            for victim in range(n):
                for key in list(full()):
                    rows = [full() for _ in range(n)]
                    del rows[victim][key]
                    judge(col, pat, describe(pat), wrap(rows), 'row-%s-lacks-a-key' % ('first' if victim == 0 else 'later'))
            judge(col, pat, describe(pat), wrap([full() for _ in range(n)]), 'all-rows-conform')


def the_pattern_object_as_target(col):
    """the rules decide by what the target IS (isinstance for types, the call for callables, == for everything else) - also when the
    target, or a leaf of it, happens to be the very object the pattern holds at that place"""
    nan = float('nan')

    class NeverEqual:
        def __eq__(self, other):
            return False
        __hash__ = object.__hash__

    ne = NeverEqual()
    plist, pdict, ptup = [int], {'k': int}, (int, str)
    cases = [
        ('type as its own target', int, int, False), ('type object under object', object, object, True), ('type matches type', type, type, True),
        ('str type as target', str, str, False), ('predicate as its own target', len, len, False), ('predicate accepting callables', callable, callable, True),
        ('lambda rejecting everything', nonzero, nonzero, True),
        ('nan is not equal to itself', nan, nan, False), ('nan in a list', [nan], [nan], False), ('nan as dict value', {'k': nan}, {'k': nan}, False),
        ('never-equal object', ne, ne, False), ('never-equal object in a tuple', (1, ne), (1, ne), False),
        ('list pattern as its own target', plist, plist, False), ('dict pattern as its own target', pdict, pdict, False),
        ('tuple pattern as its own target', ptup, ptup, False), ('the type inside Or', Or(str, int), int, False),
        ('the type inside And', And(object, int), int, False), ('type as dict value', {'t': int}, {'t': int}, False),
        ('equal constants stay accepted', 'abc', 'abc', True), ('same list of constants', [1, 'a'], [1, 'a'], None),
    ]
    for desc, pat, target, want in cases:
        if want is None:
            # ([1, 'a'] as a pattern means "items equal to 1 or to 'a'")
            want = True
        m = Match(pat)
        outcomes = {'glom': call(G, target, m), 'matches': call(m.matches, target), 'verify': call(m.verify, target),
                    'default': call(G, target, Match(pat, default=SENT))}
        col.case(('pattern-object-as-target', desc), True)
        col.count('conforming_targets' if want else 'rejected_targets')
        if want:
            ok = outcomes['glom'].ok and outcomes['matches'].ok and outcomes['matches'].value is True and outcomes['verify'].ok and \
                outcomes['default'].ok and outcomes['default'].value is not SENT
        else:
            ok = (not outcomes['glom'].ok) and isinstance(outcomes['glom'].exc, MatchError) and outcomes['matches'].ok and outcomes['matches'].value is False and \
                (not outcomes['verify'].ok) and outcomes['default'].ok and outcomes['default'].value is SENT
        if not ok:
            col.violation('C09/target-that-is-the-pattern-object-itself:' + ('rejected-though-conforming' if want else 'accepted-though-not-conforming'),
                          '%s: Match(%s) on the same object: %s; it %s' % (desc, short(repr(pat), 80), {k: repr(v)[:80] for k, v in outcomes.items()},
                                                                        'conforms' if want else 'does not conform (not an instance of itself / the call is falsy / not == itself)'), None)


def run(ctx):
    col, rng = ctx.col, ctx.rng
    col.require('conforming_targets', 300)
    col.require('rejected_targets', 300)
    col.require('type_rule_rejections', 20)
    col.require('snapshots_compared', 500)
    if ctx.shard == 0:
        repeated_dict_pattern(col, rng)
        optional_defaults_and_compound_keys(col)
        the_pattern_object_as_target(col)
    for i in range(ctx.n(1200, 15000)):
        one_pattern(col, rng)
