"""C07 - scope bindings are lexically scoped, chain forward, never outlive the call.

Oracle: an environment-passing model (`Model`): every sub-evaluation gets a fresh frame,
a binder writes into the frame of its own evaluation, in a tuple / Pipe step n+1 is a
child of step n's frame, dict values / list elements / Coalesce-Or-And children are
siblings, a Switch or Match-dict value is a child of the passing key's frame,
Spec(scope=) overrides for its subtree, S.globals and Vars objects are per call.
Every binder binds a unique value, so a value seen by a reader identifies its write.
Monitor: EvalTracer - for every spec object of the generated tree the frame it was
evaluated in is inspected at exit: the reader's result and the complete set of
user-visible bindings must equal the model's at that node (thousands of observation
points beyond the explicit readers).
"""
from .. import env
from ..util import call
from ..report import short
from ..snapshot import snapshot
from ..monitors import EvalTracer

glom = env.bind()
import glom.core as gcore  # noqa: E402
from glom import (T, S, A, M, Val, Spec, Pipe, Coalesce, And, Or, Switch, Match, Vars, Ref, Auto, Regex, GlomError, Required, Path, Glommer,  # noqa: E402
                  glom as G)

META = {
    'level': 'exploration',
    'rule': ('spec trees (depth <= 4) over tuple, Pipe, dict, list (2-element target), Coalesce (branches failing or succeeding), And, '
             'Or, Switch (binder as key spec), Match-dict (binder as key spec, directly and inside And), Spec(scope=), Ref recursion; '
             'binders S(k=Val(u)), S(k=<reader>), A.k, A.globals.k, S(v=Vars()) + A.v.attr, Regex named groups; readers S.k, '
             "S['k'], S.globals.k, S.v.attr wrapped so absence yields ABSENT; names from {x, y, z}, every binder value unique; "
             'each spec object evaluated twice in a row and with a snapshotted caller scope. Non-trivial: >= 1 binder and >= 1 '
             'reader; distinct by (container kinds on the tree, binder kinds, reader kinds).'),
    'assumptions': [
        'what later chain steps see after a Spec(.., scope=..) or Ref(name, spec) step is left open by the statement: no reader there',
        'bindings made inside an And child are invisible outside that child (so And(str, A.k) as a Match-dict key does not pass k on)',
    ],
}

ABSENT = 'ABSENT'
NAMES = ['x', 'y', 'z']


class MFrame:
    __slots__ = ('vars', 'parent', 'last_child')

    def __init__(self, parent):
        self.vars, self.parent, self.last_child = {}, parent, None
        if parent is not None:
            parent.last_child = self

    def lookup(self, name):
        f = self
        while f is not None:
            if name in f.vars:
                return f.vars[name]
            f = f.parent
        raise KeyError(name)

    def visible(self):
        out = {}
        chain = []
        f = self
        while f is not None:
            chain.append(f)
            f = f.parent
        for f in reversed(chain):
            out.update(f.vars)
        return out


class MVars:
    def __init__(self):
        self.attrs = {}


class Fail(Exception):
    pass


class Node:
    def __init__(self, kind, spec=None, **kw):
        self.kind, self.spec = kind, spec
        self.__dict__.update(kw)


class TreeGen:
    def __init__(self, rng):
        self.rng = rng
        self.n = 0
        self.kinds = set()

    def uval(self):
        self.n += 1
        return 'u%d' % self.n

    def reader(self):
        rng = self.rng
        style = rng.choice(['S.k', "S['k']", 'globals', 'vars'])
        name = rng.choice(NAMES)
        self.kinds.add('read:' + style)
        if style == 'S.k':
            t = getattr(S, name)
        elif style == "S['k']":
            t = S[name]
        elif style == 'globals':
            t = getattr(S.globals, name)
        else:
            t = getattr(S.v, name)
        return Node('read', Coalesce(t, default=ABSENT), style=style, name=name)

    def binder(self):
        rng = self.rng
        k = rng.choice(['S', 'S', 'S-from', 'S-multi', 'A', 'A.globals', 'vars-new', 'vars-set', 'S-inner'])
        name = rng.choice(NAMES)
        self.kinds.add('bind:' + k)
        if k == 'S-multi':
            # one S() step with two keywords, the second reading a name (mostly the one the first keyword binds): all values
            # are evaluated in the scope as it was BEFORE the step, then bound together
            other = rng.choice([n for n in NAMES if n != name])
            src = name if rng.random() < 0.7 else rng.choice(NAMES)
            u = self.uval()
            spec = S(**{name: Val(u), other: Coalesce(getattr(S, src), default=ABSENT)})
            return Node('bind_S_multi', spec, name=name, value=u, other=other, src=src)
        if k == 'S-inner':
            # a binder written directly as the VALUE of an S() keyword: the value is evaluated like any argument, in a frame of its
            # own, so what it binds is gone when the step ends; only the keyword itself is bound (to the binder's result, the target)
            inner = rng.choice([n for n in NAMES if n != name])
            form = rng.choice(['A', 'S', 'A+reader'])
            if form == 'A':
                spec = S(**{name: getattr(A, inner)})
            elif form == 'S':
                spec = S(**{name: S(**{inner: Val(self.uval())})})
            else:
                third = rng.choice([n for n in NAMES if n not in (name, inner)])
                spec = S(**{name: getattr(A, inner), third: Coalesce(getattr(S, inner), default=ABSENT)})
                return Node('bind_S_inner', spec, name=name, third=third, inner=inner)
            return Node('bind_S_inner', spec, name=name, third=None, inner=inner)
        if k == 'S':
            # (a tenth of the bound values are None: a binding to None is a binding)
            u = self.uval() if rng.random() > 0.1 else None
            return Node('bind_S', S(**{name: Val(u)}), name=name, value=u)
        if k == 'S-from':
            src = rng.choice(NAMES)
            return Node('bind_S_from', S(**{name: Coalesce(getattr(S, src), default=ABSENT)}), name=name, src=src)
        if k == 'A':
            # (every spelling of "bind the target to this name": attribute, item, Path segment)
            spelling = rng.choice([lambda: getattr(A, name), lambda: getattr(A, name), lambda: A[name], lambda: Path(A, name), lambda: Path(Path(A), name),
                                   lambda: Path(getattr(A, name))])
            return Node('bind_A', spelling(), name=name)
        if k == 'A.globals':
            return Node('bind_G', getattr(A.globals, name), name=name)
        if k == 'vars-new':
            return Node('vars_new', S(v=Vars()))
        return Node('vars_set', Coalesce(getattr(A.v, name), default=ABSENT), name=name)

    def leaf(self):
        r = self.rng.random()
        if r < 0.07:
            # an identity step: it hands its target on and binds nothing, whichever way it is written
            self.kinds.add('identity-step')
            return Node('pass', self.rng.choice([T, T, Path(), Spec(T), Auto(T), Pipe(T)]))
        if r < 0.45:
            return self.reader()
        if r < 0.9:
            return self.binder()
        u = self.uval()
        return Node('val', Val(u), value=u)

    def gen(self, depth, in_match=False):
        rng = self.rng
        if depth <= 0:
            return self.leaf()
        c = rng.choice(['tuple', 'tuple', 'pipe', 'dict', 'list', 'coalesce', 'and', 'or', 'switch', 'matchdict', 'specscope', 'leaf', 'setval'])
        self.kinds.add(c)
        if c == 'leaf':
            return self.leaf()
        if c == 'setval':
            u = self.uval()
            return Node('val', Val(u), value=u)
        if c in ('tuple', 'pipe'):
            kids = [self.gen(depth - 1) for _ in range(rng.randint(2, 4))]
            specs = [k.spec for k in kids]
            return Node('chain', tuple(specs) if c == 'tuple' else Pipe(*specs), kids=kids)
        if c == 'dict':
            kids = [('k%d' % i, self.gen(depth - 1)) for i in range(rng.randint(2, 3))]
            return Node('dict', {k: n.spec for k, n in kids}, kids=kids)
        if c == 'list':
            kid = self.gen(depth - 1)
            # the list spec needs an iterable target: feed it a 2-element list
            inner = Node('list', [kid.spec], kid=kid)
            u1, u2 = self.uval(), self.uval()
            setter = Node('val', Val([u1, u2]), value=[u1, u2])
            return Node('chain', Pipe(setter.spec, inner.spec), kids=[setter, inner])
        if c in ('coalesce', 'and', 'or'):
            kids = []
            for _ in range(rng.randint(2, 3)):
                k = self.gen(depth - 1)
                if rng.random() < 0.4:
                    # make this branch fail after its bindings were made
                    failing = Node('fail', T['zz_missing'])
                    k = Node('chain', Pipe(k.spec, failing.spec), kids=[k, failing])
                kids.append(k)
            specs = [k.spec for k in kids]
            if c == 'coalesce':
                return Node('coalesce', Coalesce(*specs, default='COALESCE-DEFAULT'), kids=kids)
            if c == 'and':
                return Node('and', And(*specs, default='AND-DEFAULT'), kids=kids)
            return Node('or', Or(*specs, default='OR-DEFAULT'), kids=kids)
        if c == 'switch':
            cases = []
            for _ in range(rng.randint(1, 3)):
                key = self.gen(depth - 1) if rng.random() < 0.5 else self.binder()
                if rng.random() < 0.35:
                    failing = Node('fail', T['zz_missing'])
                    key = Node('chain', Pipe(key.spec, failing.spec), kids=[key, failing])
                val = self.gen(depth - 1)
                cases.append((key, val))
            return Node('switch', Switch([(k.spec, v.spec) for k, v in cases], default='SWITCH-DEFAULT'), cases=cases)
        if c == 'matchdict':
            form = rng.choice(['direct', 'direct', 'and', 'regex', 'required'])
            if form == 'regex':
                name = rng.choice(NAMES)
                key = Node('bind_regex', Regex('(?P<%s>o)nly' % name), name=name)
            else:
                key = self.binder()
                while key.kind in ('vars_set',) or type(key.spec) is Path:      # (a Path object is not hashable: it cannot be a dict key)
                    key = self.binder()
                if form == 'and':
                    key = Node('and', And(str, key.spec), kids=[Node('pass', str), key])
            val = self.gen(depth - 1)
            # (the value spec is wrapped in Auto: plain containers would be patterns in match mode)
            # (Required(key) is the key itself as far as bindings go: it only adds "must have matched at least once")
            key_spec = Required(key.spec) if form == 'required' else key.spec
            inner = Node('matchdict', Match({key_spec: Auto(val.spec)}), key=key, val=val)
            u = self.uval()
            setter = Node('val', Val({'only': u}), value={'only': u})
            return Node('chain', Pipe(setter.spec, inner.spec), kids=[setter, inner])
        if c == 'specscope':
            name = rng.choice(NAMES)
            u = self.uval()
            kid = self.gen(depth - 1)
            return Node('specscope', Spec(kid.spec, scope={name: u}), kid=kid, name=name, value=u)
        raise AssertionError(c)


class Model:
    """runs the tree; records, per node object, the sequence of (result, visible bindings at exit)"""
    def __init__(self, caller_scope):
        self.obs = {}
        self.root = MFrame(None)
        self.root.vars.update(caller_scope)
        self.globals = MVars()

    def run(self, node, target):
        return self.ev(node, target, self.root)

    def ev(self, node, target, parent):
        F = MFrame(parent)
        try:
            res = self._ev(node, target, F)
        except Fail:
            self.obs.setdefault(id(node), []).append(('raise', None, dict(F.visible())))
            raise
        self.obs.setdefault(id(node), []).append(('value', res, dict(F.visible())))
        return res

    def _ev(self, node, target, F):
        k = node.kind
        if k == 'read':
            try:
                if node.style in ('S.k', "S['k']"):
                    return F.lookup(node.name)
                if node.style == 'globals':
                    return self.globals.attrs[node.name]
                v = F.lookup('v')
                if not isinstance(v, MVars):
                    return ABSENT
                return v.attrs[node.name]
            except KeyError:
                return ABSENT
        if k == 'bind_S':
            F.vars[node.name] = node.value
            return target
        if k == 'bind_S_from':
            try:
                F.vars[node.name] = F.lookup(node.src)
            except KeyError:
                F.vars[node.name] = ABSENT
            return target
        if k == 'bind_S_multi':
            try:
                seen = F.lookup(node.src)
            except KeyError:
                seen = ABSENT
            F.vars[node.name] = node.value
            F.vars[node.other] = seen
            return target
        if k == 'bind_A':
            F.vars[node.name] = target
            return target
        if k == 'bind_S_inner':
            if node.third is not None:
                try:
                    seen = F.lookup(node.inner)      # (the sibling keyword reads the scope as it was before the step)
                except KeyError:
                    seen = ABSENT
                F.vars[node.third] = seen
            F.vars[node.name] = target
            return target
        if k == 'bind_G':
            self.globals.attrs[node.name] = target
            return target
        if k == 'bind_regex':
            F.vars[node.name] = 'o'
            return target
        if k == 'vars_new':
            F.vars['v'] = MVars()
            return target
        if k == 'vars_set':
            try:
                v = F.lookup('v')
            except KeyError:
                return ABSENT
            if not isinstance(v, MVars):
                return ABSENT      # setattr on a plain value fails -> Coalesce default
            v.attrs[node.name] = target
            return target
        if k == 'val':
            return node.value
        if k == 'pass':
            return target
        if k == 'fail':
            raise Fail()
        if k == 'chain':
            res = target
            parent = F
            for kid in node.kids:
                res = self.ev(kid, res, parent)
                parent = parent.last_child
            return res
        if k == 'dict':
            return {key: self.ev(kid, target, F) for key, kid in node.kids}
        if k == 'list':
            return [self.ev(node.kid, item, F) for item in target]
        if k == 'coalesce':
            for kid in node.kids:
                try:
                    return self.ev(kid, target, F)
                except Fail:
                    continue
            return 'COALESCE-DEFAULT'
        if k == 'and':
            res = target
            try:
                for kid in node.kids:
                    res = self.ev(kid, target, F)
            except Fail:
                if node.spec.default is not gcore._MISSING and not _is_missing(node.spec.default):
                    return 'AND-DEFAULT'
                raise
            return res
        if k == 'or':
            for kid in node.kids:
                try:
                    return self.ev(kid, target, F)
                except Fail:
                    continue
            return 'OR-DEFAULT'
        if k == 'switch':
            for key, val in node.cases:
                try:
                    self.ev(key, target, F)
                except Fail:
                    continue
                return self.ev(val, target, F.last_child)
            return 'SWITCH-DEFAULT'
        if k == 'matchdict':
            M_ = MFrame(F)        # Match(...) evaluates its dict spec in a frame of its own
            out = {}
            for tk, tv in target.items():
                self.ev(node.key, tk, M_)
                out[tk] = self.ev(node.val, tv, MFrame(M_.last_child))    # (frame of the Auto wrapper)
            return out
        if k == 'specscope':
            F.vars[node.name] = node.value
            return self.ev(node.kid, target, F)
        raise AssertionError(k)


def _is_missing(v):
    return type(v).__name__ == 'Sentinel' and 'MISSING' in repr(v)


def canon(v, sv_map=None):
    """ScopeVars objects -> their attribute dict, so model and glom values compare"""
    if isinstance(v, gcore.ScopeVars):
        return ('VARS', tuple(sorted((k, canon(x)) for k, x in v.__dict__.items())))
    if isinstance(v, MVars):
        return ('VARS', tuple(sorted((k, canon(x)) for k, x in v.attrs.items())))
    if isinstance(v, dict):
        return ('dict', tuple((k, canon(x)) for k, x in v.items()))
    if isinstance(v, (list, tuple)):
        return (type(v).__name__,) + tuple(canon(x) for x in v)
    return v


def collect_nodes(node, out, by_id=None):
    if by_id is not None:
        by_id[id(node)] = node
    if node.kind != 'pass':
        out[id(node.spec)] = node
    for attr in ('kids',):
        for kid in getattr(node, attr, []) or []:
            collect_nodes(kid[1] if isinstance(kid, tuple) else kid, out, by_id)
    for attr in ('kid', 'key', 'val'):
        if hasattr(node, attr):
            collect_nodes(getattr(node, attr), out, by_id)
    for key, val in getattr(node, 'cases', []) or []:
        collect_nodes(key, out, by_id)
        collect_nodes(val, out, by_id)


def one_case(col, rng, tracer):
    tg = TreeGen(rng)
    root = tg.gen(rng.randint(1, 4))
    nodes, by_id = {}, {}
    collect_nodes(root, nodes, by_id)
    n_bind = sum(1 for n in nodes.values() if n.kind.startswith('bind') or n.kind.startswith('vars'))
    n_read = sum(1 for n in nodes.values() if n.kind == 'read')
    caller_scope = {'x': 'caller-x'} if rng.random() < 0.5 else {}
    if rng.random() < 0.3:
        caller_scope['z'] = 'caller-z'
    col.case(tuple(sorted(tg.kinds)), n_bind >= 1 and n_read >= 1)
    spec = root.spec
    desc = short(spec, 500)
    for round_ in range(2):          # the same spec object twice: nothing may outlive the call
        scope_arg = dict(caller_scope)
        snap = snapshot(scope_arg)
        model = Model(caller_scope)
        try:
            want = ('value', model.run(root, 'ROOT-TARGET'))
        except Fail:
            want = ('raise', None)
        observed = {}

        def on_exit(f, parent_scope, observed=observed):
            node = nodes.get(id(f.spec))
            if node is None or node.spec is not f.spec:
                return
            fs = parent_scope.maps[0].get(gcore.LAST_CHILD_SCOPE)
            vis = {}
            if fs is not None:
                for key in fs:
                    if isinstance(key, str) and key != 'globals':
                        vis[key] = fs[key]
            observed.setdefault(id(node), []).append((f.outcome, f.result if f.outcome == 'value' else None, vis))
        tracer.on_exit = on_exit
        tracer.reset()
        got = call(G, 'ROOT-TARGET', spec, scope=scope_arg)
        tracer.on_exit = None
        col.count('evaluations')
        wit = {'spec': desc, 'caller_scope': caller_scope, 'round': round_ + 1}
        if snapshot(scope_arg) != snap:
            col.violation('C07/caller-scope-modified', 'glom(.., %s, scope=%r) changed the caller\'s dict to %r' % (desc, caller_scope, scope_arg), wit)
            return
        if want[0] == 'value':
            if not got.ok or canon(got.value) != canon(want[1]):
                col.violation('C07/result-differs%s' % (':second-call' if round_ else ''),
                              'glom(.., %s, scope=%r) = %r ; model %s' % (desc, caller_scope, got, short(want[1])), wit)
                return
        elif got.ok or not isinstance(got.exc, GlomError):
            col.violation('C07/failure-expected', '%s: model fails, glom %r' % (desc, got), wit)
            return
        # per-node observations
        for nid, seq in model.obs.items():
            node = by_id[nid]
            got_seq = observed.get(nid, [])
            if node.kind in ('pass',):
                continue
            if len(got_seq) != len(seq):
                col.violation('C07/evaluation-count:%s' % node.kind, '%s: node %s evaluated %d times, model %d'
                              % (desc, short(node.spec, 80), len(got_seq), len(seq)), wit)
                return
            for (o1, r1, v1), (o2, r2, v2) in zip(seq, got_seq):
                col.count('frame_observations')
                if node.kind == 'read':
                    col.count('reader_observations')
                    if o2 != 'value' or canon(r2) != canon(r1):
                        rel = 'leak' if r1 == ABSENT else ('missing' if r2 == ABSENT else 'wrong-binding')
                        col.violation('C07/reader-sees-%s:%s%s' % (rel, node.style, ':second-call' if round_ else ''),
                                      '%s: reader %s (call #%d) returned %r, lexical scoping gives %r'
                                      % (desc, short(node.spec, 60), round_ + 1, r2, r1), wit)
                        return
                cv1 = {k: canon(v) for k, v in v1.items()}
                cv2 = {k: canon(v) for k, v in v2.items()}
                if cv1 != cv2:
                    extra = sorted(set(cv2) - set(cv1))
                    lost = sorted(set(cv1) - set(cv2))
                    diff = [k for k in cv1 if k in cv2 and cv1[k] != cv2[k]]
                    what = 'extra-binding-visible' if extra else 'binding-not-visible' if lost else 'wrong-binding-visible'
                    col.violation('C07/%s:at-%s%s' % (what, node.kind, ':second-call' if round_ else ''),
                                  '%s: at node %s the frame sees %s ; lexical scoping gives %s (extra %s, lost %s, different %s)'
                                  % (desc, short(node.spec, 80), short(cv2), short(cv1), extra, lost, diff), wit)
                    return
    if col.want_sample('tree'):
        col.sample({'spec': desc, 'caller_scope': caller_scope, 'binders': n_bind, 'readers': n_read,
                    'result': short(want[1]) if want[0] == 'value' else 'raises'}, 'tree')


def systematic(col, rng, tracer):
    """for each container kind: every (binder position, reader position) pair, 3 positions"""
    def reader():
        return Coalesce(S.x, default=ABSENT)
    cases = []
    for b in range(3):
        for r in range(3):
            if b == r:
                continue
            for kind in ('tuple', 'pipe', 'dict', 'coalesce', 'and'):
                items = [Val('pad0'), Val('pad1'), Val('pad2')]
                items[b] = S(x=Val('BOUND'))
                rd = reader()
                items[r] = rd
                if kind == 'tuple':
                    spec, expect = tuple(items), ('BOUND' if r > b else ABSENT)
                elif kind == 'pipe':
                    spec, expect = Pipe(*items), ('BOUND' if r > b else ABSENT)
                elif kind == 'dict':
                    spec, expect = {'k0': items[0], 'k1': items[1], 'k2': items[2]}, ABSENT
                elif kind == 'coalesce':
                    spec, expect = Coalesce(*[Pipe(i, T['zz_missing']) if i is not rd else i for i in items], default='D'), ABSENT
                else:
                    spec, expect = And(*items), ABSENT
                cases.append((kind, b, r, spec, rd, expect))
    for kind, b, r, spec, rd, expect in cases:
        seen = []
        tracer.on_exit = lambda f, ps, seen=seen, rd=rd: seen.append(f.result) if f.spec is rd and f.outcome == 'value' else None
        tracer.reset()
        got = call(G, 'T', spec)
        tracer.on_exit = None
        col.case(('systematic', kind, b, r), True)
        col.count('reader_observations')
        if seen != [expect]:
            col.violation('C07/systematic:%s:binder-%s-reader' % (kind, 'before' if b < r else 'after'),
                          '%s with binder at %d and reader at %d: reader saw %r, expected %r (%r)' % (kind, b, r, seen, expect, got), None)
    # enclosing spec never sees an inner binding; next call never sees globals / Vars of the previous one
    spec = ((S(x=Val('inner')), Val(1)), Coalesce(S.x, default=ABSENT))
    got = call(G, 0, spec)
    if not got.ok or got.value != ABSENT:
        col.violation('C07/systematic:inner-binding-visible-to-enclosing', '%r -> %r' % (spec, got), None)
    # a binding whose value is None is a binding, for every reader style and every way of binding
    for bdesc, binder, target, scope_kw in (('S(k=Val(None))', S(k=Val(None)), 'T', {}), ('A.k on a None target', 'A', 'T', {}),
                                            ('scope={k: None}', T, 'T', {'scope': {'k': None}}),
                                            ('Spec(scope={k: None})', None, 'T', {})):
        for rdesc, rd in (('S.k', S.k), ("S['k']", S['k']), ('Path(S, k)', gcore.Path(S, 'k'))):
            reader = Coalesce(rd, default=ABSENT)
            if binder is None:
                spec = Spec(reader, scope={'k': None})
            elif binder == 'A':
                spec = (S(k=Val('OUTER')), Val(None), A.k, reader)     # (the same chain: A.k binds for the later steps)
            elif scope_kw:
                spec = (binder, reader)           # (k comes from scope=: nothing in the spec may shadow it)
            else:
                spec = (S(k=Val('OUTER')), binder, reader)
            got = call(G, target, spec, **scope_kw)
            col.case(('none-binding', bdesc, rdesc), True)
            col.count('reader_observations')
            if not got.ok or got.value is not None:
                col.violation('C07/binding-to-None-not-visible:%s' % rdesc, '%s then reader %s: %r, expected None' % (bdesc, rdesc, got), None)
    spec = (Coalesce(S.globals.g, default=ABSENT), A.globals.g)
    first, second = call(G, 5, (spec[1], spec[0])), call(G, 6, spec[0])
    col.count('reader_observations', 2)
    if not (first.ok and first.value == 5 and second.ok and second.value == ABSENT):
        col.violation('C07/systematic:globals-outlive-the-call', 'first %r, then a fresh call reading S.globals.g: %r' % (first, second), None)


def spec_glom_entry(col):
    """Spec(spec, scope=m).glom(target, scope=...) is an entry point of its own: values passed via scope= are
    readable through S, never outlive the call, and neither the caller's mapping nor the Spec's own is modified"""
    own = {'x': 'spec-x'}
    sp = Spec({'x': Coalesce(S.x, default=ABSENT), 'y': Coalesce(S.y, default=ABSENT), 'z': Coalesce(S.z, default=ABSENT)}, scope=own)
    history = [({'y': 'call1-y'}, {'x': 'spec-x', 'y': 'call1-y', 'z': ABSENT}),
               ({}, {'x': 'spec-x', 'y': ABSENT, 'z': ABSENT}),
               ({'x': 'override', 'z': 'call3-z'}, {'x': 'override', 'y': ABSENT, 'z': 'call3-z'}),
               (None, {'x': 'spec-x', 'y': ABSENT, 'z': ABSENT}),
               ({'y': 'call5-y'}, {'x': 'spec-x', 'y': 'call5-y', 'z': ABSENT})]
    for i, (arg, want) in enumerate(history):
        caller = None if arg is None else dict(arg)
        before = snapshot(caller) if caller is not None else None
        got = call(sp.glom, 'T') if caller is None else call(sp.glom, 'T', scope=caller)
        col.case(('spec.glom', i), True)
        col.count('reader_observations', 3)
        if not got.ok or got.value != want:
            col.violation('C07/spec-glom-scope-leaks-between-calls', 'call #%d of one Spec object via .glom(scope=%r): %r, expected %r'
                          % (i + 1, arg, got, want), None)
            return
        if caller is not None and snapshot(caller) != before:
            col.violation('C07/caller-scope-modified', 'Spec.glom(scope=%r) changed the caller mapping to %r' % (arg, caller), None)
            return
        if own != {'x': 'spec-x'}:
            col.violation('C07/spec-scope-mapping-modified', "the mapping given to Spec(scope=) is now %r" % own, None)
            return



def glommer_scope_is_copied(col):
    """Glommer(scope=m) freezes a COPY of m: the caller's mapping (a plain dict or a ChainMap) is never written to, its values are
    readable through S, a later change of m is not seen, and two Glommers built from one mapping do not share anything"""
    from collections import ChainMap
    for kind in ('dict', 'ChainMap'):
        caller = {'x': 'caller-x'} if kind == 'dict' else ChainMap({'x': 'caller-x'}, {'y': 'lower-y'})
        before = snapshot(caller)
        built = call(lambda: (Glommer(scope=caller), Glommer(scope=caller, register_default_types=False)))
        col.case(('glommer-scope', kind), True)
        col.count('reader_observations')
        if not built.ok:
            col.violation('C07/glommer-scope-rejected', 'Glommer(scope=<%s>) raised %r' % (kind, built.exc), None)
            continue
        g1, g2 = built.value
        if snapshot(caller) != before:
            col.violation('C07/caller-scope-modified:Glommer', 'Glommer(scope=<%s>) changed the caller mapping: now %d keys %r'
                          % (kind, len(caller), sorted(map(repr, caller))[:6]), None)
            continue
        got = call(g1.glom, {'a': [1]}, {'x': Coalesce(S.x, default=ABSENT), 'first': ('a', [T]), 'again': 'a.0'})
        if not got.ok or got.value != {'x': 'caller-x', 'first': [1], 'again': 1}:
            col.violation('C07/glommer-scope-shared-between-glommers', 'the first of two Glommers built from one %s (the second without default types): %r' % (kind, got), None)
            continue
        caller['x'] = 'changed-later'
        got = call(g1.glom, 1, Coalesce(S.x, default=ABSENT))
        if not got.ok or got.value != 'caller-x':
            col.violation('C07/glommer-scope-not-frozen', 'after the caller changed its mapping, a Glommer built from it reads %r' % (got,), None)
        if snapshot({k: v for k, v in caller.items() if k != 'x'}) != snapshot({k: v for k, v in dict(before_items(kind)).items() if k != 'x'}):
            col.violation('C07/caller-scope-modified:Glommer', 'glom calls through the Glommer changed the caller mapping: %r' % sorted(map(repr, caller)), None)


def before_items(kind):
    return {'x': 'caller-x'} if kind == 'dict' else {'x': 'caller-x', 'y': 'lower-y'}


def bindings_survive_lazy_evaluation(col):
    """a lazy value made by an earlier step (an Iter pipeline) is CONSUMED while a later step of the same chain is evaluated - by the
    value spec of a binder, by a callable, by a reduction: bindings made by that later step, and by the steps before it, are visible to
    the steps after it all the same ("visible to the later steps of the same tuple or Pipe")"""
    from glom import Iter, Invoke, Sum, Fold
    inc = lambda x: x + 1
    cases = [
        ('binder value drains the Iter of the previous step', lambda: (Iter().map(inc), S(total=Invoke(sum).specs(T)), S.total), 9),
        ('the same in a Pipe', lambda: Pipe(Iter().map(inc), S(total=Invoke(sum).specs(T)), S.total), 9),
        ('binder value takes one item', lambda: (Iter().map(inc), S(first=Invoke(next).specs(T)), S.first), 2),
        ('earlier binding, then a draining binder', lambda: (S(a=Val('A')), Iter().map(inc), S(n=Invoke(list).specs(T)), {'a': S.a, 'n': S.n}), {'a': 'A', 'n': [2, 3, 4]}),
        ('draining binder, then a later binder', lambda: (Iter(inc), S(n=Invoke(list).specs(T)), S(b=Val('B')), {'b': S.b, 'n': S.n}), {'b': 'B', 'n': [2, 3, 4]}),
        ('A.name after a callable drained the Iter', lambda: (Iter().map(inc), list, A.lst, S(k=Val('K')), {'k': S.k, 'lst': S.lst}), {'k': 'K', 'lst': [2, 3, 4]}),
        ('reduction drains inside a binder value', lambda: (Iter().filter(lambda x: x != 2), S(s=Sum()), S.s), 4),
        ('Iter kept in the scope, drained two steps later', lambda: (Iter().map(inc), A.it, Val(0), S(got=Invoke(list).specs(S.it)), S.got), [2, 3, 4]),
        ('dict value drains, next step reads', lambda: (S(z=Val('Z')), Iter().map(inc), {'items': list}, S(seen=T['items']), {'z': S.z, 'seen': S.seen}),
         {'z': 'Z', 'seen': [2, 3, 4]}),
    ]
    for desc, mk, want in cases:
        spec = mk()
        for n in (1, 2):
            got = call(G, [1, 2, 3], spec)
            col.case(('lazy-evaluation', desc, n), True)
            col.count('reader_observations')
            col.count('chains_with_a_lazy_value_consumed_by_a_later_step')
            if not got.ok or got.value != want:
                col.violation('C07/binding-lost-when-a-lazy-value-is-consumed-in-a-later-step', '%s: %s on [1, 2, 3] (evaluation #%d): %r, expected %r'
                              % (desc, short(spec, 200), n, got, want), None)
                break


def globals_and_spec_scope_in_less_common_places(col):
    """(1) "S.globals persist until the top-level call returns": whichever spelling touches them first (A.globals.x, A['globals'].x,
    S['globals']) and wherever that happens (inside the key of First / Iter().first, which is evaluated through an entry point of
    its own; inside a list element; inside a Coalesce branch that fails afterwards), later steps read what was written, and the next
    call starts empty.  (2) "Spec(scope=) overrides for its subtree" also when the Spec is an ARGUMENT: the value of an S() keyword,
    a Coalesce / Or / Switch default, a T index, a Call argument"""
    from glom import Iter, Call, Switch, Invoke
    from glom.streaming import First
    g_cases = [
        ('first touched inside the key of Iter().first', [7, 8], lambda: (Iter().first((A.globals.a, A.globals.b)), {'a': S.globals.a, 'b': S.globals.b}), {'a': 7, 'b': 7}),
        ('first touched inside the key of First', [7, 8], lambda: (First((A.globals.a, A.globals.b)), {'a': S.globals.a, 'b': S.globals.b}), {'a': 7, 'b': 7}),
        ('written in the key of first, read in the same key later', [3, 4], lambda: (Iter().first((A.globals.seen, S.globals.seen)), T), 3),
        ("A['globals'].x then S.globals.x", 5, lambda: (A['globals'].x, S.globals.x), 5),
        ("A.globals.x then S['globals'].x", 5, lambda: (A.globals.x, S['globals'].x), 5),
        ("S['globals'] before anything was written", 5, lambda: (S['globals'], lambda v: type(v).__name__), 'ScopeVars'),
        ('written per list element, read afterwards', [1, 2, 3], lambda: ([A.globals.last], S.globals.last), 3),
        ('written in a Coalesce branch that then fails', {'a': 1}, lambda: (Coalesce(('a', A.globals.g, T['zz']), T), S.globals.g), 1),
        ('written in an Invoke argument spec', 4, lambda: (Invoke(lambda v: v).specs((A.globals.arg, T)), S.globals.arg), 4),
        # a nested public glom() call that is handed the running scope belongs to the same top-level call: it reads the globals written
        # so far, and what it writes is there afterwards
        ('nested glom(scope=S) reads the outer globals', 6, lambda: (A.globals.g, Invoke(G).specs(T).constants((S.globals.g, lambda v: v + 1)).specs(scope=S)), 7),
        ('nested glom(scope=S) writes globals the outer call reads', 6, lambda: (Invoke(G).specs(T).constants((A.globals.h, T)).specs(scope=S), S.globals.h), 6),
        ('nested glom via Call, both directions', 2, lambda: (A.globals.g, Call(G, args=(T, Val((A.globals.h, S.globals.g))), kwargs={'scope': S}),
                                                             {'g': S.globals.g, 'h': S.globals.h}), {'g': 2, 'h': 2}),
        ('nothing left from the calls before', 5, lambda: Coalesce(S.globals.a, S.globals.x, S.globals.last, S.globals.g, default='empty'), 'empty'),
    ]
    s_cases = [
        ('value of an S() keyword', None, lambda: (S(k='outer'), S(x=Spec(S.k, scope={'k': 'from-Spec'})), {'x': S.x, 'k': S.k}), {'x': 'from-Spec', 'k': 'outer'}),
        ('Coalesce default', None, lambda: (S(k='outer'), Coalesce('zz', default=Spec(S.k, scope={'k': 'from-Spec'}))), 'from-Spec'),
        ('Or default', None, lambda: (S(k='outer'), Match(Or(M == 'never', default=Spec(S.k, scope={'k': 'from-Spec'})))), 'from-Spec'),
        ('Switch default', None, lambda: (S(k='outer'), Match(Switch([(M == 'never', Val(0))], default=Spec(S.k, scope={'k': 'from-Spec'})))), 'from-Spec'),
        ('T index', {'from-Spec': 1, 'outer': 2}, lambda: (S(k='outer'), T[Spec(S.k, scope={'k': 'from-Spec'})]), 1),
        ('Call argument', None, lambda: (S(k='outer'), Call(lambda a, b: (a, b), args=(Spec(S.k, scope={'k': 'from-Spec'}), S.k))), ('from-Spec', 'outer')),
        ('inside a list literal in argument position', None, lambda: (S(k='outer'), S(x=[Spec(S.k, scope={'k': 'in-list'}), S.k]), S.x), ['in-list', 'outer']),
        ('shadowing an outer Spec(scope=)', None, lambda: Spec((S(x=Spec(S.k, scope={'k': 'inner'})), {'x': S.x, 'k': S.k}), scope={'k': 'outer'}), {'x': 'inner', 'k': 'outer'}),
    ]
    for group, cases in (('globals', g_cases), ('spec-scope-as-argument', s_cases)):
        for desc, target, mk, want in cases:
            spec = mk()
            for n in (1, 2):
                got = call(G, target, spec)
                col.case((group, desc, n), True)
                col.count('reader_observations')
                col.count('globals_and_spec_scope_cases')
                if not got.ok or got.value != want:
                    col.violation('C07/%s' % ('globals-do-not-persist-until-the-call-returns' if group == 'globals' else 'spec-scope-not-applied-to-its-subtree:argument-position'),
                                  '%s: %s on %r (evaluation #%d): %r, expected %r' % (desc, short(spec, 200), target, n, got, want), None)
                    break


def literal_bindings_do_not_outlive_the_call(col):
    """S(name=<container literal>) binds a container built for THIS call: mutating it in place through the scope (A.name[key],
    S.name.append(..)) is invisible to the next evaluation of the same spec object, and to sibling evaluations of the step"""
    cases = [
        ('S(seen={}) + A.seen[k]', lambda: (S(seen={}), Coalesce(S.seen['k'], (A.seen['k'], Val('nothing bound yet')))),
         'call', 'nothing bound yet'),
        ('S(acc=[]) + S.acc.append', lambda: (S(acc=[]), [S.acc.append(T)], S.acc), [1, 2], [1, 2]),
        ('S(acc=[[]]) nested', lambda: (S(acc=[[]]), [S.acc[0].append(T)], S.acc), [1, 2], [[1, 2]]),
        ("S(d={'n': []})", lambda: (S(d={'n': []}), [S.d['n'].append(T)], S.d), [3], {'n': [3]}),
        ('S(acc=[]) per list element', lambda: [(S(acc=[]), S.acc.append(T), S.acc)], [1, 2, 3], [[1], [2], [3]]),
        # (not Vars(items=[]): the initial values of a Vars are the very objects given, like Val(..) - a mutable one is shared)
    ]
    # the same after an evaluation of the spec object that FAILED while the literal was being built (an element of the literal
    # cannot be computed for that target): the next evaluations bind what their own target says
    after_failure = [
        ("S(pair=[T['a'], T['b']]) after a target without 'b'", lambda: (S(pair=[T['a'], T['b']]), S.pair),
         [{'a': 0}, {'a': 1, 'b': 2}, {'a': 3, 'b': 4}], [None, [1, 2], [3, 4]]),
        ("S(rec={'k': T['k'], 'v': T['v']}) per list element, first element incomplete",
         lambda: [Coalesce((S(rec={'k': T['k'], 'v': T['v']}), S.rec), default='skipped')],
         [[{'k': 'x'}, {'k': 'y', 'v': 2}, {'k': 'z', 'v': 3}]], [['skipped', {'k': 'y', 'v': 2}, {'k': 'z', 'v': 3}]]),
        ("Or(S(pair=[..]) branch fails, next evaluation", lambda: Coalesce((S(pair=[T['a'], [T['b']]]), S.pair), default='no pair'),
         [{'a': 1}, {'a': 5, 'b': 6}, {'a': 1}, {'a': 7, 'b': 8}], ['no pair', [5, [6]], 'no pair', [7, [8]]]),
    ]
    for desc, mk, targets, wants in after_failure:
        spec = mk()
        for n, (target, want) in enumerate(zip(targets, wants), 1):
            got = call(G, target, spec)
            col.case(('literal-binding-after-failure', desc, n), True)
            col.count('reader_observations')
            if (want is None and got.ok) or (want is not None and (not got.ok or got.value != want)):
                col.violation('C07/literal-binding-outlives-the-call:after-a-failed-evaluation',
                              '%s, evaluation #%d of one spec object on %r: %r, expected %r'
                              % (desc, n, target, got, want if want is not None else 'an error'), None)
                break
    for desc, mk, target, want in cases:
        spec = mk()
        for n in (1, 2, 3):
            got = call(G, target, spec)
            col.case(('literal-binding', desc, n), True)
            col.count('reader_observations')
            if not got.ok or got.value != want:
                col.violation('C07/literal-binding-outlives-the-call' if n > 1 else 'C07/literal-binding-wrong-on-first-call',
                              '%s, evaluation #%d of one spec object on %r: %r, expected %r' % (desc, n, target, got, want), None)
                break


def nothing_outlives_the_call_through_any_entry_point(col):
    """"S.globals ... never into the next call", "bindings never outlive the call" - for every way of making the call: glom(), one
    Glommer used repeatedly, different Glommers, Spec(..).glom(), after calls that succeeded and after calls that failed"""
    gl_a, gl_b = Glommer(), Glommer(register_default_types=True)
    sp_set = Spec((A.globals.k, A.w, S.globals.k))
    entries = [('glom', G), ('one Glommer', gl_a.glom), ('another Glommer', gl_b.glom), ('Glommer made now', lambda t, s, **kw: Glommer().glom(t, s, **kw)),
               ('Spec(..).glom', lambda t, s, **kw: Spec(s).glom(t, **kw)), ('Spec(.., scope={..}).glom', lambda t, s, **kw: Spec(s, scope={'own': 1}).glom(t, **kw))]
    read_g = Coalesce(S.globals.k, default='unset')
    read_w = Coalesce(S.w, default='unset')
    writers = [('A.globals.k', lambda: (A.globals.k, A.w, S.globals.k), 'ok'), ('A.globals.k then failing', lambda: (A.globals.k, A.w, 'nope.nope'), 'fail'),
               ('S(globals-free w=..)', lambda: (S(w=T), A.globals.k, S.w), 'ok'), ('A.globals.k inside a list', lambda: [(A.globals.k, S.globals.k)], 'ok-list'),
               ('A.globals.k in an abandoned branch', lambda: Coalesce((A.globals.k, A.w, 'nope'), default='d'), 'ok')]
    n = 0
    for wname, mk_writer, kind in writers:
        for e1name, e1 in entries:
            for e2name, e2 in entries:
                n += 1
                wrote = call(e1, [n] if kind == 'ok-list' else n, mk_writer())
                col.case(('outlives', wname, e1name, e2name), True)
                col.count('reader_observations', 2)
                if (kind == 'fail') == wrote.ok:
                    col.violation('C07/writer-call-unexpected-outcome', '%s via %s: %r' % (wname, e1name, wrote), None)
                    continue
                for rname, reader in (('S.globals.k', read_g), ('S.w', read_w)):
                    got = call(e2, {'t': 1}, reader)
                    if not (got.ok and got.value == 'unset'):
                        col.violation('C07/binding-outlives-the-call:%s:%s' % (rname, 'same-entry' if e1name == e2name else 'another-entry'),
                                      'call 1 (%s via %s) bound a value (%r); call 2 (via %s) reads %s = %r, expected it unbound'
                                      % (wname, e1name, n, e2name, rname, got), None)
    # Ref names are a namespace of their own: a definition Ref(name, ..) and a binding S(name=..) / A.name / scope={name: ..} of the same
    # name do not see each other
    tree = lambda: {'v': 1, 'kids': [{'v': 2, 'kids': []}, {'v': 3, 'kids': [{'v': 4, 'kids': []}]}]}
    progs = [
        ('scope= value named like the Ref', lambda: G({'a': 1}, Ref('cfg', (S.cfg, lambda c: c + 1)), scope={'cfg': 41}), 42),
        ('S(name=..) around a Ref of that name', lambda: G(tree(), (S(node='bound'), Ref('node', {'v': 'v', 'tag': S.node, 'kids': ('kids', [Ref('node')])}))),
         {'v': 1, 'tag': 'bound', 'kids': [{'v': 2, 'tag': 'bound', 'kids': []}, {'v': 3, 'tag': 'bound', 'kids': [{'v': 4, 'tag': 'bound', 'kids': []}]}]}),
        ('A.name inside the Ref of that name', lambda: G(tree(), Ref('node', {'v': 'v', 'kids': ('kids', [(A.node, Ref('node'))])})),
         {'v': 1, 'kids': [{'v': 2, 'kids': []}, {'v': 3, 'kids': [{'v': 4, 'kids': []}]}]}),
        ('A.name then S.name inside the Ref of that name', lambda: G(tree(), Ref('node', ('v', A.node, S.node))), 1),
        ('unbound S.name inside a Ref of that name', lambda: G({'a': 1}, Ref('item', Coalesce(S.item, default='unbound'))), 'unbound'),
        ('Ref definition does not bind a variable', lambda: G({'a': 1}, (Ref('r', 'a'), Coalesce(S.r, default='unbound'))), 'unbound'),
        ('S(name=spec-like value) is not a definition', lambda: G({'a': 1}, (S(r=Val('a')), Ref('r'))), Fail),
    ]
    for desc, prog, want in progs:
        got = call(prog)
        col.case(('ref-names-vs-bindings', desc), True)
        col.count('reader_observations')
        if (want is Fail and got.ok) or (want is not Fail and not (got.ok and got.value == want)):
            col.violation('C07/Ref-name-and-binding-name-collide', '%s: %r, expected %r' % (desc, got, want), None)


def deep_shadowing(col):
    """shadowing, Spec(scope=) overriding and Ref resolution do not depend on how far below the binder the reader sits: chains of up
    to 150 steps after the inner binder, up to 60 levels of dict / list nesting, Ref recursions up to 60 levels deep that re-bind a
    counter at every level"""
    def check(desc, depth, spec, want, target=None, **kw):
        got = call(G, {'v': 'tv'} if target is None else target, spec, **kw)
        col.case(('deep-shadowing', desc, depth), True)
        col.count('deep_shadowing_cases')
        col.count('reader_observations')
        if not got.ok or got.value != want:
            col.violation('C07/deep-reader-sees-the-wrong-binding:%s' % desc,
                          '%s, reader %d levels / steps below the inner binder: %r, expected %r' % (desc, depth, short(got, 300), want), None)
            return False
        return True
    for depth in (1, 5, 20, 40, 62, 63, 64, 65, 66, 70, 100, 150):
        pad = (T,) * depth
        ok = check('chain', depth, (S(x='outer'), (S(x='inner'),) + pad + (S.x,)), 'inner')
        ok = check('chain-three-levels', depth, (S(x='one'), (S(x='two'), (S(x='three'),) + pad + ({'x': S.x},))), {'x': 'three'}) and ok
        ok = check('scope-kwarg-shadowed', depth, (S(x='inner'),) + pad + (S.x,), 'inner', scope={'x': 'from-caller'}) and ok
        ok = check('spec-scope-override', depth, (S(x='outer'), Spec((T,) * depth + (S.x,), scope={'x': 'override'})), 'override') and ok
        ok = check('A-binder', depth, (S(x='outer'), ('v', A.x) + pad + (S.x,)), 'tv') and ok
        ok = check('outer-still-visible-after-the-inner-chain', depth, (S(x='outer'), ((S(x='inner'),) + pad + (S.x,)), S.x), 'outer') and ok
        if not ok:
            break
    for depth in (1, 10, 30, 31, 32, 33, 40, 60):
        def nest(inner, depth=depth):
            sp = inner
            for i in range(depth):
                sp = ({'k': sp}, 'k') if i % 2 else (Val([1]), [sp], T[0])
            return sp
        got = call(G, [1], (S(x='outer'), (S(x='inner'), nest(S.x))))
        col.case(('deep-shadowing', 'containers', depth), True)
        col.count('deep_shadowing_cases')
        col.count('reader_observations')
        if not got.ok or got.value != 'inner':
            col.violation('C07/deep-reader-sees-the-wrong-binding:containers', 'reader below %d levels of dict / list specs: %r, expected inner' % (depth, short(got, 200)), None)
            break
    for depth in (2, 5, 9, 10, 11, 12, 20, 40, 60):
        # a recursion that re-binds `n` at every level (n - 1) and reads it back: at every level the NEAREST binding is the one read,
        # and every level resolves Ref('down') to the one definition
        seen = []
        spec = (S(n=Val(depth), label=Val('top')),
                Ref('down', (S(n=S.n - 1), S.n, lambda v: seen.append(v) or v, Coalesce(Match(0), Ref('down')))))
        got = call(G, 'start', spec)
        col.case(('deep-shadowing', 'ref-recursion', depth), True)
        col.count('deep_shadowing_cases')
        col.count('reader_observations')
        if not got.ok or got.value != 0 or seen != list(range(depth - 1, -1, -1)):
            col.violation('C07/deep-reader-sees-the-wrong-binding:ref-recursion', 'Ref recursion re-binding a counter, %d levels: %r, counter values read %s, expected 0 and %d..0'
                          % (depth, short(got, 300), short(seen, 200), depth - 1), None)
            break


def matchdict_two_keys(col, rng):
    """a Match-dict key passes its bindings to its own value spec only: constant key + binding key, both target orders"""
    for binder_name, binder in (('A.k', A.k), ('S(k=)', S(k=Val('BOUND'))), ('Required(A.k)', Required(A.k)),
                                ('Required(S(k=))', Required(S(k=Val('BOUND'))))):
        for order in (('bound', 'const'), ('const', 'bound')):
            for outer in (None, 'OUTER'):
                rd_const, rd_bound = Coalesce(S.k, default=ABSENT), Coalesce(S.k, default=ABSENT)
                pattern = Match({'const': Auto(rd_const), And(str, M != 'const') if False else binder: Auto(rd_bound)})
                target = {}
                for o in order:
                    target['const' if o == 'const' else 'other'] = 1
                spec = (S(k=Val(outer)), pattern) if outer else pattern
                got = call(G, target, spec)
                bound_val = 'other' if 'A.k' in binder_name else 'BOUND'
                want = {'const': outer or ABSENT, 'other': bound_val}
                col.case(('matchdict-two-keys', binder_name, order, outer), True)
                col.count('reader_observations', 2)
                if not got.ok or got.value != want:
                    col.violation('C07/match-dict-key-binding-visible-to-sibling-value:%s' % ('binder-first' if order[0] == 'bound' else 'const-first'),
                                  'Match({const: reader, %s: reader}) on %r%s gave %r, expected %r'
                                  % (binder_name, target, ' with outer k' if outer else '', got, want), None)



# ---------------------------------------------------------------------------
# Ref: "Ref(name) resolves to the nearest enclosing Ref(name, spec) allowing recursion"

_BARE_REFS = {}     # ONE bare Ref(name) object per name for the whole run: shared by every definition, spec and call


def _bare(name):
    if name not in _BARE_REFS:
        _BARE_REFS[name] = Ref(name)
    return _BARE_REFS[name]


def gen_ref_tree(rng, depth):
    return {'v': rng.randint(0, 99), 'kids': [gen_ref_tree(rng, depth - 1) for _ in range(rng.randint(0, 2 if depth > 0 else 0))]}


class RefGen:
    """nodes: ('def', name, body) | ('use', name) | ('val', tag) | ('dict', {key: node}) | ('kids', node) | ('first', node)
    A use of `name` is generated only where the target has been descended since the nearest definition of that name
    (most programs then terminate on a finite tree; the reference interpreter detects the others, which are skipped)."""
    def __init__(self, rng):
        self.rng = rng
        self.n = 0
        self.uses = 0
        self.defs = 0
        self.shadow = 0

    def tag(self):
        self.n += 1
        return 'r%d' % self.n

    def gen(self, depth, env, bound=False):
        """env: {name: descended since its nearest definition}"""
        rng = self.rng
        usable = [n for n, d in env.items() if d]
        r = rng.random()
        if usable and (depth <= 0 or r < 0.3):
            self.uses += 1
            return ('use', rng.choice(usable))
        if depth <= 0 or r < 0.4:
            # (a reader may stand where nothing is bound lexically: it sees what is bound DYNAMICALLY, e.g. on the way to a
            # recursive reference - or nothing)
            return ('readd',) if rng.random() < (0.5 if bound else 0.25) else ('val', self.tag())
        if r < 0.6:
            name = rng.choice(['x', 'y'])
            if name in env:
                self.shadow += 1
            self.defs += 1
            return ('def', name, self.gen(depth - 1, dict(env, **{name: False}), bound))
        if r < 0.65:
            return ('dict', {'v': ('path-v',), 't': ('val', self.tag()), 'a': self.gen(depth - 1, env, bound), 'b': self.gen(depth - 1, env, bound)})
        if r < 0.82:
            # a binding made INSIDE a Ref body (visible to what follows it there, also through a bare Ref reached from there),
            # and a reader of that name
            if not bound or rng.random() < 0.3:
                return ('bind', self.tag(), self.gen(depth - 1, env, True))
            return ('readd',)
        down = {n: True for n in env}
        if r < 0.9:
            return ('kids', self.gen(depth - 1, down, bound))
        return ('first', self.gen(depth - 1, down, bound))


def ref_build(node):
    k = node[0]
    if k == 'def':
        return Ref(node[1], ref_build(node[2]))
    if k == 'use':
        return _bare(node[1])
    if k == 'val':
        return Val(node[1])
    if k == 'path-v':
        return 'v'
    if k == 'dict':
        return {key: ref_build(v) for key, v in node[1].items()}
    if k == 'kids':
        return ('kids', [ref_build(node[1])])
    if k == 'bind':
        return (S(d=Val(node[1])), ref_build(node[2]))
    if k == 'readd':
        return Coalesce(S.d, default='unbound')
    return Coalesce(('kids', T[0], ref_build(node[1])), default='no-kid')


class _Diverges(Exception):
    pass


def ref_eval(node, target, env, stats, d='unbound'):
    """d: the value the name `d` is bound to at this point of the evaluation (bindings follow the EVALUATION: a bare Ref is
    evaluated where it stands, with everything bound on the way there)"""
    k = node[0]
    if k == 'def':
        return ref_eval(node[2], target, dict(env, **{node[1]: node[2]}), stats, d)
    if k == 'use':
        stats[0] += 1
        if stats[0] > 400:
            raise _Diverges()
        return ref_eval(env[node[1]], target, env, stats, d)
    if k == 'val':
        return node[1]
    if k == 'path-v':
        return target['v']
    if k == 'bind':
        stats[1] += 1
        return ref_eval(node[2], target, env, stats, node[1])
    if k == 'readd':
        if d != 'unbound':
            stats[2] += 1
        return d
    if k == 'dict':
        return {key: ref_eval(v, target, env, stats, d) for key, v in node[1].items()}
    if k == 'kids':
        return [ref_eval(node[1], kid, env, stats, d) for kid in target['kids']]
    if not target['kids']:
        return 'no-kid'
    return ref_eval(node[1], target['kids'][0], env, stats, d)


def ref_describe(node):
    k = node[0]
    if k == 'def':
        return "Ref(%r, %s)" % (node[1], ref_describe(node[2]))
    if k == 'use':
        return "Ref(%r)" % node[1]
    if k == 'val':
        return node[1]
    if k == 'path-v':
        return "'v'"
    if k == 'dict':
        return '{%s}' % ', '.join('%s: %s' % (key, ref_describe(v)) for key, v in node[1].items())
    if k == 'bind':
        return '(S(d=%s), %s)' % (node[1], ref_describe(node[2]))
    if k == 'readd':
        return 'S.d'
    return '%s(%s)' % (k, ref_describe(node[1]))


def ref_cases(col, rng, n):
    for _ in range(n):
        g = RefGen(rng)
        name = rng.choice(['x', 'y'])
        node = ('def', name, g.gen(rng.randint(2, 5), {name: False}))
        target = gen_ref_tree(rng, 3)
        stats = [0, 0, 0]
        try:
            want = ref_eval(node, target, {}, stats)
        except (_Diverges, RecursionError):
            # resolution is dynamic (nearest enclosing *evaluation*): two definitions can end up calling each other without
            # descending the target; such programs do not terminate in glom either and are not run
            col.count('ref_programs_skipped_as_divergent')
            continue
        spec = ref_build(node)
        before = snapshot(target)
        for rep in range(2):
            got = call(G, target, spec)
            col.case(('ref', g.defs > 0, g.shadow > 0, min(stats[0], 5), rep), stats[0] >= 1)
            if not got.ok or got.value != want:
                kind = 'shadowing' if g.shadow else ('sibling-definitions' if g.defs else 'recursion')
                col.violation('C07/ref-not-resolved-to-nearest-enclosing-definition:' + kind,
                              '%s on %s (evaluation #%d of the spec object; bare Ref objects are shared by all definitions of a run): '
                              'glom gave %s, resolving every Ref(name) to the nearest enclosing Ref(name, spec) gives %s'
                              % (ref_describe(node), short(target, 200), rep + 1, short(got, 400), short(want, 400)),
                              {'program': ref_describe(node), 'target': target})
                return
        col.count('ref_programs')
        col.count('ref_resolutions_in_reference', stats[0])
        col.count('ref_programs_reading_a_binding_made_in_a_ref_body', 1 if stats[2] else 0)
        if g.shadow and stats[0]:
            col.count('ref_programs_with_shadowing')
        if snapshot(target) != before:
            col.violation('C07/ref-target-modified', ref_describe(node), None)


def run(ctx):
    col, rng = ctx.col, ctx.rng
    tracer = EvalTracer()
    tracer.install()
    col.require('reader_observations', 1000)
    col.require('frame_observations', 5000)
    col.require('ref_resolutions_in_reference', 500)
    col.require('ref_programs_with_shadowing', 30)
    col.require('ref_programs_reading_a_binding_made_in_a_ref_body', 100)
    try:
        if ctx.shard == 0:
            systematic(col, rng, tracer)
            spec_glom_entry(col)
            glommer_scope_is_copied(col)
            bindings_survive_lazy_evaluation(col)
            globals_and_spec_scope_in_less_common_places(col)
            matchdict_two_keys(col, rng)
            literal_bindings_do_not_outlive_the_call(col)
            deep_shadowing(col)
            nothing_outlives_the_call_through_any_entry_point(col)
        for i in range(ctx.n(6000, 40000)):
            one_case(col, rng, tracer)
        tracer.uninstall()
        ref_cases(col, rng, ctx.n(4000, 15000))
    finally:
        tracer.uninstall()
