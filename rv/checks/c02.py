"""C02 - T expressions replay exactly the recorded operations on the target.

Oracle: every generated expression is kept in the check's *own* representation
(a list of steps); from it (a) the T expression is built with the real operator
overloads and (b) the reference value is computed by applying operator.* directly
to a twin of the target.  Nested T / Spec arguments are evaluated by the reference
against the *original* target; everything else is passed literally.  A probe
attribute on the target logs every access, so "nothing is evaluated after the
failing operation" and "arguments are evaluated against the original target, in
order" are observed, not inferred.
"""
import operator
from fractions import Fraction

from .. import env
from ..util import call, StepBudget, StepBudgetExceeded
from ..report import short
from ..snapshot import snapshot, first_diff

glom = env.bind()
from glom import T, Path, Spec, PathAccessError, GlomError, glom as G  # noqa: E402

META = {
    'level': 'exploration',
    'rule': ('operation sequences of length 1-7 (a leading attribute step plus up to 6 operations) over '
             '.attr, [item], [slice], (call), + - * / // % ** & | ^ ~ neg, generated adaptively so that '
             'every prefix is defined on the twin target or fails at a chosen position (then 0-2 more '
             'operations follow the failing one); arguments are literals (numbers, strings, None, '
             'callables, tuples/lists/dicts with T leaves), nested T (depth <= 2) and Spec(...); plus a '
             'systematic part: every operator alone and every ordered pair of binary/unary operators on '
             'numeric targets. Non-trivial: >= 2 operations after the leading attribute or a nested '
             'argument; distinct by (operation-kind sequence, argument kinds, failure position).'),
    'assumptions': [
        'PathAccessError with a position is demanded only for the native failure classes of an operation '
        '(AttributeError for ., KeyError/IndexError/TypeError for [], TypeError/ZeroDivisionError for arithmetic); '
        'for other classes and for exceptions thrown by the callee of a call step only "class preserved, nothing later evaluated" is demanded',
        'values compared with == and type equality; floats are compared exactly (same operations, same order)',
    ],
}

BIN = {'+': operator.add, '-': operator.sub, '*': operator.mul, '/': operator.truediv,
       '//': operator.floordiv, '%': operator.mod, '**': operator.pow, '&': operator.and_,
       '|': operator.or_, '^': operator.xor}
UN = {'~': operator.invert, 'neg': operator.neg}
NATIVE = {'attr': (AttributeError,), 'item': (KeyError, IndexError, TypeError),
          'bin': (TypeError, ZeroDivisionError), 'un': (TypeError,)}


# ---------------------------------------------------------------------------
# targets (built twice from one recipe: one for glom, one for the reference)

class Helper:
    """object with deterministic pure methods"""
    def __init__(self, base):
        self.base = base
        self.data = {'k': [1, 2, 3], 'j': {'deep': base}}

    def add(self, x):
        return self.base + x

    def mul(self, x, y=2):
        return self.base * x * y

    def echo(self, *a, **kw):
        if kw:
            return (a, tuple(sorted(kw.items())))
        return a[0] if len(a) == 1 else a

    def boom(self, *a, **kw):
        raise ValueError('boom', self.base)

    def __eq__(self, other):
        return type(other) is Helper and other.base == self.base

    def __hash__(self):
        return hash(self.base)

    def __repr__(self):
        return 'Helper(%r)' % (self.base,)


class Tgt:
    ATTRS = ('a', 'b', 'c', 'd', 'e', 'h')

    def __init__(self, vals):
        self.log = []
        for k, v in vals.items():
            self.__dict__[k] = v

    @property
    def probe(self):
        self.log.append('probe')
        return 3

    @property
    def probe2(self):
        self.log.append('probe2')
        return 'k'

    # (twins compare equal: an expression may hand the target itself back, `T.h.echo(T)`)
    def __eq__(self, other):
        return type(other) is Tgt and {k: v for k, v in self.__dict__.items() if k != 'log'} == \
            {k: v for k, v in other.__dict__.items() if k != 'log'}

    def __hash__(self):
        return hash(('Tgt', self.__dict__.get('n')))

    # (as the right operand of an arithmetic step - `T.n + T` - the target answers through the reflected methods)
    def __radd__(self, other):
        return ('radd', other)

    def __rmul__(self, other):
        return ('rmul', other)

    def __rsub__(self, other):
        return ('rsub', other)

    def __repr__(self):
        return 'Tgt(%s)' % ', '.join('%s=%r' % (k, v) for k, v in sorted(self.__dict__.items()) if k != 'log')


def value_pool(rng):
    mk = [
        lambda: rng.choice([0, 1, 7, -3, 12, 255]),
        lambda: rng.choice([True, False]),
        lambda: rng.choice([0.5, 2.0, -1.5]),
        lambda: Fraction(rng.choice([1, 3, -5]), rng.choice([2, 4, 7])),
        lambda: rng.choice(['abc', '', 'a.b', 'xyz%s']),
        lambda: [rng.randint(0, 5) for _ in range(rng.randint(0, 4))],
        lambda: tuple(rng.randint(0, 5) for _ in range(rng.randint(0, 3))),
        lambda: {'k': rng.randint(0, 9), 'j': [4, 5, {'z': 1}], 3: 'three'},
        lambda: set(rng.sample(range(6), rng.randint(0, 3))),
        lambda: frozenset(rng.sample(range(6), rng.randint(0, 3))),
        lambda: [[1, 2], [3, [4]]],
        lambda: None,
    ]
    return rng.choice(mk)


def target_recipe(rng):
    """returns a zero-arg builder producing equal but disjoint targets"""
    state = rng.getstate()

    def build():
        import random
        r = random.Random()
        r.setstate(state)
        vals = {k: value_pool(r)() for k in ('a', 'b', 'c', 'd', 'e')}
        vals['h'] = Helper(r.choice([2, 5, 'ab']))
        vals['n'] = r.choice([2, 3, 10])   # always a small positive int, handy as an argument
        vals['z'] = 0
        return Tgt(vals)
    for _ in range(40):
        rng.random()
    return build


# ---------------------------------------------------------------------------
# own representation of expressions

class Lit:
    def __init__(self, v): self.v = v
    kind = 'lit'


class Sub:           # nested T expression
    def __init__(self, expr, wrap=False): self.expr, self.wrap = expr, wrap
    @property
    def kind(self): return 'spec' if self.wrap else 'nestedT'


class Root:          # the bare T as an argument: stands for the ORIGINAL target, wherever in the expression it is used
    kind = 'bareT'


class Cont:          # container literal with argument leaves
    def __init__(self, typ, parts): self.typ, self.parts = typ, parts
    kind = 'container'


class Expr:
    def __init__(self, attr, steps=()):
        self.attr = attr            # leading attribute on the Tgt
        self.steps = list(steps)    # (kind, payload)

    def kinds(self):
        return tuple(k if k in ('attr', 'item', 'call') else p[0] if k == 'bin' else p for k, p in self.steps)


_BUILT_SUBS = {}     # id(Sub node) -> built object, for the duration of one build_t(): a Sub node used by several steps of
                     # one expression is ONE T object there (and is evaluated at every step that uses it)


def build_arg(a):
    if isinstance(a, Lit):
        return a.v
    if isinstance(a, Root):
        return T
    if isinstance(a, Sub):
        if id(a) in _BUILT_SUBS:
            return _BUILT_SUBS[id(a)]
        t = build_t(a.expr, nested=True)
        _BUILT_SUBS[id(a)] = Spec(t) if a.wrap else t
        return _BUILT_SUBS[id(a)]
    if isinstance(a, Cont):
        if a.typ is dict:
            return {k: build_arg(v) for k, v in a.parts}
        return a.typ(build_arg(p) for p in a.parts)
    raise AssertionError(a)


def build_t(e, nested=False):
    if not nested:
        _BUILT_SUBS.clear()
    t = getattr(T, e.attr)
    for kind, p in e.steps:
        if kind == 'attr':
            t = getattr(t, p)
        elif kind == 'item':
            t = t[build_arg(p)]
        elif kind == 'call':
            args, kwargs = p
            t = t(*[build_arg(a) for a in args], **{k: build_arg(v) for k, v in kwargs})
        elif kind == 'bin':
            op, a = p
            t = _T_BIN[op](t, build_arg(a))
        elif kind == 'un':
            t = (~t) if p == '~' else (-t)
    return t


_T_BIN = {'+': lambda t, a: t + a, '-': lambda t, a: t - a, '*': lambda t, a: t * a, '/': lambda t, a: t / a,
          '//': lambda t, a: t // a, '%': lambda t, a: t % a, '**': lambda t, a: t ** a,
          '&': lambda t, a: t & a, '|': lambda t, a: t | a, '^': lambda t, a: t ^ a}


class RefFail(Exception):
    def __init__(self, pos, exc, kind, in_arg=False):
        self.pos, self.exc, self.kind, self.in_arg = pos, exc, kind, in_arg


def ref_arg(a, target):
    if isinstance(a, Lit):
        return a.v
    if isinstance(a, Root):
        return target
    if isinstance(a, Sub):
        return ref_eval(a.expr, target)          # against the ORIGINAL target
    if a.typ is dict:
        return {k: ref_arg(v, target) for k, v in a.parts}
    return a.typ(ref_arg(p, target) for p in a.parts)


def ref_eval(e, target, skip=None):
    """direct Python evaluation; raises RefFail(position, exception, kind).
    skip=i omits operation i (used to recognise a dropped operation)"""
    try:
        cur = getattr(target, e.attr)
    except AttributeError as exc:
        raise RefFail(0, exc, 'attr')
    for i, (kind, p) in enumerate(e.steps):
        pos = i + 1
        try:
            if kind == 'attr':
                args = None
            elif kind == 'item':
                args = ref_arg(p, target)
            elif kind == 'call':
                args = ([ref_arg(a, target) for a in p[0]], {k: ref_arg(v, target) for k, v in p[1]})
            elif kind == 'bin':
                args = ref_arg(p[1], target)
            else:
                args = None
        except RefFail as rf:
            raise RefFail(rf.pos, rf.exc, rf.kind, in_arg=True)
        if skip == i:
            continue
        try:
            if kind == 'attr':
                cur = getattr(cur, p)
            elif kind == 'item':
                cur = cur[args]
            elif kind == 'call':
                cur = cur(*args[0], **args[1])
            elif kind == 'bin':
                cur = BIN[p[0]](cur, args)
            else:
                cur = UN[p](cur)
        except Exception as exc:
            raise RefFail(pos, exc, kind)
    return cur


# ---------------------------------------------------------------------------
# generation

_EARLIER_SUBS = []


def gen_arg_for(rng, kind, cur, depth, tgt):
    """an argument that has a fair chance of being valid for cur"""
    r = rng.random()
    if r > 0.97:
        return Root()
    if depth < 2 and r < 0.22:
        if _EARLIER_SUBS and rng.random() < 0.35:
            return rng.choice(_EARLIER_SUBS)          # the very same nested T as an earlier step of this expression
        sub = gen_sub(rng, depth + 1, tgt, wrap=rng.random() < 0.3)
        if depth == 0:
            _EARLIER_SUBS.append(sub)
        return sub
    if kind == 'item':
        if isinstance(cur, (list, tuple, str)):
            if rng.random() < 0.3:
                pk = lambda: rng.choice([None, 0, 1, 2, -1])
                return Lit(slice(pk(), pk(), rng.choice([None, 1, 2, -1])))
            return Lit(rng.choice([0, 1, -1, 2, 5, 'k', None]))
        if isinstance(cur, dict):
            return Lit(rng.choice(['k', 'j', 3, 'missing', 0, ('t',)]))
        return Lit(rng.choice([0, 'k']))
    # arithmetic
    if isinstance(cur, (list, tuple, str)) and rng.random() < 0.6:
        if rng.random() < 0.5:
            return Lit(rng.choice([0, 1, 2, 3]))
        if type(cur) in (list, tuple) and rng.random() < 0.6:
            parts = [Lit(rng.randint(0, 9)) if rng.random() < 0.6 else gen_sub(rng, 2, tgt) for _ in range(rng.randint(0, 2))]
            return Cont(type(cur), parts)
        return Lit(type(cur)() if rng.random() < 0.5 and type(cur) in (list, tuple, str) else rng.choice(['s', [8], (8,), _Pt(8, 9), _SL]))
    if isinstance(cur, (set, frozenset)) and rng.random() < 0.7:
        return Lit(rng.choice([{1, 9}, frozenset([2]), set()]))
    return Lit(rng.choice([0, 1, 2, 3, -2, 7, 0.5, 2.0, True, Fraction(1, 3), 'x', None, [1]]))


def gen_sub(rng, depth, tgt, wrap=False):
    attr = rng.choice(['n', 'n', 'probe', 'probe2', 'a', 'b', 'z'])
    e = Expr(attr)
    if rng.random() < 0.35 and depth < 3:
        twin_val = getattr(tgt, attr, None)
        tgt.log.clear()
        if isinstance(twin_val, (int, float)) and not isinstance(twin_val, bool):
            e.steps.append(('bin', (rng.choice(['+', '*', '-']), Lit(rng.choice([1, 2])))))
    return Sub(e, wrap)


def gen_call(rng, cur, depth, tgt):
    if isinstance(cur, Helper):
        return None
    args = [gen_call_arg(rng, depth, tgt) for _ in range(rng.randint(0, 2))]
    kwargs = []
    return (args, kwargs)


def gen_call_arg(rng, depth, tgt):
    r = rng.random()
    if r > 0.95:
        return Root()
    if r > 0.9:
        return Cont(rng.choice([list, dict]), [])          # an EMPTY container literal (rebuilt per evaluation like any other)
    if r < 0.3 and depth < 2:
        return gen_sub(rng, depth + 1, tgt, wrap=rng.random() < 0.3)
    if r < 0.4:
        return Cont(rng.choice([list, tuple, dict]), [('x', gen_sub(rng, 2, tgt)), ('y', Lit(1))]) if False else \
            Cont(list, [gen_sub(rng, 2, tgt), Lit('lit')])
    if r < 0.5:
        # instances of container SUBCLASSES are literals: passed through as they are, not rebuilt
        return Lit(rng.choice([_Pt(1, 2), _Pt(_Pt(0, 0), 'n'), _DD, _SL]))
    return Lit(rng.choice([0, 1, 2, 'a.b', 'n', len, None, 3.5, ('t', 1)]))


import collections as _collections
_Pt = _collections.namedtuple('_Pt', 'x y')
_DD = _collections.defaultdict(list, {'k': [1]})


class _StatefulList(list):
    pass


_SL = _StatefulList([1, 2])
_SL.label = 'tagged'


def candidate_step(rng, cur, depth, tgt):
    """one random step, biased towards the type of the current value"""
    r = rng.random()
    if isinstance(cur, Helper):
        r2 = rng.random()
        if r2 < 0.6:
            return ('attr', rng.choice(['add', 'mul', 'echo', 'base', 'data', 'boom', 'nope']))
        return ('attr', 'data')
    if callable(cur):
        name = getattr(cur, '__name__', '')
        if name == 'add':
            return ('call', ([gen_num_or_sub(rng, depth, tgt)], []))
        if name == 'mul':
            kw = [('y', gen_num_or_sub(rng, depth, tgt))] if rng.random() < 0.5 else []
            return ('call', ([gen_num_or_sub(rng, depth, tgt)], kw))
        if name == 'echo':
            kw = [('kw', gen_call_arg(rng, depth, tgt))] if rng.random() < 0.3 else []
            return ('call', ([gen_call_arg(rng, depth, tgt) for _ in range(rng.randint(1, 2))], kw))
        return ('call', ([gen_call_arg(rng, depth, tgt) for _ in range(rng.randint(0, 2))], []))
    if r < 0.2:
        if isinstance(cur, (int, float, Fraction)):
            return ('attr', rng.choice(['real', 'imag', 'numerator', 'missing_attr', 'bit_length', 'conjugate']))
        if isinstance(cur, str):
            return ('attr', rng.choice(['upper', 'strip', 'missing_attr']))
        if isinstance(cur, dict):
            return ('attr', rng.choice(['keys', 'get', 'missing_attr']))
        if isinstance(cur, (list, tuple)):
            return ('attr', rng.choice(['count', 'index', 'missing_attr']))
        return ('attr', 'missing_attr')
    if r < 0.45 and not isinstance(cur, (int, float, Fraction, bool, type(None))):
        return ('item', gen_arg_for(rng, 'item', cur, depth, tgt))
    if r < 0.52:
        return ('un', rng.choice(['~', 'neg']))
    if r < 0.56:
        return ('item', gen_arg_for(rng, 'item', cur, depth, tgt))
    op = rng.choice(list(BIN))
    return ('bin', (op, gen_arg_for(rng, 'bin', cur, depth, tgt)))


def gen_num_or_sub(rng, depth, tgt):
    if rng.random() < 0.4 and depth < 2:
        return gen_sub(rng, depth + 1, tgt, wrap=rng.random() < 0.3)
    return Lit(rng.choice([0, 1, 2, 3, 'x']))


def too_big(v):
    try:
        if isinstance(v, int) and not isinstance(v, bool):
            return abs(v) > 10 ** 40
        if isinstance(v, (str, list, tuple)):
            return len(v) > 2000
        if isinstance(v, Fraction):
            return abs(v.numerator) > 10 ** 40 or abs(v.denominator) > 10 ** 40
    except Exception:
        pass
    return False


def gen_expr(rng, build, want_fail):
    """adaptive generation against a twin target; returns Expr"""
    twin = build()
    del _EARLIER_SUBS[:]
    e = Expr(rng.choice(Tgt.ATTRS))
    n = rng.randint(1, 6)
    failed = False
    tries = 0
    while len(e.steps) < n and tries < 60:
        tries += 1
        try:
            cur = ref_eval(e, twin)
        except RefFail:
            break
        if too_big(cur):
            break
        step = candidate_step(rng, cur, 0, twin)
        e.steps.append(step)
        try:
            ref_eval(e, twin)
        except RefFail as rf:
            if want_fail and rng.random() < 0.5:
                failed = True
                break
            e.steps.pop()
        except RecursionError:
            e.steps.pop()
    if failed:
        # operations recorded after the failing one must never be applied or have their arguments evaluated
        for _ in range(rng.randint(0, 2)):
            e.steps.append(rng.choice([
                ('bin', ('+', Sub(Expr('probe')))), ('item', Sub(Expr('probe2'))),
                ('call', ([Sub(Expr('probe'))], [])), ('attr', 'x'), ('un', 'neg'), ('bin', ('*', Lit(2)))]))
    return e


# ---------------------------------------------------------------------------
# comparison

def same_value(a, b):
    if type(a) is not type(b):
        return False
    if hasattr(a, '__self__') and callable(a) and not isinstance(a, type):
        # bound (builtin) methods of the two twins: same function, equal receivers
        return getattr(a, '__func__', None) is getattr(b, '__func__', None) and \
            getattr(a, '__name__', None) == getattr(b, '__name__', None) and same_value(a.__self__, b.__self__)
    if type(a) in (list, tuple):
        return len(a) == len(b) and all(same_value(x, y) for x, y in zip(a, b))
    try:
        if a != a and b != b:
            return True
        return bool(a == b)
    except Exception:
        return a is b


def arg_kinds(e):
    out = []
    for kind, p in e.steps:
        if kind == 'item':
            out.append(p.kind)
        elif kind == 'bin':
            out.append(p[1].kind)
        elif kind == 'call':
            out.append('(' + ','.join(a.kind for a in p[0]) + ';' + ','.join(v.kind for _, v in p[1]) + ')')
        else:
            out.append('-')
    return tuple(out)


import copy as _copy
import pickle as _pickle
import random as _random
_COPY_RNG = _random.Random(20261002)
_BUDGET = StepBudget(300000)


def _copy_expr(expr, how):
    if how == 'copy':
        return _copy.copy(expr)
    if how == 'deepcopy':
        return _copy.deepcopy(expr)
    if how == 'pickle':
        return _pickle.loads(_pickle.dumps(expr))
    if how == 'path-slice':
        p = Path(expr)
        q = p[:len(p)]
        return q.path_t
    raise AssertionError(how)


def check_expr(col, e, build, origin):
    t_glom, t_ref = build(), build()
    try:
        expr = build_t(e)
    except Exception as exc:
        col.violation('C02/cannot-build', 'building the T expression raised %r' % (exc,), None)
        return
    rendering = repr(expr)
    kinds = e.kinds()
    try:
        want = ('ok', ref_eval(e, t_ref))
    except RefFail as rf:
        want = ('fail', rf)
    except RecursionError:
        return
    nontrivial = len(e.steps) >= 2 or any(k != 'lit' and k != '-' for k in arg_kinds(e))
    failpos = want[1].pos if want[0] == 'fail' else None
    col.case((origin, kinds, arg_kinds(e), failpos), nontrivial)
    def tsnap():
        return tuple((k, snapshot(v)) for k, v in sorted(t_glom.__dict__.items()) if k != 'log')
    snap = tsnap()
    # a T expression is a value: a copy of it (copy.copy, copy.deepcopy, a pickle round trip, the expression sliced out of a
    # Path) replays the same operations.  A fifth of the cases evaluate such a copy instead of the object that was built
    how = 'built'
    if _COPY_RNG.random() < 0.2:
        how = _COPY_RNG.choice(['copy', 'deepcopy', 'pickle', 'path-slice'])
        made = call(_copy_expr, expr, how)
        if made.ok:
            col.count('copies_evaluated')
            expr = made.value
        else:
            how = 'built'      # (lambdas / local classes among the arguments cannot be pickled or deep-copied: not a property of T)
    got = _BUDGET.call(G, t_glom, expr)
    col.count('glom_evaluations')
    if not got.ok and isinstance(got.exc, StepBudgetExceeded):
        col.violation('C02/evaluation-does-not-terminate:' + _last_kind(e.kinds()),
                      '%s (%s) on %s: %s, the direct Python evaluation is a handful of operations'
                      % (repr(expr)[:300], how, short(t_ref), got.exc), {'expr': repr(expr)[:300]})
        return
    if tsnap() != snap:
        col.violation('C02/evaluation-mutates-the-target:' + _last_kind(kinds),
                      '%s changed its target: %s' % (rendering, first_diff(snap, tsnap())), {'expr': rendering})
        return
    # replaying the same recorded operations again gives the same outcome (nothing was consumed or mutated)
    again = call(G, t_glom, expr)
    if again.ok != got.ok or (got.ok and not same_value(again.value, got.value)):
        col.violation('C02/second-evaluation-differs:' + _last_kind(kinds), '%s: first %r, second %r' % (rendering, got, again), {'expr': rendering})
        return
    del t_glom.log[len(t_glom.log) // 2:]
    col.count('ops_replayed', len(e.steps) + 1)
    wit = {'expr': rendering, 'target': short(t_ref), 'steps': short(kinds)}
    if col.want_sample('ok' if want[0] == 'ok' else 'failing'):
        col.sample({'expr': rendering, 'target': short(t_ref, 200),
                    'reference': short(want[1]) if want[0] == 'ok' else
                    'fails at op %d with %r' % (want[1].pos, want[1].exc)},
                   'ok' if want[0] == 'ok' else 'failing')

    if want[0] == 'ok':
        if not got.ok:
            col.violation('C02/raises-where-python-succeeds:' + _last_kind(kinds),
                          '%s on %s: Python gives %s, glom raised %r' % (rendering, short(t_ref), short(want[1]), got.exc), wit)
        elif not same_value(got.value, want[1]):
            # is it the value obtained with one operation left out?
            dropped = None
            for i, (kind, p) in enumerate(e.steps):
                try:
                    alt = ref_eval(e, build(), skip=i)
                except Exception:
                    continue
                if same_value(alt, got.value):
                    dropped = (kind, p[0] if kind == 'bin' else p if kind == 'un' else kind)
                    break
            if dropped:
                col.violation('C02/operation-silently-dropped:%s' % (dropped[1],),
                              '%s on %s = %s but glom returned %s: exactly the value with the %r operation left out'
                              % (rendering, short(t_ref), short(want[1]), short(got.value), dropped[1]), wit)
            else:
                col.violation('C02/value-differs:' + _last_kind(kinds),
                              '%s on %s: Python gives %s, glom %s' % (rendering, short(t_ref), short(want[1]), short(got.value)), wit)
        if t_glom.log != t_ref.log:
            col.violation('C02/argument-evaluation-log-differs',
                          '%s: probe accesses %s (glom) vs %s (reference)' % (rendering, t_glom.log, t_ref.log), wit)
        col.count('probe_accesses', len(t_ref.log))
        if got.ok and any(k != 'lit' and k != '-' for k in arg_kinds(e)):
            check_many_targets(col, e, build, expr, rendering, kinds)
        return

    rf = want[1]
    col.count('failing_cases')
    native = isinstance(rf.exc, NATIVE.get(rf.kind, ()))
    if got.ok:
        col.violation('C02/failure-swallowed:' + rf.kind,
                      '%s on %s: op %d fails in Python with %r, glom returned %s'
                      % (rendering, short(t_ref), rf.pos, rf.exc, short(got.value)), wit)
        return
    exc = got.exc
    if t_glom.log != t_ref.log:
        col.violation('C02/evaluated-past-the-failing-operation' if len(t_glom.log) > len(t_ref.log)
                      else 'C02/argument-evaluation-log-differs',
                      '%s: op %d fails, probe accesses %s (glom) vs %s (reference)'
                      % (rendering, rf.pos, t_glom.log, t_ref.log), wit)
    if native:
        col.count('native_failures')
        if not isinstance(exc, PathAccessError):
            col.violation('C02/failing-op-not-PathAccessError:' + rf.kind,
                          '%s on %s: op %d fails with %r; glom raised %r (not a PathAccessError)'
                          % (rendering, short(t_ref), rf.pos, rf.exc, exc), wit)
            return
        if exc.part_idx != rf.pos:
            col.violation('C02/wrong-position:' + ('in-argument' if rf.in_arg else rf.kind),
                          '%s: op %d fails, PathAccessError.part_idx = %r' % (rendering, rf.pos, exc.part_idx), wit)
        if type(exc.exc) is not type(rf.exc) or exc.exc.args != rf.exc.args:
            col.violation('C02/wrong-underlying-exception:' + rf.kind,
                          '%s: underlying %r, PathAccessError.exc = %r' % (rendering, rf.exc, exc.exc), wit)
    else:
        col.count('non_native_failures')
        if not isinstance(exc, type(rf.exc)):
            col.violation('C02/exception-class-lost:' + rf.kind,
                          '%s: op %d raises %r in Python, glom raised %r' % (rendering, rf.pos, rf.exc, exc), wit)
    if not isinstance(exc, GlomError) and not isinstance(rf.exc, Exception):
        pass


def _perturb(t):
    """a target of the same shape with other values (the same expression usually still evaluates on it)"""
    for k, v in list(t.__dict__.items()):
        if k in ('log', 'h', 'z'):
            continue
        if type(v) is int:
            t.__dict__[k] = v + 1
        elif type(v) is float:
            t.__dict__[k] = v + 1.0
        elif type(v) is str:
            t.__dict__[k] = v + 'q'
        elif type(v) is list:
            t.__dict__[k] = v + [9]
        elif type(v) is tuple:
            t.__dict__[k] = v + (9,)
    return t


def _out_of_memory(exc):
    return isinstance(exc, MemoryError) or 'MemoryError' in type(exc).__name__


def check_many_targets(col, e, build, expr, rendering, kinds):
    """ONE T object evaluated against several different targets inside one glom() call ([expr] over a list of targets, and the
    same object in two values of a dict spec): each evaluation replays the operations on ITS target, nested T arguments
    included - element i equals the direct Python evaluation on target i"""
    try:
        wants = [ref_eval(e, build()), ref_eval(e, _perturb(build())), ref_eval(e, build())]
    except (RefFail, RecursionError, MemoryError):
        col.count('many_target_cases_skipped_reference_fails_on_the_perturbed_target')
        return
    if any(too_big(w) for w in wants):
        # (the perturbed target turned the expression into an astronomically large value: whether it still fits into the memory of
        # this process is not what is being checked)
        col.count('many_target_cases_skipped_value_too_big')
        return
    targets = [build(), _perturb(build()), build()]
    got = call(G, targets, [expr])
    if not got.ok and _out_of_memory(got.exc):
        col.count('many_target_cases_skipped_out_of_memory')
        return
    col.count('many_target_evaluations')
    distinct = not same_value(wants[0], wants[1])
    if distinct:
        col.count('many_target_evaluations_with_distinct_expected_values')
    wit = {'expr': rendering, 'targets': short(targets, 400)}
    if not got.ok or len(got.value) != 3 or not all(same_value(g, w) for g, w in zip(got.value, wants)):
        col.violation('C02/one-expression-on-several-targets-in-one-call:list:' + _last_kind(kinds),
                      'glom([t0, t1, t2], [%s]) gave %s; evaluating the expression on each target directly gives %s'
                      % (rendering, short(got, 400), short(wants, 400)), wit)
        return
    t0, t1 = build(), _perturb(build())
    got = call(G, [t0, t1], {'first': (T[0], expr), 'second': (T[1], expr), 'again': (T[0], expr)})
    if not got.ok and _out_of_memory(got.exc):
        col.count('many_target_cases_skipped_out_of_memory')
        return
    if not got.ok or not (same_value(got.value['first'], wants[0]) and same_value(got.value['second'], wants[1])
                          and same_value(got.value['again'], wants[0])):
        col.violation('C02/one-expression-on-several-targets-in-one-call:dict:' + _last_kind(kinds),
                      'the same T object in three values of one dict spec: %s gave %s, expected first/again = %s, second = %s'
                      % (rendering, short(got, 400), short(wants[0], 200), short(wants[1], 200)), wit)


def _last_kind(kinds):
    return str(kinds[-1]) if kinds else 'attr'


# ---------------------------------------------------------------------------

def systematic(col, rng):
    """every operator alone and every ordered pair, on numeric targets"""
    nums = [7, -3, 12, True, 2.5, Fraction(3, 4)]
    args = [2, 3, -2, 0, 0.5]
    ops = [('bin', (o, None)) for o in BIN] + [('un', '~'), ('un', 'neg')]

    def mk(step, a):
        return ('bin', (step[1][0], Lit(a))) if step[0] == 'bin' else step

    for v in nums:
        def build(v=v):
            return Tgt({'a': v, 'b': 2, 'c': 3, 'd': 0, 'e': 1, 'h': Helper(2), 'n': 2, 'z': 0})
        for s1 in ops:
            for a in args:
                check_expr(col, Expr('a', [mk(s1, a)]), build, 'single')
                if s1[0] == 'un':
                    break
        for s1 in ops:
            for s2 in ops:
                a1, a2 = rng.choice(args[:3]), rng.choice(args[:3])
                check_expr(col, Expr('a', [mk(s1, a1), mk(s2, a2)]), build, 'pair')
        # nested T / Spec argument for every binary operator: evaluated against the original target
        for o in BIN:
            check_expr(col, Expr('a', [('bin', (o, Sub(Expr('n'))))]), build, 'nested')
            check_expr(col, Expr('a', [('bin', ('+', Lit(1))), ('bin', (o, Sub(Expr('n'), wrap=True)))]), build, 'nested')
            check_expr(col, Expr('a', [('bin', (o, Sub(Expr('n', [('bin', ('+', Lit(1)))]))))]), build, 'nested')
    # literal strings and callables are never specs
    def build2():
        return Tgt({'a': {'a.b': 1, 'n': 2, 'k': [1, 2]}, 'b': [10, 20, 30], 'c': 'abc', 'd': (1, 2), 'e': None,
                    'h': Helper(5), 'n': 1, 'z': 0})
    for e in [
        Expr('a', [('item', Lit('a.b'))]), Expr('a', [('item', Lit('n'))]),
        Expr('h', [('attr', 'echo'), ('call', ([Lit('a.b')], []))]),
        Expr('h', [('attr', 'echo'), ('call', ([Lit('n')], []))]),
        Expr('h', [('attr', 'echo'), ('call', ([Lit(len)], []))]),
        Expr('h', [('attr', 'echo'), ('call', ([Sub(Expr('n'))], [('kw', Sub(Expr('b', [('item', Lit(1))])))]))]),
        Expr('h', [('attr', 'echo'), ('call', ([Cont(list, [Sub(Expr('n')), Lit('n')])], []))]),
        Expr('h', [('attr', 'echo'), ('call', ([Cont(dict, [('x', Sub(Expr('n'))), ('y', Lit('n'))])], []))]),
        Expr('b', [('item', Sub(Expr('n')))]), Expr('b', [('item', Sub(Expr('n'), wrap=True))]),
        Expr('b', [('item', Sub(Expr('b', [('item', Lit(0))]), wrap=False))]),
        Expr('b', [('item', Lit(slice(None, None, -1)))]), Expr('b', [('item', Lit(slice(1, None)))]),
        Expr('b', [('item', Lit(5))]), Expr('b', [('item', Lit('x'))]), Expr('a', [('item', Lit('zz'))]),
        Expr('e', [('attr', 'x')]), Expr('e', [('item', Lit(0))]), Expr('c', [('bin', ('+', Lit(1)))]),
        Expr('b', [('item', Lit(0)), ('bin', ('/', Lit(0)))]),
        Expr('b', [('item', Lit(0)), ('bin', ('//', Lit(0)))]),
        Expr('b', [('item', Lit(0)), ('bin', ('%', Lit(0))), ('bin', ('+', Sub(Expr('probe'))))]),
        Expr('h', [('attr', 'boom'), ('call', ([], [])), ('bin', ('+', Sub(Expr('probe'))))]),
        Expr('h', [('attr', 'base'), ('call', ([], []))]),
        Expr('zzz', []), Expr('a', [('item', Sub(Expr('missing_attr')))]),
        Expr('b', [('item', Sub(Expr('b', [('item', Lit(9))])))]),
    ]:
        check_expr(col, e, build2, 'handwritten')


def _scribble(v, seen=None):
    """a caller that modifies, in place, every container of a result it was given"""
    seen = set() if seen is None else seen
    if id(v) in seen:
        return
    seen.add(id(v))
    if type(v) is list:
        for x in v:
            _scribble(x, seen)
        v.append('scribbled')
    elif type(v) is dict:
        for x in list(v.values()):
            _scribble(x, seen)
        v['scribbled'] = True
    elif type(v) is set:
        v.add('scribbled')
    elif type(v) is tuple:
        for x in v:
            _scribble(x, seen)


def literal_arguments_are_per_evaluation(col):
    """a container literal among the arguments of a recorded call is, in direct Python, a fresh object at every evaluation:
    one T object evaluated three times, on fresh targets, with a caller that scribbles over each result in between"""
    def build():
        return Tgt({'a': {'k': [1, 2]}, 'b': [10, 20, 30], 'c': 'abc', 'd': (1, 2), 'e': None, 'h': Helper(5), 'n': 1, 'z': 0})
    echo = lambda args, kwargs=(): Expr('h', [('attr', 'echo'), ('call', (list(args), list(kwargs)))])
    cases = [
        ('empty-list', echo([Cont(list, [])])), ('empty-dict', echo([Cont(dict, [])])),
        ('empty-set', echo([Cont(set, [])])), ('two-empties', echo([Cont(list, []), Cont(dict, [])])),
        ('nested-empty', echo([Cont(list, [Cont(list, []), Cont(dict, [])])])), ('tuple-of-empties', echo([Cont(tuple, [Cont(list, [])])])),
        ('empty-as-keyword', echo([], [('kw', Cont(list, []))])), ('non-empty', echo([Cont(list, [Lit(1), Sub(Expr('n'))])])),
        ('dict-with-empty-values', echo([Cont(dict, [('x', Cont(list, [])), ('y', Lit(0))])])),
        ('get-default-empty-list', Expr('a', [('attr', 'get'), ('call', ([Lit('zz'), Cont(list, [])], []))])),
        ('get-default-empty-dict', Expr('a', [('attr', 'get'), ('call', ([Lit('zz'), Cont(dict, [])], []))])),
        ('setdefault-then-append', Expr('a', [('attr', 'setdefault'), ('call', ([Sub(Expr('c')), Cont(list, [])], [])),
                                              ('attr', 'append'), ('call', ([Sub(Expr('n'))], []))])),
        ('list-plus-empty', Expr('b', [('bin', ('+', Cont(list, [])))])),
        ('index-then-plus-literal', Expr('a', [('item', Lit('k')), ('bin', ('+', Cont(list, [Cont(list, [])])))])),
    ]
    for name, e in cases:
        expr = build_t(e)
        for round_ in range(3):
            t_glom, t_ref = build(), build()
            try:
                want = ('ok', ref_eval(e, t_ref))
            except RefFail as rf:
                want = ('fail', rf)
            got = call(G, t_glom, expr)
            col.count('glom_evaluations')
            col.count('literal_argument_evaluations')
            col.case(('literal-args', name, round_), True)
            ok = got.ok and want[0] == 'ok' and same_value(got.value, want[1]) and same_value(t_glom, t_ref)
            if not ok:
                col.violation('C02/literal-argument-not-rebuilt-per-evaluation:' + name,
                              'evaluation %d of %s: glom gave %s (target now %s); the same operations in Python give %s (target %s)'
                              % (round_ + 1, repr(expr), short(got, 200), short(t_glom, 200),
                                 short(want[1] if want[0] == 'ok' else want[1].exc, 200), short(t_ref, 200)), {'expr': repr(expr)})
                break
            _scribble(got.value)
            _scribble(t_glom.__dict__['a'])


class _CallableDict(dict):
    """a target that is itself callable (a handler table with a default action)"""
    def __call__(self, *a, **kw):
        return ('THE TARGET WAS CALLED', a, kw)


class _HookHolder:
    def collect(self, *a, **k):
        return (a, sorted(k.items()))

    hook = None

    def __call__(self, *a, **kw):
        return ('THE HOLDER WAS CALLED', a, kw)


def values_that_are_specs_are_data(col):
    """"a T or Spec appearing as an index or call argument is first evaluated against the original target": the VALUE that evaluation
    yields is what the operation gets - also when that value is itself a T expression, a Spec, a Val or a container holding one (a
    target that stores specs, e.g. a table of field extractors).  Data is never evaluated a second time."""
    from glom import Spec, Val
    collect = lambda *a, **k: (a, k)
    stored_t, stored_spec, stored_val = T['w'], Spec('w'), Val(3)
    mk = lambda: _CallableDict({'hook': None, 'holder': _HookHolder(), 'f': collect, 'w': 'WVAL', 'vt': stored_t, 'vs': stored_spec, 'vv': stored_val, 'lst': [stored_t], 'dct': {'k': stored_t},
                  'tbl': {stored_t: 'keyed by a T object'}})
    cases = [
        ('call positional <- stored T', lambda: T['f'](T['vt']), lambda t: t['f'](t['vt'])),
        ('call keyword <- stored T', lambda: T['f'](k=T['vt']), lambda t: t['f'](k=t['vt'])),
        ('call positional <- stored Spec', lambda: T['f'](T['vs']), lambda t: t['f'](t['vs'])),
        ('call positional <- stored Val', lambda: T['f'](T['vv']), lambda t: t['f'](t['vv'])),
        ('call positional <- stored list holding a T', lambda: T['f'](T['lst']), lambda t: t['f'](t['lst'])),
        ('call keyword <- stored dict holding a T', lambda: T['f'](k=T['dct']), lambda t: t['f'](k=t['dct'])),
        ('call with a literal list around a nested T', lambda: T['f']([T['vt'], 1]), lambda t: t['f']([t['vt'], 1])),
        ('call <- Spec argument yielding a stored T', lambda: T['f'](Spec('vt')), lambda t: t['f'](t['vt'])),
        ('two calls in a row', lambda: T['f'](T['vt'])[0][0], lambda t: t['f'](t['vt'])[0][0]),
        ('index <- stored T used as key', lambda: T['tbl'][T['vt']], lambda t: t['tbl'][t['vt']]),
        ('method call <- stored T', lambda: T['lst'].index(T['vt']), lambda t: t['lst'].index(t['vt'])),
        ('dict.get default <- stored T', lambda: T['dct'].get('zz', T['vt']), lambda t: t['dct'].get('zz', t['vt'])),
        # ... and the value that is CALLED is data as well: calling None is an error (it does not mean "call the target"), calling
        # a stored T records a call step (as calling any T does), a stored Spec cannot be called
        ('callee is None, the target is callable', lambda: T['hook'](), lambda t: t['hook']()),
        ('callee attribute is None', lambda: T['holder'].hook(1), lambda t: t['holder'].hook(1)),
        ('callee is a stored T', lambda: T['vt']('abc'), lambda t: t['vt']('abc')),
        ('callee is a stored Spec', lambda: T['vs']('abc'), lambda t: t['vs']('abc')),
        ('callee is a stored Val', lambda: T['vv'](), lambda t: t['vv']()),
    ]
    # keyword arguments are the caller's: any name is passed on, also names the library uses for parameters of its own
    for kw in ('func', 'args', 'kwargs', 'target', 'scope', 'spec', 'cls', 't', 'path', 'default', 'skip_exc', 'glom', 'T', 'op', 'arg', 'cur'):
        cases.append(('call keyword named %s' % kw, (lambda kw=kw: T['f'](1, **{kw: T['w']})), (lambda t, kw=kw: t['f'](1, **{kw: t['w']}))))
        cases.append(('method call keyword named %s' % kw, (lambda kw=kw: T['holder'].collect(**{kw: 2})), (lambda t, kw=kw: t['holder'].collect(**{kw: 2}))))
    # "every other argument is passed through literally": a class is a literal - also the library's own spec classes and a user's
    # class that has a glomit method (they are specs only once instantiated)
    import glom as _g

    class UserSpecClass:
        def glomit(self, target, scope):
            return 'evaluated!'

    class UserSpecClassCM:
        @classmethod
        def glomit(cls, target, scope):
            return 'evaluated!'
    for c in (_g.Spec, _g.Path, _g.Coalesce, _g.Val, _g.Check, _g.Match, _g.Iter, _g.Fill, _g.Auto, _g.Call, _g.Invoke, _g.Or, _g.Not, _g.Ref, _g.Flatten,
              _g.Assign, UserSpecClass, UserSpecClassCM, int, dict):
        nm = c.__name__
        cases.append(('call positional literal class %s' % nm, (lambda c=c: T['f'](c)), (lambda t, c=c: t['f'](c))))
        cases.append(('call keyword literal class %s' % nm, (lambda c=c: T['f'](k=c)), (lambda t, c=c: t['f'](k=c))))
        cases.append(('call literal tuple of classes %s' % nm, (lambda c=c: T['f']((c, int), [c], {'k': c})), (lambda t, c=c: t['f']((c, int), [c], {'k': c}))))
        cases.append(('index literal class %s' % nm, (lambda c=c: T['bycls'][c]), (lambda t, c=c: t['bycls'][c])))
        cases.append(('isinstance against literal classes %s' % nm, (lambda c=c: T['isinstance'](T['w'], (c, str))), (lambda t, c=c: isinstance(t['w'], (c, str)))))
    base_mk = mk
    all_classes = (_g.Spec, _g.Path, _g.Coalesce, _g.Val, _g.Check, _g.Match, _g.Iter, _g.Fill, _g.Auto, _g.Call, _g.Invoke, _g.Or, _g.Not, _g.Ref, _g.Flatten,
                   _g.Assign, UserSpecClass, UserSpecClassCM, int, dict)

    def mk():
        t = base_mk()
        t['bycls'] = {c: 'entry of %s' % c.__name__ for c in all_classes}
        t['isinstance'] = isinstance
        return t
    for desc, mk_spec, py in cases:
        t = mk()
        want = call(py, t)
        got = call(G, t, mk_spec())
        col.case(('stored-specs-are-data', desc), True)
        col.count('glom_evaluations')
        col.count('arguments_whose_value_is_a_spec_object')
        ok = got.ok == want.ok and (not got.ok or _same_deep(got.value, want.value) or
                                    (type(want.value) is type(T) and type(got.value) is type(T) and repr(got.value) == repr(want.value)))
        if not want.ok and not got.ok and 'callee' in desc and not isinstance(got.exc, type(want.exc)):
            ok = False
        if not ok:
            col.violation(('C02/keyword-argument-not-passed-on:' if 'keyword named' in desc else 'C02/literal-class-argument-not-passed-literally:'
                           if 'literal' in desc and 'class' in desc else 'C02/argument-value-evaluated-again:') + desc.split(' <-')[0].replace(' ', '-'),
                          '%s: glom gives %r, the same operations applied directly give %r' % (desc, got, want), None)


def call_arguments_are_evaluated_before_the_call(col):
    """as in Python, where f(x) evaluates x before it tries to call f: when the value reached so far cannot be called, a T / Spec
    argument has nevertheless been evaluated (observed through a counting callable), and when that argument itself fails, ITS failure
    is what surfaces (target['n'](target['missing']) raises the KeyError, not "int is not callable")"""
    from glom import Spec, PathAccessError
    seen = []

    def counting(t):
        seen.append('arg')
        return 1
    cases = [
        ('positional', lambda: T['n'](T['missing'])), ('keyword', lambda: T['n'](k=T['missing'])),
        ('second positional', lambda: T['n'](1, T['missing'])), ('inside a list literal', lambda: T['n']([T['missing']])),
        ('after an attribute step', lambda: T['o'].attr(T['missing'])), ('Spec argument', lambda: T['n'](Spec('missing'))),
        ('None is not callable either', lambda: T['none'](T['missing'])),
    ]
    for desc, mk in cases:
        t = {'n': 5, 'none': None, 'o': Helper(1)}
        try:
            if 'attr' in desc:
                t['o'].attr = 'a string'
        except Exception:
            continue
        got = call(G, t, mk())
        col.case(('args-before-call', desc), True)
        col.count('glom_evaluations')
        col.count('failing_cases')
        if got.ok or not isinstance(got.exc, PathAccessError) or not isinstance(got.exc.exc, KeyError):
            col.violation('C02/argument-failure-hidden-by-a-later-failure-of-the-call', '%s with a non-callable value and a failing argument: %r; '
                          "evaluated directly the argument fails first (KeyError('missing'))" % (desc, got), None)
    for desc, mk in (('positional', lambda: T['n'](Spec(counting))), ('keyword', lambda: T['n'](k=Spec(counting))),
                     ('callable value', lambda: T['f'](Spec(counting))), ('callable value, twice', lambda: T['f'](Spec(counting), Spec(counting)))):
        del seen[:]
        got = call(G, {'n': 5, 'f': lambda *a, **k: len(a) + len(k)}, mk())
        col.case(('args-before-call', 'observed', desc), True)
        col.count('glom_evaluations')
        want_n = 2 if 'twice' in desc else 1
        if len(seen) != want_n:
            col.violation('C02/call-argument-evaluated-%s' % ('more-than-once' if len(seen) > want_n else 'not-at-all'),
                          '%s: the argument spec ran %d times (outcome %r), expected %d' % (desc, len(seen), got, want_n), None)


def _same_deep(a, b):
    """identity for spec-like leaves (T objects define == structurally only on Path), equality + type elsewhere"""
    if type(a) is not type(b):
        return False
    if isinstance(a, (tuple, list)):
        return len(a) == len(b) and all(_same_deep(x, y) for x, y in zip(a, b))
    if isinstance(a, dict):
        return list(a) == list(b) and all(_same_deep(a[k], b[k]) for k in a)
    if hasattr(a, 'glomit') or type(a) is type(T):
        return a is b
    return a == b


class _Record:
    """attribute and item access implemented with glom over wrapped data"""
    def __init__(self, data):
        self.data = data

    @property
    def title(self):
        return G(self.data, 'meta.title')

    def __getitem__(self, key):
        return G(self.data, Path('fields', key))


def operations_implemented_with_glom(col):
    """the step of THIS expression that fails is what the error names, also when the operation's own implementation (a property, a
    __getitem__) uses glom and fails with a PathAccessError of its own: that inner error is carried, like any other"""
    ok_rec = lambda: _Record({'meta': {'title': 'T1'}, 'fields': {'n': 5, 'sub': {'x': 1}}})
    bad_rec = lambda: _Record({'meta': {}, 'fields': {}})
    cases = [
        ('property succeeds', ok_rec, lambda: T.title, 'T1'), ('item succeeds', ok_rec, lambda: T['n'], 5), ('item then item', ok_rec, lambda: T['sub']['x'], 1),
        ('property fails at step 0', bad_rec, lambda: T.title, ('pae', 0)), ('property fails at step 1', lambda: {'r': bad_rec()}, lambda: T['r'].title, ('pae', 1)),
        ('property fails, later steps recorded', lambda: {'r': bad_rec()}, lambda: T['r'].title.upper(), ('pae', 1)),
        ('item fails at step 0', bad_rec, lambda: T['n'], ('pae', 0)), ('item fails at step 2', lambda: {'a': {'r': bad_rec()}}, lambda: T['a']['r']['n'].real, ('pae', 2)),
        ('item fails inside a Path', lambda: {'r': bad_rec()}, lambda: Path('r', T['n']), ('pae', 1)),
        ('property fails inside a Path', lambda: {'r': bad_rec()}, lambda: Path(T['r'].title, 'x'), ('pae', 1)),
        ('failing item as an argument', lambda: {'r': bad_rec(), 'f': (lambda v: v)}, lambda: T['f'](T['r']['n']), ('pae', 1)),
    ]
    for desc, mk_t, mk_spec, want in cases:
        spec = mk_spec()
        got = call(G, mk_t(), spec)
        col.case(('operation-implemented-with-glom', desc), True)
        col.count('glom_evaluations')
        if isinstance(want, tuple):
            col.count('failing_cases')
            inner = getattr(got.exc, 'exc', None) if not got.ok else None
            ok = (not got.ok) and isinstance(got.exc, PathAccessError) and got.exc.part_idx == want[1] and isinstance(inner, PathAccessError) and inner is not got.exc
        else:
            ok = got.ok and got.value == want
        if not ok:
            col.violation('C02/failing-operation-implemented-with-glom-not-reported-at-its-own-position', '%s: glom(.., %r) gives %r%s ; expected %s'
                          % (desc, spec, got, '' if got.ok or not isinstance(got.exc, PathAccessError) else ' (part_idx %r, path %r)' % (got.exc.part_idx, got.exc.path),
                             repr(want) if not isinstance(want, tuple) else 'a PathAccessError at position %d of this expression, carrying the inner one' % want[1]), None)


def run(ctx):
    col, rng = ctx.col, ctx.rng
    col.require('glom_evaluations', 500)
    col.require('failing_cases', 20)
    col.require('native_failures', 10)
    col.require('many_target_evaluations_with_distinct_expected_values', 100)
    if ctx.shard == 0:
        systematic(col, rng)
        literal_arguments_are_per_evaluation(col)
        values_that_are_specs_are_data(col)
        call_arguments_are_evaluated_before_the_call(col)
        operations_implemented_with_glom(col)
    for i in range(ctx.n(15000, 80000)):
        build = target_recipe(rng)
        e = gen_expr(rng, build, want_fail=rng.random() < 0.4)
        check_expr(col, e, build, 'random')
