"""C16 - Group builds exactly the buckets and aggregates of a hand-written loop.

Oracle: `ref_group`, an explicit bucketing loop over the check's own description of
the spec tree (ordered dicts, first-occurrence key order, encounter order of values).
A second model, `DefectModel`, reproduces the one known wrong behaviour (F13: a leaf
of an already existing bucket answering STOP stops the whole key level); a mismatch
is the known finding iff glom's result equals that model's prediction, anything else
is an ordinary violation.
Histories: every spec object is evaluated twice on different inputs, once more on
the first input, and nested inside another evaluation.
"""
import operator
import functools
from collections import OrderedDict

from .. import env
from ..util import call
from ..report import short

glom = env.bind()
from glom import T, SKIP, STOP, Auto, Iter, Sum, Flatten, Merge, Pipe, glom as G  # noqa: E402
from glom.grouping import Group, First, Max, Min, Avg, Limit   # noqa: E402
from glom.reduction import Count   # noqa: E402

META = {
    'level': 'exploration',
    'rule': ('item sequences (ints, (k, v) tuples, dicts; duplicates; adversarial orders where an item for an already '
             'filled First bucket precedes the first item of another bucket) x Group spec trees with 1-3 key levels over '
             'key functions (T expressions, callables, SKIP-producing callables, two key specs in one level) and leaves '
             '[value_spec], [v1, v2], First, Max, Min, Avg, Sum, Count, Flatten, Merge, Auto(value) and top-level '
             'Limit(n[, subspec]); each spec object evaluated on input A, on input B, again on A, and nested inside a '
             'list spec and inside another Group. Non-trivial: >= 2 buckets or >= 2 key levels; distinct by (tree shape, '
             'key-function kinds, leaf kind, item kind, number of buckets, order class).'),
    'assumptions': [
        'empty inputs, Sample (random by design) and STOP produced by value specs are outside the statement; a value spec in a [..] leaf may answer SKIP (the value is not collected) - whether such an item still opens its bucket is not stated, both loops are accepted',
        'two key specs in one level produce disjoint keys',
    ],
}


# ---------------------------------------------------------------------------
# own description of a Group spec tree
#   ('dict', [(keydesc, node), ...]) | ('list', [valdesc, ...]) | ('agg', name) | ('aggsub', name) |
#   ('auto', valdesc) | ('limit', n, node)
# keydesc / valdesc: (name, python function, glom spec)

def key_fns(item_kind, rng, tagged=False):
    wrap = (lambda k: ('b', k)) if tagged else (lambda k: k)
    if item_kind == 'int':
        m = rng.choice([2, 3, 4])
        pool = [
            ('T%%%d' % m, lambda t: wrap(t % m), (T % m) if not tagged else (lambda t: ('b', t % m))),
            ('fn%%%d' % m, lambda t: wrap(t % m), lambda t: wrap(t % m)),
            ('bitlen', lambda t: wrap(t.bit_length()), (T.bit_length()) if not tagged else (lambda t: ('b', t.bit_length()))),
            ('skip-small', lambda t: SKIP if t < 2 else wrap(t % m), lambda t: SKIP if t < 2 else wrap(t % m)),
            ('skip-odd', lambda t: SKIP if t % 2 else wrap(t // 2 % m), lambda t: SKIP if t % 2 else wrap(t // 2 % m)),
            ('const', lambda t: wrap('all'), lambda t: wrap('all')),
            # keys that are EQUAL (and hash alike) but of different types: 1 / 1.0 / True and 0 / 0.0 / False are two buckets
            ('equal-keys-of-mixed-types', lambda t: wrap(((0, 0.0, False), (1, 1.0, True))[t % 2][t // 2 % 3]),
             lambda t: wrap(((0, 0.0, False), (1, 1.0, True))[t % 2][t // 2 % 3])),
        ]
    elif item_kind == 'tuple':
        pool = [
            ('T[0]', lambda t: wrap(t[0]), T[0] if not tagged else (lambda t: ('b', t[0]))),
            ('fn[0]', lambda t: wrap(t[0]), lambda t: wrap(t[0])),
            ('T[1]%2', lambda t: wrap(t[1] % 2), (T[1] % 2) if not tagged else (lambda t: ('b', t[1] % 2))),
            ('skip-x', lambda t: SKIP if t[0] == 'x' else wrap(t[0]), lambda t: SKIP if t[0] == 'x' else wrap(t[0])),
        ]
    elif item_kind == 'seq':
        pool = [
            ('len', lambda t: wrap(len(t)), (lambda t: wrap(len(t)))),
            ('len%2', lambda t: wrap(len(t) % 2), (lambda t: wrap(len(t) % 2))),
            ('skip-empty', lambda t: SKIP if not t else wrap(t[0] % 2), lambda t: SKIP if not t else wrap(t[0] % 2)),
        ]
    else:
        pool = [
            ("T['k']", lambda t: wrap(t['k']), T['k'] if not tagged else (lambda t: ('b', t['k']))),
            ("path k", lambda t: wrap(t['k']), Auto('k') if not tagged else (lambda t: ('b', t['k']))),
            ("fn v%2", lambda t: wrap(t['v'] % 2), lambda t: wrap(t['v'] % 2)),
            ("skip-x", lambda t: SKIP if t['k'] == 'x' else wrap(t['k']), lambda t: SKIP if t['k'] == 'x' else wrap(t['k'])),
            # grouping by type: the bucket key is the class `dict` itself (any hashable is a key)
            ("type", lambda t: wrap(type(t)), (lambda t: wrap(type(t))) if tagged else type),
        ]
    if item_kind == 'seq' and not tagged and rng.random() < 0.2:
        return ("type", lambda t: type(t), type)      # (the bucket key is the class `list`)
    return rng.choice(pool)


def val_fns(item_kind, rng, allow_skip=False):
    if allow_skip and rng.random() < 0.15:
        # a value spec that answers SKIP for some items: that value is not collected.  Whether such an item still opens its
        # bucket is not stated by the property; both loops are accepted (see ref_group's `opens`)
        if item_kind == 'int':
            return rng.choice([('skip-neg-else-T', lambda t: SKIP if t < 0 else t, lambda t: SKIP if t < 0 else t),
                               ('skip-even-else-T', lambda t: SKIP if t % 2 == 0 else t, lambda t: SKIP if t % 2 == 0 else t),
                               ('skip-all', lambda t: SKIP, lambda t: SKIP)])
        if item_kind == 'tuple':
            return ('skip-a-else-T[1]', lambda t: SKIP if t[0] == 'a' else t[1], lambda t: SKIP if t[0] == 'a' else t[1])
        if item_kind == 'seq':
            return ('skip-empty-else-len', lambda t: SKIP if not t else len(t), lambda t: SKIP if not t else len(t))
        return ("skip-b-else-v", lambda t: SKIP if t['k'] == 'b' else t['v'], lambda t: SKIP if t['k'] == 'b' else t['v'])
    if item_kind == 'int':
        return rng.choice([('T', lambda t: t, T), ('T*2', lambda t: t * 2, T * 2), ('fn', lambda t: (t, 'v'), lambda t: (t, 'v'))])
    if item_kind == 'tuple':
        return rng.choice([('T', lambda t: t, T), ('T[1]', lambda t: t[1], T[1]), ('fn', lambda t: t[::-1], lambda t: t[::-1])])
    if item_kind == 'seq':
        # (reductions under Auto inside the Group reduce the ITEM they are given; they are not the bucket's aggregator)
        return rng.choice([('T', lambda t: t, T), ('len', len, len), ('Auto(Sum())', lambda t: sum(t), Auto(Sum())),
                           ('Auto((T, Count()))', lambda t: len(t), Auto((T, Count())))])
    return rng.choice([('T', lambda t: t, T), ("T['v']", lambda t: t['v'], T['v']), ("auto v", lambda t: t['v'], Auto('v'))])


def leaf(item_kind, rng, first_ok=True):
    choices = ['list', 'list', 'list2', 'auto']
    if first_ok:
        choices += ['First']
    if item_kind == 'int':
        choices += ['Max', 'Min', 'Avg', 'Sum', 'Count']
    elif item_kind == 'tuple':
        choices += ['Max', 'Min', 'Count', 'Sum[1]']
    elif item_kind == 'seq':
        choices += ['Flatten-t', 'Flatten-t', 'Count', 'Max']
    else:
        choices += ['Count', "Sum['v']", 'Merge']
    c = rng.choice(choices)
    if c == 'list':
        return ('list', [val_fns(item_kind, rng, True)])
    if c == 'list2':
        return ('list', [val_fns(item_kind, rng, True), val_fns(item_kind, rng, True)])
    if c == 'auto':
        return ('auto', val_fns(item_kind, rng))
    return ('agg', c)


def gen_tree(item_kind, rng, levels, first_ok=True):
    if levels == 0:
        return leaf(item_kind, rng, first_ok)
    entries = [(key_fns(item_kind, rng), gen_tree(item_kind, rng, levels - 1, first_ok))]
    if rng.random() < 0.15:
        entries.append((key_fns(item_kind, rng, tagged=True), gen_tree(item_kind, rng, levels - 1, first_ok)))
    return ('dict', entries)


def build_spec(node):
    kind = node[0]
    if kind == 'dict':
        return {kd[2]: build_spec(sub) for kd, sub in node[1]}
    if kind == 'list':
        return [vd[2] for vd in node[1]]
    if kind == 'auto':
        return Auto(node[1][2]) if not callable(node[1][2]) or hasattr(node[1][2], 'glomit') or type(node[1][2]) is type(T) else node[1][2]
    if kind == 'limit':
        return Limit(node[1]) if node[2] is None else Limit(node[1], build_spec(node[2]))
    name = node[1]
    return {'First': First, 'Max': Max, 'Min': Min, 'Avg': Avg, 'Sum': Sum, 'Count': Count,
            'Sum[1]': lambda: Sum(T[1]), "Sum['v']": lambda: Sum(T['v']), 'Flatten-t': Flatten, 'Merge': Merge}[name]()


def describe(node):
    kind = node[0]
    if kind == 'dict':
        return '{' + ', '.join('%s: %s' % (kd[0], describe(sub)) for kd, sub in node[1]) + '}'
    if kind == 'list':
        return '[' + ', '.join(vd[0] for vd in node[1]) + ']'
    if kind == 'auto':
        return 'Auto(%s)' % node[1][0]
    if kind == 'limit':
        return 'Limit(%d, %s)' % (node[1], describe(node[2]) if node[2] is not None else '[T]')
    return node[1] + '()'


def shape(node):
    kind = node[0]
    if kind == 'dict':
        return ('D',) + tuple((kd[0].split('%')[0], shape(sub)) for kd, sub in node[1])
    if kind == 'list':
        return ('L', len(node[1]))
    if kind == 'limit':
        return ('Lim', shape(node[2]) if node[2] is not None else None)
    if kind == 'auto':
        return ('auto',)
    return (node[1],)


def has_first_under_key(node, under=False):
    kind = node[0]
    if kind == 'dict':
        return any(has_first_under_key(sub, True) for _, sub in node[1])
    if kind == 'limit':
        return node[2] is not None and has_first_under_key(node[2], under)
    return kind == 'agg' and node[1] == 'First' and under


# ---------------------------------------------------------------------------
# reference: the hand-written loop

def agg_ref(name, items):
    if name == 'First':
        return items[0]
    if name == 'Max':
        return max(items)
    if name == 'Min':
        return min(items)
    if name == 'Avg':
        return sum(items, 0.0) / len(items)
    if name == 'Sum':
        return functools.reduce(operator.iadd, items, 0)
    if name == 'Count':
        return len(items)
    if name == 'Sum[1]':
        return functools.reduce(operator.iadd, [t[1] for t in items], 0)
    if name == "Sum['v']":
        return functools.reduce(operator.iadd, [t['v'] for t in items], 0)
    if name == 'Flatten-t':
        return functools.reduce(operator.iadd, items, [])
    if name == 'Merge':
        out = {}
        for d in items:
            out.update(d)
        return out
    raise AssertionError(name)


def contributes(item, node):
    """does the item leave anything in the result (reading B of a SKIPped value: an item whose values are all SKIPped is dropped
    before it opens a bucket)"""
    kind = node[0]
    if kind == 'dict':
        return any(kd[1](item) is not SKIP and contributes(item, sub) for kd, sub in node[1])
    if kind == 'list':
        return any(vd[1](item) is not SKIP for vd in node[1])
    if kind == 'limit':
        return node[2] is None or contributes(item, node[2])
    return True


def ref_group(items, node, opens='routed'):
    """opens: 'routed' - an item opens its bucket when it is routed there; 'kept' - only when a value of it is kept"""
    kind = node[0]
    if kind == 'dict':
        streams = OrderedDict()
        for item in items:
            for kd, sub in node[1]:
                k = kd[1](item)
                if k is SKIP:
                    continue
                if opens == 'kept' and not contributes(item, sub):
                    continue
                if k not in streams:
                    streams[k] = (sub, [])
                streams[k][1].append(item)
        return {k: ref_group(its, sub, opens) for k, (sub, its) in streams.items()}
    if kind == 'list':
        return [v for item in items for v in (vd[1](item) for vd in node[1]) if v is not SKIP]
    if kind == 'auto':
        return node[1][1](items[-1])
    if kind == 'limit':
        sub = node[2] if node[2] is not None else ('list', [('T', lambda t: t, T)])
        return ref_group(items[:node[1]], sub, opens)
    return agg_ref(node[1], items)


def has_skipping_value(node):
    kind = node[0]
    if kind == 'dict':
        return any(has_skipping_value(sub) for _, sub in node[1])
    if kind == 'list':
        return any(vd[0].startswith('skip-') for vd in node[1])
    if kind == 'limit':
        return node[2] is not None and has_skipping_value(node[2])
    return False


class DefectModel:
    """item-by-item accumulator tree with the STOP propagation glom has today"""
    def run(self, items, node):
        state = {}
        ret = {} if node[0] == 'dict' else [] if node[0] == 'list' else None
        for item in items:
            last, ret = ret, self.step(item, node, state)
            if ret is STOP:
                return last
        return ret

    def step(self, item, node, tree):
        kind = node[0]
        if kind == 'dict':
            acc = tree.setdefault(('acc', id(node)), {})
            done = True
            for i, (kd, sub) in enumerate(node[1]):
                if tree.get(('stop', i)):
                    continue
                k = kd[1](item)
                if k is SKIP:
                    done = False
                    continue
                if k not in acc:
                    tree[('k', k)] = {}
                result = self.step(item, sub, tree[('k', k)])
                if result is STOP:
                    tree[('stop', i)] = True
                    continue
                done = False
                acc[k] = result
            return STOP if done else acc
        if kind == 'list':
            acc = tree.setdefault(('acc', id(node)), [])
            for vd in node[1]:
                v = vd[1](item)
                if v is not SKIP:
                    acc.append(v)
            return acc
        if kind == 'auto':
            return node[1][1](item)
        if kind == 'limit':
            st = tree.setdefault('limit', [0, {}])
            st[0] += 1
            if st[0] > node[1]:
                return STOP
            sub = node[2] if node[2] is not None else ('list', [('T', lambda t: t, T)])
            return self.step(item, sub, st[1])
        name = node[1]
        if name == 'First':
            if 'first' in tree:
                return STOP
            tree['first'] = True
            return item
        seen = tree.setdefault('items', [])
        seen.append(item)
        return agg_ref(name, seen)


# ---------------------------------------------------------------------------
# items

def gen_items(rng, kind, n, adversarial):
    if kind == 'int':
        items = [rng.randint(-6, 12) for _ in range(n)]
    elif kind == 'tuple':
        items = [(rng.choice('abx'), rng.randint(0, 9)) for _ in range(n)]
    elif kind == 'seq':
        items = [[rng.randint(0, 9) for _ in range(rng.randint(0, 3))] for _ in range(n)]
        # (the sequences routed to a Flatten / Count leaf need not be lists: tuples, ranges)
        r = rng.random()
        if r < 0.15:
            items = [tuple(it) for it in items]
        elif r < 0.3:
            items = [range(it[0], it[0] + len(it)) if it else range(0) for it in items]
    else:
        items = [{'k': rng.choice('abx'), 'v': rng.randint(0, 9)} for _ in range(n)]
    if kind == 'tuple' and rng.random() < 0.0:
        pass
    if adversarial and n >= 3:
        # make sure an early repeat precedes a late newcomer: x, x', y
        items.sort(key=repr)
        if rng.random() < 0.5:
            items.reverse()
    return items


def flatten_items(rng, n):
    return [[rng.randint(0, 9) for _ in range(rng.randint(0, 3))] for _ in range(n)]


def same(a, b):
    """equal with the same dict key order and container types"""
    if type(a) is not type(b):
        return False
    if isinstance(a, dict):
        return list(a.keys()) == list(b.keys()) and all(same(a[k], b[k]) for k in a)
    if isinstance(a, (list, tuple)):
        return len(a) == len(b) and all(same(x, y) for x, y in zip(a, b))
    return a == b


def judge(col, node, items, got, context, wit):
    """compare one glom result with the loop reference; classify mismatches"""
    want = call(ref_group, items, node)
    col.count('glom_evaluations')
    if not want.ok:
        # e.g. max() of incomparable items: reference fails, glom must fail too
        if got.ok:
            col.violation('C16/reference-fails-glom-succeeds', '%s on %s: reference raised %r, glom returned %s'
                          % (describe(node), short(items), want.exc, short(got.value)), wit)
        return False
    if got.ok and same(got.value, want.value):
        return True
    if got.ok and has_skipping_value(node):
        col.count('trees_with_a_value_spec_that_skips')
        alt = call(ref_group, items, node, 'kept')
        if alt.ok and same(got.value, alt.value):
            return True
    if got.ok and has_first_under_key(node):
        pred = call(DefectModel().run, items, node)
        col.count('defect_model_consulted')
        if pred.ok and same(got.value, pred.value):
            col.violation('C16/leaf-stop-stops-all-buckets',
                          '%s on %s%s: loop gives %s, glom %s (First in a filled bucket stopped the whole key level)'
                          % (describe(node), short(items), context, short(want.value), short(got.value)), wit)
            return False
    leafs = _leaf_names(node)
    col.violation('C16/differs-from-loop:%s%s' % ('+'.join(sorted(leafs)), context.split(' ')[0] if context else ''),
                  'Group(%s) on %s%s: loop gives %s, glom %r' % (describe(node), short(items), context, short(want.value), got), wit)
    return False


def _leaf_names(node):
    kind = node[0]
    if kind == 'dict':
        out = set()
        for _, sub in node[1]:
            out |= _leaf_names(sub)
        return out
    if kind == 'limit':
        return {'Limit'} | (_leaf_names(node[2]) if node[2] is not None else set())
    return {node[1] if kind == 'agg' else kind}


def one_case(col, rng):
    item_kind = rng.choice(['int', 'int', 'tuple', 'dict', 'seq'])
    levels = rng.choice([0, 1, 1, 2, 2, 3])
    node = gen_tree(item_kind, rng, levels)
    top_limit = rng.random() < 0.2
    if top_limit:
        node = ('limit', rng.randint(1, 6), node if rng.random() < 0.7 else None)
    mk_items = lambda n, adv: gen_items(rng, item_kind, n, adv)
    adversarial = rng.random() < 0.5
    a = mk_items(rng.randint(1, 9), adversarial)
    b = mk_items(rng.randint(1, 9), adversarial)
    spec_obj = Group(build_spec(node))
    desc = describe(node)
    if has_skipping_value(node):
        col.count('group_trees_whose_value_spec_skips_some_items')
    nbuckets = len({repr(node[1][0][0][1](i)) for i in a}) if node[0] == 'dict' else 0
    col.case((shape(node), item_kind, min(nbuckets, 4), adversarial), nbuckets >= 2 or levels >= 2)
    wit = {'spec': desc, 'a': short(a), 'b': short(b)}
    if col.want_sample('group'):
        col.sample({'spec': 'Group(%s)' % desc, 'items': short(a), 'loop_result': short(call(ref_group, a, node))}, 'group')
    # history: A, B, A again with one spec object
    for label, items in (('', a), (' (2nd evaluation, other input)', b), (' (3rd evaluation)', a)):
        got = call(G, list(items), spec_obj)
        if not judge(col, node, items, got, label, wit):
            return
    col.count('reuse_histories')
    # the items may arrive through a one-shot iterable (an iterator, a generator, a map object, the lazy result of an Iter step): the
    # group is the loop over what that iterable yields - every item, the first one included, exactly once
    src = rng.choice(['iter', 'generator', 'map', 'Iter-step', 'Iter-filter-step', 'tuple'])
    feed = {'iter': lambda: (iter(list(a)), spec_obj), 'generator': lambda: ((x for x in list(a)), spec_obj), 'map': lambda: (map(lambda x: x, list(a)), spec_obj),
            'Iter-step': lambda: (list(a), (Iter(), spec_obj)), 'Iter-filter-step': lambda: (list(a), (Iter().filter(lambda x: True), spec_obj)),
            'tuple': lambda: (tuple(a), spec_obj)}[src]
    tgt, sp = feed()
    got = call(G, tgt, sp)
    col.count('one_shot_sources')
    if not judge(col, node, a, got, ' (items from a one-shot source: %s)' % src, wit):
        return
    # nested: the same spec object evaluated once per element of a list, within one glom call
    got = call(G, [list(a), list(b), list(a)], [spec_obj])
    col.count('nested_evaluations')
    if got.ok and len(got.value) == 3:
        for items, part in zip((a, b, a), got.value):
            if not judge(col, node, items, call(lambda: part), ' (nested in a list spec)', wit):
                return
    else:
        judge(col, node, a, got if not got.ok else call(lambda: None), ' (nested in a list spec)', wit)
        return
    # nested inside the value spec of another Group (via Auto): per outer bucket the last item's inner result
    outer_items = [{'g': rng.choice('pq'), 'items': list(x)} for x in (a, b, a, b)[:rng.randint(2, 4)]]
    got = call(G, outer_items, Group({T['g']: Auto(('items', spec_obj))}))
    col.count('nested_evaluations')
    expect_last = {}
    for oi in outer_items:
        expect_last[oi['g']] = oi['items']
    if got.ok and isinstance(got.value, dict) and list(got.value) == list(expect_last):
        for g, items in expect_last.items():
            if not judge(col, node, items, call(lambda: got.value[g]), ' (nested in another Group)', wit):
                return
    else:
        col.violation('C16/nested-in-group-shape', 'Group nested in Group gave %r' % got, wit)


def systematic(col):
    """the documented examples and the adversarial First orders, exhaustively for small inputs"""
    import itertools
    node = ('dict', [(('T%2', lambda t: t % 2, T % 2), ('agg', 'First'))])
    for items in itertools.product(range(3), repeat=3):
        items = list(items)
        col.case(('first-orders', tuple(i % 2 for i in items)), True)
        judge(col, node, items, call(G, items, Group(build_spec(node))), '', {'items': items})
    for name in ['Max', 'Min', 'Avg', 'Sum', 'Count']:
        node = ('dict', [(('T%3', lambda t: t % 3, T % 3), ('agg', name))])
        for items in itertools.permutations([0, 1, 2, 3, 4, 5], 4):
            col.case(('agg-orders', name, tuple(i % 3 for i in items)), True)
            judge(col, node, list(items), call(G, list(items), Group(build_spec(node))), '', {'items': items})
    # zero-like running aggregates followed by smaller / larger items (falsy accumulator values)
    for name in ['Max', 'Min', 'Sum', 'Avg', 'First', 'Count']:
        for keyname, keyfn, keyspec in [('const', lambda t: 'all', lambda t: 'all'), ('sign', lambda t: t >= 0, lambda t: t >= 0)]:
            node = ('dict', [((keyname, keyfn, keyspec), ('agg', name))])
            for items in itertools.permutations([-3, -1, 0, 0.0, 2], 3):
                col.case(('agg-zero', name, keyname, items), True)
                judge(col, node, list(items), call(G, list(items), Group(build_spec(node))), '', {'items': items})
            bare = ('agg', name)
            for items in itertools.permutations([-2, 0, -5, False], 3):
                col.case(('agg-zero-bare', name, items), True)
                judge(col, bare, list(items), call(G, list(items), Group(build_spec(bare))), '', {'items': items})
    for n in range(1, 6):
        for node in [('limit', n, None), ('limit', n, ('dict', [(('T%2', lambda t: t % 2, T % 2), ('list', [('T', lambda t: t, T)]))])),
                     ('limit', n, ('agg', 'Max'))]:
            items = [3, 1, 4, 1, 5, 9, 2, 6][:rng_len(n)]
            col.case(('limit', n, shape(node)), True)
            judge(col, node, items, call(G, items, Group(build_spec(node))), '', {'items': items})


def reentrant_same_object(col, rng):
    """the SAME Group object evaluated again while an evaluation of it is still running (recursion over tree data)"""
    def mk_tree(depth):
        return [{'v': rng.randint(-3, 6), 'kids': mk_tree(depth - 1) if depth > 0 and rng.random() < 0.7 else []}
                for _ in range(rng.randint(1, 3))]
    for leafkind in ('list', 'sum', 'max'):
        for _ in range(15):
            holder = {}

            def rec(n):
                if n['kids']:
                    return G(n['kids'], holder['spec'])
                return n['v']

            def total(n):
                return n['v'] + (sum(flat(G(n['kids'], holder['spec']))) if n['kids'] else 0)

            def flat(d):
                out = []
                for v in (d.values() if isinstance(d, dict) else d):
                    out.extend(flat(v) if isinstance(v, (dict, list)) else [v])
                return out
            if leafkind == 'list':
                holder['spec'] = Group({lambda n: n['v'] % 2: [rec]})

                def ref(items):
                    out = {}
                    for n in items:
                        out.setdefault(n['v'] % 2, []).append(ref(n['kids']) if n['kids'] else n['v'])
                    return out
            elif leafkind == 'sum':
                holder['spec'] = Group({lambda n: n['v'] % 2: Sum(total)})

                def ref(items):
                    out = {}
                    for n in items:
                        sub = sum(flat(ref(n['kids']))) if n['kids'] else 0
                        out[n['v'] % 2] = out.get(n['v'] % 2, 0) + n['v'] + sub
                    return out
            else:
                holder['spec'] = Group({lambda n: n['v'] % 2: Max(), 'deep': [lambda n: G(n['kids'], holder['spec']) if n['kids'] else None]}) \
                    if False else Group({lambda n: n['v'] % 2: [lambda n: (n['v'], G(n['kids'], holder['spec']) if n['kids'] else None)]})

                def ref(items):
                    out = {}
                    for n in items:
                        out.setdefault(n['v'] % 2, []).append((n['v'], ref(n['kids']) if n['kids'] else None))
                    return out
            tree = mk_tree(3)
            got = call(G, tree, holder['spec'])
            want = call(ref, tree)
            col.case(('reentrant', leafkind), True)
            col.count('nested_evaluations')
            if not got.ok or not want.ok or not same(got.value, want.value):
                col.violation('C16/state-shared-between-overlapping-evaluations:' + leafkind,
                              'one Group object evaluated recursively on %s: glom %s ; loop %s' % (short(tree, 300), short(got, 300), short(want, 300)), None)
                return


def nested_in_aggregator(col, rng):
    """a Group inside the sub-spec of a Sum / Flatten / Merge / Count leaf of another Group aggregates over ITS OWN items"""
    for _ in range(25):
        rows = [{'k': rng.choice('ab'), 'rows': [[rng.randint(0, 9)] * rng.randint(1, 2) for _ in range(rng.randint(1, 3))],
                 'nums': [rng.randint(0, 9) for _ in range(rng.randint(1, 4))]} for _ in range(rng.randint(1, 5))]
        cases = [
            ('flatten-in-flatten', Group({T['k']: Flatten(Pipe(T['rows'], Group(Flatten())))}),
             lambda: _bucket(rows, lambda r: [x for sub in r['rows'] for x in sub], lambda acc, v: acc + v, [])),
            ('sum-in-sum', Group({T['k']: Sum(Pipe(T['nums'], Group(Sum())))}),
             lambda: _bucket(rows, lambda r: sum(r['nums']), lambda acc, v: acc + v, 0)),
            ('count-in-flatten', Group({T['k']: Flatten(Pipe(T['nums'], Group([Count()])))}),
             lambda: _bucket(rows, lambda r: list(range(1, len(r['nums']) + 1)), lambda acc, v: acc + v, [])),
            ('group-dict-in-sum', Group({T['k']: Sum(Pipe(T['nums'], Group({T % 2: Count()}), len))}),
             lambda: _bucket(rows, lambda r: len({n % 2 for n in r['nums']}), lambda acc, v: acc + v, 0)),
        ]
        for name, spec, ref in cases:
            got = call(G, rows, spec)
            want = call(ref)
            col.case(('nested-in-aggregator', name), True)
            col.count('nested_evaluations')
            if not got.ok or not want.ok or not same(got.value, want.value):
                col.violation('C16/group-nested-in-aggregator-subspec:' + name, '%s on %s: glom %s ; loop %s' % (name, short(rows, 300), short(got, 300), short(want, 300)), None)


def _bucket(rows, inner, fold, init):
    out = {}
    for r in rows:
        k = r['k']
        v = inner(r)
        if isinstance(init, list) and name_is_flatten(v):
            pass
        out[k] = fold(out[k], v) if k in out else fold(type(init)(init) if isinstance(init, list) else init, v)
    return out


def name_is_flatten(v):
    return False


def partial_orders(col):
    """Max / Min over values that are only partially ordered (nan, sets by inclusion): Python's max() / min() keep the earlier value"""
    import itertools
    nan = float('nan')
    pools = [[1.0, nan, 0.5], [nan, 1.0, 2.0], [frozenset([1]), frozenset([2]), frozenset([1, 2])], [(1, nan), (1, 0.0), (0, 5.0)]]
    for pool in pools:
        for items in itertools.permutations(pool):
            for name in ('Max', 'Min'):
                node = ('agg', name)
                got = call(G, list(items), Group(build_spec(node)))
                want = (max if name == 'Max' else min)(items)
                col.case(('partial-order', name, repr(items)), True)
                col.count('glom_evaluations')
                same_v = got.ok and (got.value is want or got.value == want or (got.value != got.value and want != want))
                if not same_v:
                    col.violation('C16/differs-from-loop:%s:partially-ordered-values' % name, 'Group(%s()) on %r: %s() gives %r, glom %r' % (name, items, name.lower(), want, got), None)


def rng_len(n):
    return 8 if n % 2 else 3


def empty_results_are_per_evaluation(col):
    """a Group spec evaluated on an input that yields nothing (empty sequence, every item SKIPped) returns an EMPTY container of
    its own each time: what the caller does to one result shows up in no later (or nested sibling) evaluation"""
    skip_all = lambda t: SKIP
    specs = [('dict', lambda: Group({T % 2: [T]}), {}), ('list', lambda: Group([T]), []), ('dict-skip-all', lambda: Group({skip_all: [T]}), {}),
             ('nested', lambda: Group({T % 2: {T % 3: [T]}}), {})]
    for name, mk, empty in specs:
        spec = mk()
        results = []
        for n in range(3):
            items = [] if name != 'dict-skip-all' else [1, 2, 3]
            got = call(G, items, spec)
            col.case(('empty-result', name, n), True)
            col.count('glom_evaluations')
            if not got.ok or got.value != empty or any(got.value is r for r in results):
                col.violation('C16/empty-result-shared-between-evaluations', 'evaluation #%d of one Group object (%s) on %r: %r, expected a fresh %r'
                              % (n + 1, name, items, got, empty), None)
                break
            results.append(got.value)
            if isinstance(got.value, dict):
                got.value['MUTATED-BY-CALLER'] = 1
            else:
                got.value.append('MUTATED-BY-CALLER')
    # nested: one inner Group object evaluated once per (empty) row
    inner = Group([T])
    got = call(G, [[], [], [5]], [inner])
    col.count('glom_evaluations')
    if not got.ok or got.value != [[], [], [5]] or got.value[0] is got.value[1]:
        col.violation('C16/empty-result-shared-between-evaluations', '[Group([T])] over [[], [], [5]]: %r (first two the same object: %s)'
                      % (got, got.ok and got.value[0] is got.value[1]), None)


def aggregator_object_in_both_roles_and_type_keys(col):
    """(1) one aggregator object used as a plain reduction and as a Group leaf, in either order and again: a plain use folds
    its target, a leaf use folds each bucket.  (2) grouping items that include classes by `type`: the bucket key `type` (the
    class of a class) is a key like any other"""
    from glom import Sum, Flatten
    from glom.reduction import Count
    for name, mk, items, plain_want, leaf_want in (
            ('Sum', lambda: Sum(), [1, 2, 3], 6, {1: 4, 0: 2}), ('Count', lambda: Count(), [1, 2, 3], 3, {1: 2, 0: 1})):
        for order in (('plain', 'leaf', 'plain', 'leaf'), ('leaf', 'plain', 'leaf')):
            agg = mk()
            for i, role in enumerate(order):
                got = call(G, items, agg) if role == 'plain' else call(G, items, Group({T % 2: agg}))
                want = plain_want if role == 'plain' else leaf_want
                col.case(('both-roles', name, order, i), True)
                col.count('glom_evaluations')
                if not got.ok or got.value != want:
                    col.violation('C16/aggregator-object-remembers-an-earlier-role', 'one %s object used as %s: use #%d (%s) gave %r, expected %r'
                                  % (name, ' then '.join(order), i + 1, role, got, want), None)
                    break
    items = [1, int, 'a', str, 2.5, float, 2]
    for desc, spec, want in (('{type: [T]}', Group({type: [T]}), {int: [1, 2], type: [int, str, float], str: ['a'], float: [2.5]}),
                             ('{type: Count()}', Group({type: Count()}), {int: 2, type: 3, str: 1, float: 1}),
                             ('{callable: {type: [T]}}', Group({callable: {type: [T]}}), {False: {int: [1, 2], str: ['a'], float: [2.5]}, True: {type: [int, str, float]}})):
        for n in (1, 2):
            got = call(G, items, spec)
            col.case(('type-keys-with-classes', desc, n), True)
            col.count('glom_evaluations')
            if not got.ok or got.value != want or list(got.value) != list(want):
                col.violation('C16/grouping-by-type-with-class-items', 'Group(%s) over %r (evaluation #%d): %r, a loop gives %r' % (desc, items, n, got, want), None)
                break


def items_that_are_equal_but_keyed_apart_and_empty_items(col):
    """every item is routed by what the key specs yield for THAT item: items that are equal and hash alike (1, True, 1.0; 0.0, -0.0) but
    that the key tells apart, keys that depend on the position of the item; and leaves fed only empty items (empty mappings to a Merge,
    empty lists to a Flatten) hold the empty result, like the loop"""
    import itertools as it
    items = [1, True, 1.0, 0, False, 0.0, -0.0, 1, True]

    def loop1(key):
        out = {}
        for x in items:
            out.setdefault(key(x), []).append(x)
        return out

    def same_typed(a, b):
        if type(a) is not type(b):
            return False
        if isinstance(a, dict):
            return list(map(repr, a)) == list(map(repr, b)) and all(same_typed(a[k], b[k]) for k in a)
        if isinstance(a, list):
            return len(a) == len(b) and all(same_typed(x, y) for x, y in zip(a, b))
        return repr(a) == repr(b)
    cases = [('key type', lambda: Group({type: [T]}), loop1(type)), ('key repr', lambda: Group({repr: [T]}), loop1(repr)),
             ('key T.hex() for floats', None, None),
             ('two levels: type then repr', lambda: Group({type: {repr: [T]}}), {t: {r: [x for x in items if type(x) is t and repr(x) == r] for r in dict.fromkeys(repr(x) for x in items if type(x) is t)}
                                                                                 for t in dict.fromkeys(type(x) for x in items)}),
             ('key type, leaf First', lambda: Group({type: First()}), {t: next(x for x in items if type(x) is t) for t in dict.fromkeys(type(x) for x in items)}),
             ('key type, leaf Count', lambda: Group({type: Count()}), {t: sum(1 for x in items if type(x) is t) for t in dict.fromkeys(type(x) for x in items)})]
    for desc, mk, want in cases:
        if mk is None:
            fl = [0.0, -0.0, 0.0, 1.0, -0.0]
            got = call(G, fl, Group({T.hex(): [T]}))
            want = {}
            for x in fl:
                want.setdefault(x.hex(), []).append(x)
        else:
            got = call(G, list(items), mk())
        col.case(('equal-items-keyed-apart', desc), True)
        col.count('glom_evaluations')
        if not (got.ok and same_typed(got.value, want)):
            col.violation('C16/equal-items-routed-alike-although-the-key-differs', '%s over %r: %r ; the loop gives %r' % (desc, items, got, want), None)
    # a key that depends on the position (chunking by a counter) over repeated values
    for n in (4, 7):
        c = it.count()
        got = call(G, [5] * n, Group({(lambda x: next(c) // 2): [T]}))
        want = {}
        for i in range(n):
            want.setdefault(i // 2, []).append(5)
        col.case(('positional-key', n), True)
        col.count('glom_evaluations')
        if not (got.ok and got.value == want):
            col.violation('C16/equal-items-routed-alike-although-the-key-differs', 'chunking %r by a counting key: %r ; the loop gives %r' % ([5] * n, got, want), None)
    empties = [('Group(Merge()) over empty mappings first', [{}, {}, {'a': 1}], lambda: Group(Merge()), {'a': 1}),
               ('Group(Merge()) over only empty mappings', [{}, {}], lambda: Group(Merge()), {}),
               ('Group({len: Merge()})', [{}, {'a': 1}, {}], lambda: Group({len: Merge()}), {0: {}, 1: {'a': 1}}),
               ('Group(Limit(2, Merge()))', [{}, {}, {'a': 1}], lambda: Group(Limit(2, Merge())), {}),
               ('Group({len: Flatten()})', [[], [1], []], lambda: Group({len: Flatten()}), {0: [], 1: [1]}),
               ('Group(Flatten()) over only empty lists', [[], []], lambda: Group(Flatten()), []),
               ('Group({bool: Sum()}) over zeros', [0, 0, 3], lambda: Group({bool: Sum()}), {False: 0, True: 3})]
    for desc, data, mk, want in empties:
        got = call(G, data, mk())
        col.case(('empty-items', desc), True)
        col.count('glom_evaluations')
        if not (got.ok and got.value == want and type(got.value) is type(want)):
            col.violation('C16/differs-from-loop:leaf-fed-only-empty-items', '%s over %r: %r ; the loop gives %r' % (desc, data, got, want), None)


def run(ctx):
    col, rng = ctx.col, ctx.rng
    col.require('glom_evaluations', 1000)
    col.require('reuse_histories', 100)
    col.require('nested_evaluations', 100)
    if ctx.shard == 0:
        systematic(col)
        reentrant_same_object(col, rng)
        nested_in_aggregator(col, rng)
        partial_orders(col)
        empty_results_are_per_evaluation(col)
        aggregator_object_in_both_roles_and_type_keys(col)
        items_that_are_equal_but_keyed_apart_and_empty_items(col)
    for i in range(ctx.n(3000, 30000)):
        one_case(col, rng)
