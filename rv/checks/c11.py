"""C11 - assign obeys the lens laws and fails atomically.  (fault enumeration)

Twin technique: every target recipe is built twice; glom edits twin A, the reference
(`mutmodel.ref_assign`, plain nested item/attribute assignment with glom's access
rules for the parent path) edits twin B.  Success: same object returned, A isomorphic
to B, reading the path back yields the value, factory call count = absent segments.
Failure (prefix stops existing, immutable container, read-only property, injected
__setitem__/__setattr__ fault at any segment, raising factory): an exception must be
raised and A's deep structure+identity snapshot must be unchanged.
"""
from collections import OrderedDict
import sys
import json
import subprocess

from .. import env, gen
from ..util import call
from ..report import short
from ..snapshot import snapshot, isomorphic, first_diff
from ..mutmodel import ref_assign, RefError, FaultDict, FaultList, FaultObj, Boom, access

glom = env.bind()
from glom import T, S, Path, Spec, Assign, assign, GlomError, Val, Coalesce, glom as G  # noqa: E402

META = {
    'level': 'fault_enumeration',
    'rule': ('target recipes (dict, OrderedDict, list, attribute and slot objects, dict/list subclasses, tuples / namedtuples / scalars '
             'at any depth, fault-injecting containers) x every destination obtained by walking the target (overwrite) or by replacing '
             'the segment at each position k with an absent one followed by new segments (insert / prefix stops existing) x spellings '
             '(dotted string, Path, T[..], T.attr, mixtures, S-rooted item style) x values (scalars, opaque object, list/dict literals '
             'with T leaves, Spec/T values, self-referential list) x missing in {None, dict, list, OrderedDict, object factory, counting '
             'factory, factory raising on its 1st/2nd call} x faults armed at the final segment or at the break point (raising '
             '__setitem__/__setattr__, read-only property, immutable container). Non-trivial: path length >= 2; distinct by (type '
             'sequence, spelling, value kind, missing kind, fault kind, break position).'),
    'assumptions': [
        'for injected faults only "raises and target unchanged" is demanded, not the exception class',
        'S-rooted destinations are generated in the documented item style S[name][k]...',
        'list/dict literal values are rebuilt by glom (argument mode): compared by isomorphism, opaque objects by identity',
    ],
}


class Opaque:
    def __init__(self, tag):
        self.tag = tag

    def __repr__(self):
        return 'Opaque(%s)' % self.tag


class CountFactory:
    def __init__(self, make, raise_on=None, name='factory'):
        self.make, self.raise_on, self.calls, self.__name__ = make, raise_on, 0, name

    def __call__(self):
        self.calls += 1
        if self.raise_on == self.calls:
            raise Boom('factory call %d' % self.calls)
        return self.make()

    def __repr__(self):
        return '<%s>' % self.__name__


def factories(rng):
    k = rng.choice(['none', 'none', 'dict', 'dict', 'list', 'odict', 'obj', 'raise1', 'raise2'])
    if k == 'none':
        return k, None, None
    mk = {'dict': dict, 'list': list, 'odict': OrderedDict, 'obj': gen.PlainObj, 'raise1': dict, 'raise2': dict}[k]
    ro = {'raise1': 1, 'raise2': 2}.get(k)
    return k, CountFactory(mk, ro, k), CountFactory(mk, ro, k)


def spell_steps(rng, segs, nodes, spelling):
    """[(style, arg)] for raw segments; nodes[i] is the object segment i applies to (None = absent)"""
    steps = []
    for seg, node in zip(segs, nodes):
        if spelling in ('string', 'path'):
            steps.append(('P', str(seg) if spelling == 'string' else seg))
        else:
            use_t = spelling == 'T' or rng.random() < 0.5
            if not use_t:
                steps.append(('P', seg))
            elif node is not None and not isinstance(node, (dict, list, tuple)) and isinstance(seg, str) and seg.isidentifier():
                steps.append(('.', seg))
            elif node is None and isinstance(seg, str) and seg.isidentifier() and rng.random() < 0.3:
                steps.append(('.', seg))
            else:
                steps.append(('[', seg))
    return steps


def stringable(segs):
    return all((isinstance(s, str) and s and '.' not in s and s not in ('*', '**')) or
               (isinstance(s, int) and not isinstance(s, bool) and s >= 0) for s in segs)


def make_path(steps, spelling):
    if spelling == 'string':
        return '.'.join(a for _, a in steps)
    t_only = all(st != 'P' for st, _ in steps)
    parts = []
    for st, a in steps:
        parts.append(a if st == 'P' else (getattr(T, a) if st == '.' else T[a]))
    if t_only and spelling == 'T':
        t = T
        for st, a in steps:
            t = getattr(t, a) if st == '.' else t[a]
        return t
    return Path(*parts)


def gen_value(rng):
    k = rng.choice(['scalar', 'scalar', 'opaque', 'list', 'dict', 'spec', 'texpr', 'selfref', 'tleaves', 'subclass-dict', 'subclass-list',
                    'tuple-tleaves', 'frozenset-tleaves', 'plain-tuple', 'selfref-tleaves', 'shared-sub-tleaves', 'whole-target', 'whole-target-in-list', 'val-holding-a-T'])
    return k


class StatefulList(list):
    """a list subclass instance with state of its own"""
    def __init__(self, items, label):
        list.__init__(self, items)
        self.label = label


_STORED_T = T['zz_not_a_key_of_anything']['deeper']


def make_value(kind, rng_state_val, target):
    """returns (value to hand to glom, value the reference should store) for one twin"""
    if kind == 'scalar':
        return rng_state_val, rng_state_val
    if kind == 'opaque':
        return rng_state_val, rng_state_val
    if kind == 'subclass-dict':
        # instances of container SUBCLASSES are values like any other object: stored as they are, not rebuilt
        from collections import defaultdict
        return defaultdict(list, {'x': [1]}), defaultdict(list, {'x': [1]})
    if kind == 'subclass-list':
        return StatefulList([1, 2], 'tagged'), StatefulList([1, 2], 'tagged')
    if kind == 'list':
        return [1, [2, 3]], [1, [2, 3]]
    if kind == 'dict':
        return {'x': 1, 'y': {'z': 2}}, {'x': 1, 'y': {'z': 2}}
    # Spec / T values are evaluated against the target (before the edit): here its type name
    tname = type(target).__name__
    if kind == 'spec':
        return Spec(lambda t: type(t).__name__), tname
    if kind == 'texpr':
        return T.__('class__').__('name__'), tname
    if kind == 'selfref':
        a = [1]; a.append(a)
        b = [1]; b.append(b)
        return a, b
    if kind == 'whole-target':
        # the value T is the target itself: what is stored is THAT object (a cycle), however many levels had to be created on the way
        return T, target
    if kind == 'whole-target-in-list':
        return [T, 'lit'], [target, 'lit']
    if kind == 'val-holding-a-T':
        # Val(x) is x, unevaluated - also when x looks like a spec, and also when levels are created for the destination
        return Val(_STORED_T), _STORED_T
    if kind == 'selfref-tleaves':
        # a value that contains itself AND leaves that are evaluated (each T leaf is an evaluation of its own, in the middle of
        # rebuilding the value)
        a = [T.__('class__').__('name__'), {'again': T.__('class__').__('name__')}]; a.append(a); a[1]['up'] = a
        b = [tname, {'again': tname}]; b.append(b); b[1]['up'] = b
        return a, b
    if kind == 'shared-sub-tleaves':
        # one sub-container referenced twice: it stays ONE container in what is stored
        sa = [T.__('class__').__('name__'), 'lit']
        sb = [tname, 'lit']
        return {'p': sa, 'q': sa, 'r': [sa]}, {'p': sb, 'q': sb, 'r': [sb]}
    if kind == 'tuple-tleaves':
        # T / Spec leaves are evaluated whatever the outermost container of the value is: a tuple, a tuple in a tuple ...
        return (T.__('class__').__('name__'), ('lit', Spec(lambda t: type(t).__name__))), (tname, ('lit', tname))
    if kind == 'frozenset-tleaves':
        return frozenset([T.__('class__').__('name__'), 'lit']), frozenset([tname, 'lit'])
    if kind == 'plain-tuple':
        return (1, ('two', None)), (1, ('two', None))
    if kind == 'tleaves':
        return {'root': T.__('class__').__('name__'), 'lst': [T.__('class__').__('name__'), 'lit']}, {'root': tname, 'lst': [tname, 'lit']}
    raise AssertionError(kind)


def arm_fault(obj, name, style):
    """make the container raise when `name` is assigned; returns fault kind or None"""
    if isinstance(obj, FaultDict):
        obj.fail = (name,)
        return 'raising-setitem'
    if isinstance(obj, FaultList):
        try:
            obj.fail = (int(name),)
        except (TypeError, ValueError):
            return None
        return 'raising-setitem'
    if isinstance(obj, FaultObj):
        obj.__dict__['_fail'] = (name,)
        return 'raising-setattr'
    return None


def follow(root, segs):
    cur = root
    for s in segs:
        cur = dict(gen.children(cur))[s] if not isinstance(cur, (list, tuple)) else cur[s]
    return cur


def one_target(col, rng):
    shared = []
    recipe = gen.gen_recipe(rng, rng.randint(1, 4), path_only_keys=False, width=3, shared=shared, faults=True)
    if recipe[0] in ('leaf', 'ref'):
        recipe = ('dict', [('a', recipe)])
    probe = gen.build(recipe, {}, shared)
    # all valid (segs, nodes) of the target
    paths = []
    stack = [([], [probe])]
    while stack and len(paths) < 200:
        segs, nodes = stack.pop()
        if len(segs) >= 5:
            continue
        for seg, child in gen.children(nodes[-1]):
            item = (segs + [seg], nodes + [child])
            paths.append(item)
            stack.append(item)
    paths.append(([], [probe]))
    rng.shuffle(paths)
    for segs, nodes in paths[:8]:
        plan_cases(col, rng, recipe, shared, segs, nodes)


def plan_cases(col, rng, recipe, shared, segs, nodes):
    # (1) overwrite an existing element
    if segs:
        run_case(col, rng, recipe, shared, segs, len(segs), 'overwrite')
    # (2) insert a new element below every node of the path; (3) prefix stops existing at every k
    for k in range(len(segs) + 1):
        node = nodes[k]
        # (sequences: positions just past either end, far out, and the negative range one length further down - plain Python
        # refuses them all; -len is the first element)
        newseg = 'zz_new' if not isinstance(node, (list, tuple)) else \
            rng.choice([len(node), 99, 'x9', -len(node) - 1, -2 * len(node) or -2, -2 * len(node) - 1, -len(node) or -1, -len(node) - 2])
        if isinstance(node, gen.SlotObj):
            newseg = rng.choice(['p', 'q', 'r', 'zz_new'])
        if rng.random() < 0.7:
            run_case(col, rng, recipe, shared, segs[:k] + [newseg], k, 'insert')
        tail = [rng.choice(['m1', 'm2', 0, 'm3']) for _ in range(rng.randint(1, 3))]
        if rng.random() < 0.7:
            run_case(col, rng, recipe, shared, segs[:k] + [newseg] + tail, k, 'deep-missing')


def run_case(col, rng, recipe, shared, segs, k_exist, purpose):
    """segs[:k_exist] exist in the target; the rest is new"""
    A = gen.build(recipe, {}, shared)
    B = gen.build(recipe, {}, shared)
    nodesA = [A]
    for s in segs[:k_exist]:
        try:
            nodesA.append(dict(gen.children(nodesA[-1]))[s] if not isinstance(nodesA[-1], (list, tuple)) else nodesA[-1][s])
        except (KeyError, IndexError, TypeError):
            return
    node_seq = nodesA[:len(segs)] + [None] * max(0, len(segs) - len(nodesA))
    spelling = rng.choice(['string', 'path', 'mixed', 'T'])
    if spelling == 'string' and not stringable(segs):
        spelling = 'path'
    steps = spell_steps(rng, segs, node_seq, spelling)
    if not steps:
        return
    path = make_path(steps, spelling)
    vkind = gen_value(rng)
    sval = rng.choice([5, 'new', None, 2.5]) if vkind == 'scalar' else Opaque(rng.randint(0, 99))
    valA, _ = make_value(vkind, sval, A)
    _, valB = make_value(vkind, sval, B)
    fkind, facA, facB = factories(rng)
    # fault injection: arm the container that will receive the assignment (final segment or break point)
    fault = None
    if rng.random() < 0.35:
        idx = min(k_exist, len(segs) - 1)
        holderA = nodesA[idx] if idx < len(nodesA) else None
        if holderA is not None:
            holderB = B
            for s in segs[:idx]:
                holderB = dict(gen.children(holderB))[s] if not isinstance(holderB, (list, tuple)) else holderB[s]
            name = steps[idx][1]
            fault = arm_fault(holderA, name, steps[idx][0])
            arm_fault(holderB, name, steps[idx][0])
    if purpose == 'overwrite' and isinstance(nodesA[-2] if len(nodesA) > 1 else None, FaultObj) and rng.random() < 0.2:
        pass
    types = tuple(type(n).__name__ for n in nodesA)
    col.case((types, spelling, vkind, fkind, fault, purpose, k_exist), len(segs) >= 2)
    snapA = snapshot(A)
    try:
        ref_assign(B, steps, valB, facB)
        want = ('ok', None)
    except RefError as e:
        want = ('fail', e)
    except RecursionError:
        return
    got = call(assign, A, path, valA, missing=facA) if rng.random() < 0.5 else call(G, A, Assign(path, valA, missing=facA))
    col.count('assignments_attempted')
    desc = 'assign(%s, %s, %s%s)' % (short(gen.build(recipe, {}, shared), 200), short(path), vkind,
                                     '' if facA is None else ', missing=%s' % fkind)
    wit = {'call': desc, 'steps': short(steps), 'fault': fault, 'purpose': purpose}
    skind = 'ok' if want[0] == 'ok' else 'fail'
    if col.want_sample(skind + ':' + purpose):
        col.sample({'call': desc, 'purpose': purpose, 'fault': fault,
                    'reference': 'succeeds' if want[0] == 'ok' else repr(want[1])}, skind + ':' + purpose)
    last_style = steps[-1][0]
    if want[0] == 'ok':
        col.count('successful_edits')
        if not got.ok:
            col.violation('C11/possible-assignment-raises:%s:%s' % (purpose, _dest_kind(nodesA, k_exist, segs)),
                          '%s: plain Python can do it, glom raised %r' % (desc, got.exc), wit)
            return
        if got.value is not A:
            col.violation('C11/returns-other-object', '%s returned %s' % (desc, short(got.value)), wit)
        if not isomorphic(A, B):
            col.violation('C11/effect-differs-from-plain-assignment:%s:%s' % (purpose, _dest_kind(nodesA, k_exist, segs)),
                          '%s: after glom %s ; after plain Python %s' % (desc, short(A, 400), short(B, 400)), wit)
            return
        if vkind in ('opaque', 'subclass-dict', 'subclass-list'):
            back = call(_read_back, A, steps)
            if not back.ok or back.value is not (sval if vkind == 'opaque' else valA):
                col.violation('C11/read-back-is-not-the-value' + ('' if vkind == 'opaque' else ':container-subclass-instance'),
                              '%s: reading the path back gives %r (a %s with state %r), not the object that was assigned'
                              % (desc, back, type(back.value).__name__ if back.ok else '-',
                                 getattr(back.value, 'default_factory', getattr(back.value, 'label', None)) if back.ok else None), wit)
        if facA is not None:
            col.count('factory_counts_checked')
            if facA.calls != facB.calls:
                col.violation('C11/factory-call-count', '%s: factory called %d times, %d segments were absent'
                              % (desc, facA.calls, facB.calls), wit)
        # existing intermediates keep their identity
        for n in nodesA[1:]:
            pass
        now = [A]
        ok_ident = True
        for s, old in zip(segs[:k_exist], nodesA[1:]):
            try:
                cur = dict(gen.children(now[-1]))[s] if not isinstance(now[-1], (list, tuple)) else now[-1][s]
            except Exception:
                break
            now.append(cur)
        for old, cur in zip(nodesA[1:k_exist], now[1:k_exist]):
            if old is not cur:
                ok_ident = False
        if not ok_ident:
            col.violation('C11/existing-intermediate-replaced', '%s replaced an existing intermediate value' % desc, wit)
    else:
        col.count('failing_edits')
        if fault:
            col.count('faults_injected')
        if got.ok:
            after = snapshot(A)
            col.violation('C11/impossible-assignment-succeeds:%s' % want[1].stage,
                          '%s: plain Python fails (%r), glom returned; target %s'
                          % (desc, want[1], 'changed: ' + str(first_diff(snapA, after)) if after != snapA else 'unchanged'), wit)
            return
        after = snapshot(A)
        if after != snapA:
            col.violation('C11/not-atomic:%s:%s' % (want[1].stage, fkind if facA is not None else 'no-missing'),
                          '%s raised %r but the target changed: %s' % (desc, got.exc, first_diff(snapA, after)), wit)
        if not isinstance(got.exc, Exception):
            col.violation('C11/non-exception', repr(got.exc), wit)


def _dest_kind(nodesA, k_exist, segs):
    idx = min(k_exist, len(segs) - 1)
    if idx < len(nodesA):
        n = nodesA[idx]
        if isinstance(n, dict):
            return 'dict' if type(n) in (dict, OrderedDict) else 'dict-subclass'
        if isinstance(n, list):
            return 'list' if type(n) is list else 'list-subclass'
        if isinstance(n, tuple):
            return 'tuple'
        return 'object' if hasattr(n, '__dict__') or hasattr(type(n), '__slots__') else 'scalar'
    return 'created'


def _read_back(root, steps):
    cur = root
    for st, a in steps:
        cur = access(cur, st, a)
    return cur


def s_rooted(col, rng):
    """destinations rooted at the scope, in the documented item style"""
    for _ in range(20):
        keys = [rng.choice(['x', 'y', 'z']) for _ in range(rng.randint(1, 3))]
        exist = rng.randint(0, len(keys) - 1)

        def mkbox():
            box = {}
            cur = box
            for k in keys[:exist]:
                cur[k] = {}
                cur = cur[k]
            return box
        boxA, boxB = mkbox(), mkbox()
        t = S['box']
        for k in keys:
            t = t[k]
        fac = CountFactory(dict, None, 'dict') if rng.random() < 0.7 else None
        target = {'v': rng.randint(0, 9)}
        col.case(('s-rooted', len(keys), exist, fac is not None), len(keys) >= 2)
        col.count('assignments_attempted')
        scope = {'box': boxA}
        got = call(G, target, Assign(t, T['v'], missing=fac), scope=scope)
        try:
            ref_assign(boxB, [('[', k) for k in keys], target['v'], (lambda: {}) if fac else None)
            want_ok = True
        except RefError:
            want_ok = False
        wit = {'dest': short(t), 'box': short(mkbox()), 'missing': fac is not None}
        if want_ok:
            col.count('successful_edits')
            if not got.ok:
                col.violation('C11/s-rooted-assignment-raises', 'Assign(%s, T[v], missing=%s) with box %s raised %r'
                              % (short(t), fac, short(mkbox()), got.exc), wit)
            elif got.value is not target or boxA != boxB:
                col.violation('C11/s-rooted-missing-tail' if fac else 'C11/s-rooted-effect-differs',
                              'Assign(%s, T[v], missing=%s): box is %s, plain Python gives %s; scope keys now %s'
                              % (short(t), fac, short(boxA), short(boxB), sorted(map(str, scope))), wit)
            elif set(scope) != {'box'}:
                col.violation('C11/s-rooted-writes-caller-scope', 'caller scope dict gained keys: %s' % sorted(map(str, scope)), wit)
        else:
            col.count('failing_edits')
            if got.ok or boxA != mkbox():
                col.violation('C11/s-rooted-not-atomic', 'Assign(%s) without missing: %r, box %s' % (short(t), got, short(boxA)), wit)


def wildcard_order(col, rng):
    """a path containing wildcards assigns at every match, in order"""
    for _ in range(10):
        n = rng.randint(1, 5)
        log = []
        entries = [gen.LogDict(k=i) for i in range(n)]
        for e in entries:
            e._log = log
        target = {'rows': entries}
        got = call(assign, target, 'rows.*.k', 'NEW')
        sets = [(i, k) for op, i, k in log if op == 'setitem']
        col.case(('wildcard-order', n), True)
        col.count('assignments_attempted')
        if not got.ok or sets != [(id(e), 'k') for e in entries] or any(e['k'] != 'NEW' for e in entries):
            col.violation('C11/wildcard-assignment-order', "assign(.., 'rows.*.k') on %d rows: %r; setitem log %s"
                          % (n, got, [k for _, _, k in log]), None)


def recursive_wildcard_order(col, rng):
    """'**' lists a value and then its descendants level by level (breadth first): a destination '**.key' assigns in that order - seen
    by containers that record their item assignments, and by what is already assigned when the k-th match refuses the assignment"""
    def tree(depth, log, order_out, width):
        node = gen.LogDict()
        node._log = log
        if depth > 0:
            for i in range(rng.randint(0, width)):
                dict.__setitem__(node, 'c%d' % i, tree(depth - rng.randint(1, 2), log, order_out, width))
        return node

    def bfs(root):
        out, queue = [], [root]
        while queue:
            n = queue.pop(0)
            out.append(n)
            queue.extend(v for v in dict.values(n) if isinstance(v, dict))
        return out
    for rep in range(16):
        log = []
        root = tree(rng.randint(2, 4), log, None, 3)
        nodes = bfs(root)
        spec = ['**.flag', Path(T.__starstar__(), 'flag'), T.__starstar__()['flag']][rep % 3]
        got = call(assign, root, spec, 'NEW')
        sets = [i for op, i, k in log if op == 'setitem' and k == 'flag']
        col.case(('recursive-wildcard-order', len(nodes), rep % 3), True)
        col.count('assignments_attempted')
        if not got.ok or sets != [id(n) for n in nodes]:
            pos = {id(n): j for j, n in enumerate(nodes)}
            col.violation('C11/wildcard-assignment-order:recursive', "assign(.., %s, 'NEW') over a tree of %d dicts of uneven depth: %r; the dicts were "
                          "assigned in the order %s of their breadth-first numbering" % (short(spec), len(nodes), got if not got.ok else 'returned',
                                                                                         [pos.get(i, '?') for i in sets]), None)
    # the k-th match refuses: everything before it in that order is assigned, nothing after it
    for shape in range(6):
        deep = {'x': {'y': {}}}
        t = [{'a': deep, 'b': (), 'c': {}}, {'a': {'x': {}}, 'b': {'z': ()}, 'c': {'w': {}}}, {'p': {'q': {'r': {}}}, 's': 5, 'u': {}}][shape % 3]
        import copy
        t = copy.deepcopy(t)
        got = call(assign, t, '**.flag' if shape < 3 else Path(T.__starstar__(), 'flag'), 1)
        # expected state: walk breadth first, assign until the first value that cannot take an item
        want = copy.deepcopy(t)
        for d_ in _all_dicts(want):
            d_.pop('flag', None)
        queue = [want]
        while queue:
            n = queue.pop(0)
            if not isinstance(n, dict):
                break
            queue.extend(list(n.values()))
            n['flag'] = 1
        col.case(('recursive-wildcard-fault', shape), True)
        col.count('assignments_attempted')
        if got.ok or t != want:
            col.violation('C11/wildcard-assignment-order:recursive-refused-at-the-kth-match', "assign(.., '**.flag', 1): %r ; target now %r, assigning in "
                          "breadth-first order up to the first refusal gives %r" % (got if got.ok else type(got.exc).__name__, t, want), None)


def _all_dicts(v):
    if isinstance(v, dict):
        yield v
        for x in list(v.values()):
            yield from _all_dicts(x)


class _AttrTuple(tuple):
    """a tuple subclass whose instances have a __dict__"""


def sequences_that_refuse_assignment(col):
    """a plain segment / T[index] on an instance of a tuple subclass is an item assignment the tuple refuses: an error, and neither the
    tuple nor its attribute namespace changes - through assign(), Assign specs and a Glommer alike"""
    from glom import Glommer, Assign
    gl, gl_plain = Glommer(), Glommer(register_default_types=True)
    runners = [('assign()', lambda t, p, v, **kw: assign(t, p, v, **kw)), ('Glommer().glom(Assign)', lambda t, p, v, **kw: gl.glom(t, Assign(p, v, **kw))),
               ('second Glommer', lambda t, p, v, **kw: gl_plain.glom(t, Assign(p, v, **kw))), ('glom(Assign)', lambda t, p, v, **kw: G(t, Assign(p, v, **kw)))]
    for rname, runner in runners:
        for desc, path, kw in (('plain index', 'pt.0', {}), ('plain index past the end', 'pt.5', {}), ('Path index', Path('pt', 1), {}), ('T index', T['pt'][0], {}),
                               ('below the tuple with missing=', 'pt.5.z', {'missing': dict}), ('named like an attribute', 'pt.label', {}),
                               ('in a list of tuples', 'pts.*.0', {})):
            pt = _AttrTuple((1, 2, 3))
            pt.label = 'keep'
            t = {'pt': pt, 'pts': [_AttrTuple((7, 8))]}
            got = call(runner, t, path, 'NEW', **kw)
            col.case(('tuple-subclass', rname, desc), True)
            col.count('assignments_attempted')
            col.count('failing_edits')
            state = (tuple(t['pt']), dict(vars(t['pt'])), tuple(t['pts'][0]), dict(vars(t['pts'][0])))
            if got.ok or not isinstance(got.exc, GlomError) or state != ((1, 2, 3), {'label': 'keep'}, (7, 8), {}):
                col.violation('C11/tuple-subclass-instance-assigned-by-attribute', '%s: %s %r on an instance of a tuple subclass with a __dict__: %r ; '
                              'tuple / attributes now %r' % (rname, desc, path, got, state), None)


def deep_wildcards(col, rng):
    """1-4 wildcard layers in the destination: assignment at every match, final segment a key or an index"""
    import copy
    for layers in (1, 2, 3, 4):
        for final in ('key', 'index'):
            def build(d):
                if d == 0:
                    return {'leaf': [0, 1], 'k': 'old'}
                return {'n%d' % d: [build(d - 1) for _ in range(rng.randint(1, 2))]}
            t1 = build(layers)
            t2 = copy.deepcopy(t1)
            segs = []
            for d in range(layers, 0, -1):
                segs += ['n%d' % d, '*']
            path = '.'.join(segs + (['k'] if final == 'key' else ['leaf', '0']))

            def leaves(node, d):
                if d == 0:
                    return [node]
                out = []
                for ch in node['n%d' % d]:
                    out.extend(leaves(ch, d - 1))
                return out
            for leaf in leaves(t2, layers):
                if final == 'key':
                    leaf['k'] = 'NEW'
                else:
                    leaf['leaf'][0] = 'NEW'
            got = call(assign, t1, path, 'NEW')
            col.case(('deep-wildcards', layers, final), layers >= 2)
            col.count('assignments_attempted')
            if not got.ok or got.value is not t1 or t1 != t2:
                col.violation('C11/wildcard-assignment-misses-matches:%d-layers' % layers,
                              'assign(t, %r, NEW): %r ; target now %s, plain Python loops give %s' % (path, got if not got.ok else 'returned', short(t1, 300), short(t2, 300)), None)


def wildcard_over_mixed_kinds_and_equal_holders(col):
    """(1) one wildcard whose matches are of DIFFERENT kinds: each match gets the plain Python assignment of its own kind
    (dict item / attribute / integer-coerced list index / item of a dict subclass).  (2) `**` in the destination: distinct
    holders that compare EQUAL (rows built from one template) are distinct matches"""
    import copy
    for segment, mk in (('x', lambda: [{'x': 1, 'y': 2}, gen.PlainObj(x=1, y=2), AttrDict({'x': 3}), {'x': 4}]),
                        ('x', lambda: [gen.PlainObj(x=1), {'x': 2}, gen.PlainObj(x=3)]),
                        ('0', lambda: [['a', 'b'], {'0': 'zero'}, ['c']]),
                        ('0', lambda: [{'0': 'zero'}, ['a', 'b']])):
        for spelling in ('string', 'path'):
            t, twin = mk(), mk()
            for h in twin:
                if isinstance(h, list):
                    h[int(segment)] = 'NEW'
                elif isinstance(h, dict):
                    h[segment] = 'NEW'
                else:
                    setattr(h, segment, 'NEW')
            path = '*.' + segment if spelling == 'string' else Path(T.__star__(), segment)
            got = call(assign, t, path, 'NEW')
            col.case(('wildcard-mixed-kinds', segment, spelling, tuple(type(h).__name__ for h in twin)), True)
            col.count('assignments_attempted')
            state = lambda hs: [(type(h).__name__, list(h.items()) if isinstance(h, dict) else list(h) if isinstance(h, list) else None,
                                 sorted(getattr(h, '__dict__', {}).items())) for h in hs]
            if not got.ok or state(t) != state(twin):
                col.violation('C11/wildcard-over-mixed-kinds', 'assign(%s, %s, NEW): %r ; target now %s, plain Python gives %s'
                              % ([type(h).__name__ for h in twin], short(path), got if not got.ok else 'returned', short(state(t), 400), short(state(twin), 400)), None)
    for path, mk, holders in (
            ('a.**.b.d', lambda: {'a': {'x': {'b': {}}, 'y': {'b': {}}, 'z': {'b': {'q': 1}}}}, lambda t: [t['a'][k]['b'] for k in 'xyz']),
            ('rows.**.sub.tag', lambda: {'rows': [{'sub': {'id': 1}}, {'sub': {'id': 1}}, {'sub': {'id': 2}}, {'sub': {'id': 1}}]}, lambda t: [r['sub'] for r in t['rows']]),
            (Path('rows', T.__starstar__(), 'sub', 'k'), lambda: {'rows': [{'sub': {}}, {'sub': {}}]}, lambda t: [r['sub'] for r in t['rows']])):
        t, twin = mk(), mk()
        for h in holders(twin):
            h[path.split('.')[-1] if isinstance(path, str) else 'k'] = 'NEW'
        got = call(assign, t, path, 'NEW')
        col.case(('starstar-equal-holders', short(path)), True)
        col.count('assignments_attempted')
        if not got.ok or t != twin:
            col.violation('C11/starstar-assignment-misses-an-equal-holder', 'assign(.., %s, NEW) over holders that compare equal: %r ; '
                          'target now %s, assignment at every match gives %s' % (short(path), got if not got.ok else 'returned', short(t, 300), short(twin, 300)), None)


def _plus_one(v):
    return v + 1


def wildcard_value_is_evaluated_once(col):
    """the value of an assignment through a wildcard is evaluated once, against the target as it was before the first write, and that
    one object is stored at every match (v = <value>; for m in matches: m[k] = v)"""
    calls = []

    def counting(t):
        calls.append(1)
        return ('computed', len(calls))
    mk = lambda: {'name': 'nm', 'rows': [{'n': 1}, {'n': 2}, {'n': 3}], 'tree': {'l': {'n': 10, 'sub': {'n': 20}}, 'r': {'n': 30}},
                 'forest': {'l': {'sub': {}}, 'r': {}}}
    rows_n = lambda t: [r['n'] for r in t['rows']]
    cases = [
        ('value reads what the assignment writes (string path)', 'rows.*.n', Spec(('rows.*.n', sum)), rows_n, [6, 6, 6], False),
        ('value reads what the assignment writes (T path)', T['rows'].__star__()['n'], Spec((T['rows'], [T['n']], sum)), rows_n, [6, 6, 6], False),
        ('value reads one of the written places', 'rows.*.n', T['rows'][0]['n'] + 100, rows_n, [101, 101, 101], False),
        ('value reads the last written place', Path('rows', T.__star__(), 'n'), T['rows'][-1]['n'] * 2, rows_n, [6, 6, 6], False),
        ('value spec with a call log', 'rows.*.n', Spec(counting), rows_n, [('computed', 1)] * 3, True),
        ('list literal with a T leaf', 'rows.*.tags', [T['name']], lambda t: [r['tags'] for r in t['rows']], [['nm']] * 3, True),
        ('dict literal with a T leaf', 'rows.*.meta', {'of': T['name']}, lambda t: [r['meta'] for r in t['rows']], [{'of': 'nm'}] * 3, True),
        ('** destination, value reads a written place', 'forest.**.n', Spec((Coalesce('forest.n', default=0), _plus_one)),
         lambda t: [t['forest']['n'], t['forest']['l']['n'], t['forest']['r']['n'], t['forest']['l']['sub']['n']], [1, 1, 1, 1], False),
        ('two stars, value spec with a call log', Path('tree', T.__star__(), 'n'), Spec(counting), lambda t: [t['tree']['l']['n'], t['tree']['r']['n']],
         None, True),
    ]
    for desc, path, value, read, want, same_object in cases:
        for via in ('assign()', 'Assign spec'):
            del calls[:]
            t = mk()
            got = call(assign, t, path, value) if via == 'assign()' else call(G, t, Assign(path, value))
            col.case(('wildcard-value-once', desc, via), True)
            col.count('assignments_attempted')
            if not got.ok:
                col.violation('C11/wildcard-assignment-raises', '%s via %s: %r' % (desc, via, got.exc), None)
                continue
            rd = call(read, t)
            if not rd.ok:
                col.violation('C11/wildcard-assignment-misses-a-match', '%s via %s: a place the wildcard matches was not assigned (%r); target now %s'
                              % (desc, via, rd.exc, short(t, 300)), None)
                continue
            stored = rd.value
            if want is not None and stored != want:
                col.violation('C11/wildcard-value-evaluated-per-match', '%s via %s: the matches now hold %r; evaluating the value once against the '
                              'target as it was and storing it at every match gives %r' % (desc, via, stored, want), None)
            elif same_object and any(v is not stored[0] for v in stored):
                col.violation('C11/wildcard-value-evaluated-per-match:distinct-objects', '%s via %s: the matches hold %d different objects %r; '
                              'one value is evaluated and stored at every match' % (desc, via, len({id(v) for v in stored}), stored), None)
            elif 'call log' in desc and len(calls) != 1:
                col.violation('C11/wildcard-value-evaluated-per-match:call-count', '%s via %s: the value spec ran %d times for %d matches'
                              % (desc, via, len(calls), len(stored)), None)


def missing_before_wildcard(col):
    """missing= creates the absent segments in front of a wildcard; the wildcard then has no matches in the new container"""
    cases = [
        ({}, 'a.*.c', {'a': {}}),
        ([{'q': 1}], '0.a.*.c', [{'q': 1, 'a': {}}]),
        ({'a': {'x': {'c': 0}, 'y': {}}}, 'a.*.c', {'a': {'x': {'c': 5}, 'y': {'c': 5}}}),
        ({'k': 1}, 'a.b.*.c', {'k': 1, 'a': {'b': {}}}),
    ]
    for target, path, want in cases:
        import copy
        t = copy.deepcopy(target)
        got = call(assign, t, path, 5, missing=dict)
        col.case(('missing-before-wildcard', path), True)
        col.count('assignments_attempted')
        if not got.ok or got.value is not t or t != want:
            col.violation('C11/missing-before-wildcard', 'assign(%r, %r, 5, missing=dict): %r ; target now %r, expected %r'
                          % (target, path, got if not got.ok else 'returned', t, want), None)


class AttrDict(dict):
    """dict subclass whose instances also carry attributes"""


class AttrList(list):
    """list subclass whose instances also carry attributes"""


class AttrDict2(AttrDict):
    """a subclass of a dict subclass (no registered type among its direct bases)"""


class AttrList2(AttrList):
    """a subclass of a list subclass"""


def _attr_holders():
    d = AttrDict({'x': 'item-x'})
    d.x = 'attr-x'
    l = AttrList(['e0', 'e1'])
    l.x = 'attr-x'
    import collections

    class Tally(collections.Counter):
        pass
    d2 = AttrDict2({'x': 'item-x'}); d2.x = 'attr-x'
    l2 = AttrList2(['e0']); l2.x = 'attr-x'
    return {'d': d, 'l': l, 'hs': [d, l], 'd2': d2, 'l2': l2, 'c': Tally(x=1)}


def _attr_state(t):
    return {k: (type(h).__name__, list(h.items()) if isinstance(h, dict) else list(h), sorted(h.__dict__.items()))
            for k, h in t.items() if k != 'hs'}


def attribute_vs_item_on_container_subclasses(col):
    """instances of dict / list subclasses that carry attributes as well as items: a final T.attr step is setattr, T[key] and
    plain path segments are item assignment - whatever the other namespace holds under the same name"""
    cases = [
        ('T.attr, same-named key exists', lambda: T['d'].x, lambda t: setattr(t['d'], 'x', 'NEW')),
        ('T.attr, new attribute', lambda: T['d'].fresh, lambda t: setattr(t['d'], 'fresh', 'NEW')),
        ("T['key'], same-named attribute exists", lambda: T['d']['x'], lambda t: t['d'].__setitem__('x', 'NEW')),
        ('plain segment on a dict subclass', lambda: 'd.x', lambda t: t['d'].__setitem__('x', 'NEW')),
        ('plain new key on a dict subclass', lambda: Path('d', 'fresh'), lambda t: t['d'].__setitem__('fresh', 'NEW')),
        ('T.attr on a list subclass', lambda: T['l'].x, lambda t: setattr(t['l'], 'x', 'NEW')),
        ('T[index] on a list subclass', lambda: T['l'][0], lambda t: t['l'].__setitem__(0, 'NEW')),
        ('plain segment on a list subclass', lambda: 'l.1', lambda t: t['l'].__setitem__(1, 'NEW')),
        ('T.attr behind a star', lambda: T['hs'].__star__().x, lambda t: (setattr(t['d'], 'x', 'NEW'), setattr(t['l'], 'x', 'NEW'))),
        ('plain segment on a second-level dict subclass', lambda: 'd2.x', lambda t: t['d2'].__setitem__('x', 'NEW')),
        ('plain new key on a second-level dict subclass', lambda: Path('d2', 'fresh'), lambda t: t['d2'].__setitem__('fresh', 'NEW')),
        ('plain segment on a second-level list subclass', lambda: 'l2.0', lambda t: t['l2'].__setitem__(0, 'NEW')),
        ('plain segment on a Counter subclass', lambda: 'c.x', lambda t: t['c'].__setitem__('x', 'NEW')),
    ]
    for desc, mk, edit in cases:
        t, twin = _attr_holders(), _attr_holders()
        edit(twin)
        got = call(assign, t, mk(), 'NEW')
        col.case(('attr-vs-item', desc), True)
        col.count('assignments_attempted')
        col.count('attribute_vs_item_cases')
        if not got.ok or _attr_state(t) != _attr_state(twin):
            col.violation('C11/container-subclass-with-attributes:wrong-namespace',
                          "assign(.., %s, 'NEW') [%s]: %r ; holders now %s, plain Python gives %s"
                          % (short(mk()), desc, got if not got.ok else 'returned', _attr_state(t), _attr_state(twin)), None)


_ATTR_CASES_IN_CHILD = [
    ('plain segment on a dict subclass', 'd.x', ('d', 'x')),
    ('plain segment on a list subclass', 'l.1', ('l', 1)),
    ('plain segment on a second-level dict subclass', 'd2.x', ('d2', 'x')),
    ('plain new key on a second-level dict subclass', 'd2.fresh', ('d2', 'fresh')),
    ('plain segment on a second-level list subclass', 'l2.0', ('l2', 0)),
    ('plain segment on a Counter subclass', 'c.x', ('c', 'x')),
    ('plain index past the end of a second-level list subclass', 'l2.5', None),
]


def registry_order(op):
    try:
        names = []

        def walk(tree):
            for t, sub in tree.items():
                names.append(t.__name__)
                walk(sub)
        walk(gcore_registry()._op_type_tree[op])
        return 'duck-type-filed-%s-dict-and-%s-list' % ('before' if names.index('_ObjStyleKeys') < names.index('dict') else 'after',
                                                        'before' if names.index('_ObjStyleKeys') < names.index('list') else 'after')
    except Exception as e:
        return 'unobservable:%s' % type(e).__name__


def _layout_child():
    """(runs in a fresh interpreter whose heap was perturbed BEFORE the library was imported.)  The handlers of operations that
    extensions register (assign, delete) are filed in an order that follows a set of type objects, i.e. their addresses: whichever
    order this process got, item containers with attributes are assigned by item"""
    out = {'cases': [], 'order': registry_order('assign')}
    for desc, path, edit in _ATTR_CASES_IN_CHILD:
        t, twin = _attr_holders(), _attr_holders()
        if edit is not None:
            twin[edit[0]][edit[1]] = 'NEW'
        got = call(assign, t, path, 'NEW')
        ok = (got.ok if edit is not None else (not got.ok)) and _attr_state(t) == _attr_state(twin)
        out['cases'].append([desc, bool(ok), '%r ; holders now %s, plain Python gives %s'
                             % (got if not got.ok else 'returned', _attr_state(t), _attr_state(twin))])
    print('RESULT ' + json.dumps(out))


def gcore_registry():
    import glom.core as gcore
    return gcore._DEFAULT_SCOPE[gcore.TargetRegistry]


def attribute_vs_item_in_fresh_processes(col, n_children, module='c11', prop='C11', counter='assignments_attempted', verb='assign'):
    """the same question asked in several fresh interpreters with differently laid out heaps"""
    import concurrent.futures

    def one(k):
        code = 'from rv.checks import %s as m\nm._layout_child()\n' % module
        try:
            p = subprocess.run([sys.executable, '-c', code], env=env.child_env({'RV_LAYOUT_PERTURB': str(k)}), cwd=env.VERIF_DIR, timeout=300,
                               stdout=subprocess.PIPE, stderr=subprocess.STDOUT, text=True)
        except subprocess.TimeoutExpired:
            return k, None, 'timeout'
        line = [ln for ln in p.stdout.splitlines() if ln.startswith('RESULT ')]
        if p.returncode != 0 or not line:
            return k, None, p.stdout[-1500:]
        return k, json.loads(line[0][7:]), None
    ks = list(range(n_children))
    with concurrent.futures.ThreadPoolExecutor(max_workers=8) as ex:
        for k, d, err in ex.map(one, ks):
            if err:
                col.fail_inconclusive('fresh-process child (heap perturbation %d) failed: %s' % (k, err))
                continue
            col.count('fresh_processes_run')
            col.count('fresh_process_registry_order:' + str(d['order']))
            for desc, ok, detail in d['cases']:
                col.case(('attr-vs-item-fresh-process', desc, d['order']), True)
                col.count(counter)
                col.count('attribute_vs_item_cases')
                if not ok:
                    col.violation('%s/container-subclass-with-attributes:wrong-namespace' % prop,
                                  "fresh process (heap perturbation %d, registry order %s): %s [%s]: %s"
                                  % (k, d['order'], verb, desc, detail), None)


def reused_assign_object(col, rng):
    """one Assign object evaluated several times (list spec): every evaluation assigns ITS value, with and without missing="""
    for missing in (None, dict):
        for depth in (1, 2, 3):
            path = '.'.join(['m%d' % i for i in range(depth)] + ['slot'])
            spec_obj = Assign(path, T['v'], missing=missing)
            targets = [{'v': 'v%d' % i} for i in range(4)]
            if missing is None:
                for t in targets:
                    cur = t
                    for i in range(depth):
                        cur['m%d' % i] = {}
                        cur = cur['m%d' % i]
            got = call(G, targets, [spec_obj])
            col.case(('reused-assign', missing is not None, depth), True)
            col.count('assignments_attempted')
            ok = got.ok
            if ok:
                for i, t in enumerate(targets):
                    cur = t
                    try:
                        for seg in path.split('.'):
                            cur = cur[seg]
                    except Exception:
                        cur = '<missing>'
                    if cur != 'v%d' % i:
                        ok = False
            if not ok:
                col.violation('C11/reused-assign-object-writes-stale-value:%s' % ('missing' if missing else 'plain'),
                              'glom(targets, [Assign(%r, T[v]%s)]) -> %s' % (path, ', missing=dict' if missing else '', short(targets if got.ok else got, 400)), None)


def reused_assign_object_with_a_scope_destination(col):
    """one Assign object whose destination is rooted at the scope (S[..]..), evaluated several times - per list element, in successive
    calls, with and without missing=: every evaluation writes ITS value into the scope variable of ITS call, never into the target"""
    progs = [
        ("[Assign(S['acc'][T['k']], T['v'])] per element", lambda a: (S(acc={}), [a], S['acc']), lambda: Assign(S['acc'][T['k']], T['v']),
         [{'k': 'a', 'v': 1, 'acc': 'target-key'}, {'k': 'b', 'v': 2}, {'k': 'c', 'v': 3}], {'a': 1, 'b': 2, 'c': 3}, 'list'),
        ("Assign(S['box']['slot'], T['v']) in successive calls", lambda a: (S(box={}), a, S['box']), lambda: Assign(S['box']['slot'], T['v']),
         [{'v': 1, 'box': {'slot': 'in-target'}}, {'v': 2, 'box': {}}, {'v': 3}], [{'slot': 1}, {'slot': 2}, {'slot': 3}], 'calls'),
        ("Assign(S['box']['l1']['l2'], T['v'], missing=dict) in successive calls", lambda a: (S(box={}), a, S['box']), lambda: Assign(S['box']['l1']['l2'], T['v'], missing=dict),
         [{'v': 1}, {'v': 2, 'box': {}}, {'v': 3}], [{'l1': {'l2': 1}}, {'l1': {'l2': 2}}, {'l1': {'l2': 3}}], 'calls'),
        ("Assign(S['v'], T['v']) in successive calls", lambda a: (a, S['v']), lambda: Assign(S['v'], T['v']), [{'v': 1}, {'v': 2}], [1, 2], 'calls'),
    ]
    import copy
    for desc, wrap, mk, targets, want, how in progs:
        a = mk()
        spec = wrap(a)
        before = copy.deepcopy(targets)
        if how == 'list':
            got = call(G, targets, spec)
            ok = got.ok and got.value == want
            shown = got
        else:
            outs = [call(G, t, spec) for t in targets]
            ok = all(o.ok for o in outs) and [o.value for o in outs] == want
            shown = outs
        col.case(('reused-assign-scope-destination', desc), True)
        col.count('assignments_attempted', len(targets))
        col.count('successful_edits', len(targets))
        if not ok or targets != before:
            col.violation('C11/reused-assign-object-with-a-scope-destination', '%s with ONE Assign object: %s (expected %r); targets %s'
                          % (desc, short(repr(shown), 300), want, 'unchanged' if targets == before else 'CHANGED to %s' % short(targets, 200)), None)


class _Vault:
    """children reachable only through the get handler a Glommer registers for it (no attributes, no __getitem__)"""
    __slots__ = ('_cells',)

    def __init__(self, **cells):
        self._cells = cells


def _vault_get(v, k):
    return v._cells[k]


def assign_runs_in_the_context_of_the_call(col):
    """the parent of the addressed element is reached with everything the running call has: the registry of the Glommer the call
    goes through (a type whose children only its registered get handler reaches) and the scope (a segment taken from S)"""
    from glom import Glommer, S
    g = Glommer()
    g.register(_Vault, get=_vault_get)
    mk = lambda: {'v': _Vault(inner={'x': 1, 'y': 2}, lst=[10, 20, 30]), 'a': {'x': 1, 'y': 2}, 'b': {'x': 3}, 'keyname': 'x'}
    cases = [
        # (description, runner, spec, plain Python on a twin, expected error class when plain Python fails)
        ('Glommer, registered type on the parent path (string)', lambda t, sp: g.glom(t, sp), lambda: Assign('v.inner.x', 'NEW'), lambda t: t['v']._cells['inner'].__setitem__('x', 'NEW')),
        ('Glommer, registered type on the parent path (Path)', lambda t, sp: g.glom(t, sp), lambda: Assign(Path('v', 'lst', 1), 'NEW'), lambda t: t['v']._cells['lst'].__setitem__(1, 'NEW')),
        ('Glommer, registered type behind a star', lambda t, sp: g.glom(t, sp), lambda: Assign(Path(T.__star__(), 'inner', 'y'), 'NEW'), lambda t: t['v']._cells['inner'].__setitem__('y', 'NEW')),
        ('segment taken from the scope (S step before)', G, lambda: (S(which='a'), Assign(T[S['which']]['x'], 'NEW')), lambda t: t['a'].__setitem__('x', 'NEW')),
        ('segment taken from the caller scope', lambda t, sp: G(t, sp, scope={'which': 'b'}), lambda: Assign(T[S['which']]['x'], 'NEW'), lambda t: t['b'].__setitem__('x', 'NEW')),
        ('the FINAL segment is computed from the target', G, lambda: Assign(T['a'][T['keyname']], 'NEW'), lambda t: t['a'].__setitem__(t['keyname'], 'NEW')),
        ('the final segment is computed from the scope', G, lambda: (S(which='y'), Assign(T['a'][S['which']], 'NEW')), lambda t: t['a'].__setitem__('y', 'NEW')),
        ('segment taken from the scope, inside a list spec', G, lambda: ('rows', [(S(k=T['k']), Assign(T['d'][S['k']]['x'], 'NEW'))]), None),
    ]
    for desc, runner, mk_spec, py in cases:
        if py is None:
            t = {'rows': [{'k': 'p', 'd': {'p': {'x': 1, 'z': 0}, 'q': {'x': 2}}}, {'k': 'q', 'd': {'p': {'x': 3}, 'q': {'x': 4, 'z': 0}}}]}
            w = {'rows': [{'k': 'p', 'd': {'p': {'x': 1, 'z': 0}, 'q': {'x': 2}}}, {'k': 'q', 'd': {'p': {'x': 3}, 'q': {'x': 4, 'z': 0}}}]}
            w['rows'][0]['d']['p']['x'] = w['rows'][1]['d']['q']['x'] = 'NEW'
            read = lambda t: t
        else:
            t, w = mk(), mk()
            py(w)
            read = lambda t: {'v': t['v']._cells, 'a': t['a'], 'b': t['b'], 'n': len(t)}
        got = call(runner, t, mk_spec())
        col.case(('context-of-the-call', desc), True)
        col.count('assignments_attempted')
        if not got.ok:
            col.violation('C11/assign-leaves-the-context-of-the-call:raises', '%s: %r (plain Python can do it)' % (desc, got.exc), None)
        elif read(t) != read(w):
            col.violation('C11/assign-leaves-the-context-of-the-call:effect-differs', '%s: target now %r, plain Python gives %r' % (desc, read(t), read(w)), None)


def run(ctx):
    col, rng = ctx.col, ctx.rng
    col.require('successful_edits', 300)
    col.require('failing_edits', 300)
    col.require('faults_injected', 30)
    col.require('factory_counts_checked', 50)
    if ctx.shard == 0:
        s_rooted(col, rng)
        wildcard_order(col, rng)
        recursive_wildcard_order(col, rng)
        sequences_that_refuse_assignment(col)
        deep_wildcards(col, rng)
        reused_assign_object(col, rng)
        reused_assign_object_with_a_scope_destination(col)
        missing_before_wildcard(col)
        wildcard_value_is_evaluated_once(col)
        assign_runs_in_the_context_of_the_call(col)
        attribute_vs_item_on_container_subclasses(col)
        attribute_vs_item_in_fresh_processes(col, 24 if not ctx.thorough else 64)
        wildcard_over_mixed_kinds_and_equal_holders(col)
    for i in range(ctx.n(300, 3000)):
        one_target(col, rng)
