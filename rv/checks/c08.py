"""C08 - modes apply exactly to the wrapped spec; Fill and argument mode keep shape.

Monitor (deciding): ModeWatch - sys.monitoring PY_START on glom's five container
interpreters (AUTO, FILL, match, GROUP, argument mode).  Every plain str / tuple / list
/ dict placed in a generated spec tree is a probe with unique identity; the interpreter
function that actually received it must be the one of the nearest enclosing mode wrapper
on the spec tree (Auto at the root; argument mode in argument positions until a spec
object intervenes).  This localises a leak to the exact node.
Secondary oracle: outcome calibration - the value/exception a probe produced inside the
nesting (read from the EvalTracer frame of that very object) must equal what
Mode(probe) gives on the target that frame received.
Shape: Fill / argument-mode results compared with the literal whose T leaves are
replaced by their values (types, structure, cycles).
"""
from .. import env
from ..util import call
from ..report import short
from ..monitors import ModeWatch, EvalTracer

glom = env.bind()
from glom import (T, S, Auto, Fill, Match, Pipe, Coalesce, Switch, Val, Spec, Call, Assign, And, Or, Check, M, Invoke,  # noqa: E402
                  GlomError, SKIP, Iter, Optional, glom as G)
from glom.grouping import Group  # noqa: E402

META = {
    'level': 'exploration',
    'rule': ('random spec trees (depth <= 4) over plain str / tuple / list / dict probes, Pipe, Coalesce (branches and default=), Switch '
             '(key and value specs, list and dict form), Match-dict key/value specs, S(k=...) and the wrappers Auto, Fill, Match, Group '
             'nested to depth 3 at every position (chain step, dict value, Coalesce branch, Switch case); every probe is wrapped so that '
             'its own failure does not end the evaluation. Literal shapes for Fill / argument position: dict/list/tuple/set/frozenset '
             'nested to depth 3 with T leaves, strings, numbers, callables, shared and (argument position) self-referential containers, '
             'in Coalesce default, Call args/kwargs, T-call arguments, Assign value, S(k=...), Match/And/Or/Switch/Check defaults. '
             'Non-trivial: a probe outside a wrapper but after/beside it; distinct by (wrapper kinds on the path, structure kinds, probe '
             'kind, relative position).'),
    'assumptions': [
        'Fill calls callables (documented); only argument position keeps them literal',
        'containers of other types than dict/list/tuple/set/frozenset are literals in both modes and are not generated as shapes',
        'plain containers nested in a spec object inside the default= of a mode wrapper are not generated (lexical owner ambiguous)',
    ],
}

WRAPPERS = {'auto': Auto, 'fill': Fill, 'match': Match, 'group': Group}


class Node:
    __slots__ = ('kind', 'obj', 'children', 'expected', 'rel')

    def __init__(self, kind, obj=None, children=(), expected=None, rel=''):
        self.kind, self.obj, self.children, self.expected, self.rel = kind, obj, list(children), expected, rel


def safe(spec):
    """a probe's own failure must not end the evaluation (Coalesce does not change the mode)"""
    return Coalesce(spec, default='X', skip_exc=Exception)


class TreeGen:
    def __init__(self, rng):
        self.rng = rng
        self.serial = 0
        self.probes = {}      # id(obj) -> (expected mode, description, relation, obj)
        self.keep = []

    def uniq(self):
        self.serial += 1
        return 'a%d' % self.serial

    def probe(self, mode, arg, rel):
        """a fresh plain container / string with unique identity"""
        rng = self.rng
        k = rng.choice(['str', 'tuple', 'list', 'dict'])
        if k == 'str':
            # a new (multi-character, hence not cached) string object each time: unique identity
            obj = bytearray(('a' + '.a' * rng.randint(1, 2)).encode()).decode()
        elif k == 'tuple':
            obj = ('a', 'a') if rng.random() < 0.5 else (T, 'a')
            obj = tuple(list(obj))
        elif k == 'list':
            obj = ['a']
        else:
            obj = {'k': 'a'}
        self.keep.append(obj)
        self.probes[id(obj)] = ('arg' if arg else mode, k, rel, obj)
        return obj

    def gen(self, depth, mode='auto', arg=False, rel='root', after_wrapper=False):
        """returns a glom spec; registers expectations for every plain container in it"""
        rng = self.rng
        arg = False    # (only arg_literal() produces argument-position containers; a spec object ends argument mode)
        if depth <= 0:
            return safe(self.probe(mode, arg, rel))
        c = rng.choice(['probe', 'wrapper', 'wrapper', 'tuple', 'pipe', 'dict', 'coalesce', 'switch', 'matchdict', 'sassign', 'default'])
        if c == 'probe':
            return safe(self.probe(mode, arg, rel))
        if c == 'wrapper':
            m = rng.choice(list(WRAPPERS))
            inner = self.gen(depth - 1, m, False, 'inside-' + m)
            return WRAPPERS[m](inner)
        if c in ('tuple', 'pipe'):
            steps = []
            r = rel
            for i in range(rng.randint(2, 4)):
                if rng.random() < 0.15:
                    # a T step whose ARGUMENT is a spec that fails for every child behind a star: the star swallows the
                    # failure, the step succeeds, and whatever follows is still in the mode of the chain
                    steps.append(rng.choice([lambda: T['n'].__star__()[T['zz_missing']], lambda: T['n'].__star__().real(T['zz_missing']),
                                             lambda: T['a'].__star__()[Spec('zz_missing')]])())
                    if rng.random() < 0.5:
                        steps.append(Val(TARGET))
                    r = 'after-star-step-with-failing-argument'
                if mode == 'auto' and rng.random() < 0.12:
                    # a wrapper whose spec is evaluated LAZILY (an Iter pipeline drained by a later step of the chain): what is
                    # nested in the wrapper is in the wrapper's mode whenever it happens to run
                    m2 = rng.choice(['auto', 'fill', 'match'])
                    inner = self.gen(0, m2, False, 'lazily-evaluated-inside-' + m2)
                    lazy = rng.choice([lambda: Iter(inner), lambda: Iter().map(inner), lambda: Coalesce(Iter(inner), default='X')])()
                    if rng.random() < 0.5:
                        steps.append(WRAPPERS[m2](Pipe(Val([TARGET, TARGET]), lazy)))
                    else:
                        steps.append(Val([TARGET, TARGET]))      # (the wrapper directly around the lazy pipeline)
                        steps.append(WRAPPERS[m2](lazy))
                    steps.append(list)
                    steps.append(Val(TARGET))
                    r = 'after-%s-in-%s' % (m2, c)
                sub = self.gen(depth - 1, mode, False, r)
                steps.append(sub)
                steps.append(Val(TARGET))   # restore the target for the next step
                if type(sub) in (Auto, Fill, Match, Group):
                    r = 'after-%s-in-%s' % (type(sub).__name__.lower(), c)
            if c == 'pipe' or mode != 'auto' or arg:
                return Pipe(*steps)
            tup = tuple(steps)
            self.keep.append(tup)
            self.probes[id(tup)] = (mode, 'chain-tuple', rel, tup)
            return tup
        if c == 'dict':
            d = {}
            r = rel
            # a dict of sub-specs is a structural spec in auto / fill mode; elsewhere wrap it in Auto
            inner_mode = mode if mode in ('auto', 'fill') else 'auto'
            if inner_mode != mode:
                r = 'inside-auto'
            for i in range(rng.randint(2, 3)):
                sub = self.gen(depth - 1, inner_mode, False, r)
                d['k%d' % i] = sub
                if type(sub) in (Auto, Fill, Match, Group):
                    r = 'beside-%s-in-dict' % type(sub).__name__.lower()
            self.keep.append(d)
            self.probes[id(d)] = (inner_mode, 'struct-dict', rel, d)
            return d if inner_mode == mode else Auto(d)
        if c == 'coalesce':
            subs = []
            r = rel
            for i in range(rng.randint(1, 3)):
                sub = self.gen(depth - 1, mode, False, r)
                if rng.random() < 0.4:
                    sub = Pipe(sub, T['zz_missing'])      # make the branch fail so the next one runs
                subs.append(sub)
                if type(sub) in (Auto, Fill, Match, Group) or type(sub) is Pipe:
                    r = 'coalesce-branch-after-wrapper'
            return Coalesce(*subs, default='X', skip_exc=Exception)
        if c == 'switch':
            cases = []
            r = rel
            for i in range(rng.randint(1, 3)):
                m = rng.choice(list(WRAPPERS))
                passing = rng.random() < 0.6
                keyinner = self.gen(depth - 1, m, False, 'switch-key-inside-' + m)
                key = WRAPPERS[m](keyinner if passing else Pipe(keyinner, T['zz_missing']))
                val = self.gen(depth - 1, mode, False, 'switch-value-after-key-' + m)
                cases.append((key, val))
            return Switch(cases, default='X')
        if c == 'matchdict':
            # {key spec: value spec} in match mode; the value is evaluated in match mode, a wrapper around it applies to it only
            m = rng.choice(['auto', 'fill'])
            inner = self.gen(depth - 1, m, False, 'matchdict-value-inside-' + m)
            return safe(Match({str: WRAPPERS[m](inner)}))
        if c == 'sassign':
            val = self.arg_literal(depth - 1, mode, 'S-assign-value')
            return Pipe(S(v=val), Val(TARGET))
        if c == 'default':
            val = self.arg_literal(depth - 1, mode, 'coalesce-default')
            return Coalesce(T['zz_missing'], default=val)
        raise AssertionError(c)

    def _auto_dict(self, d, rel):
        # a dict of sub-specs in match/group context: wrap explicitly so it is a structural Auto dict
        self.keep.append(d)
        self.probes[id(d)] = ('auto', 'struct-dict', rel, d)
        return Auto(d)

    def arg_literal(self, depth, mode, rel):
        """plain nested container in argument position; a Spec inside switches back to the enclosing mode"""
        rng = self.rng
        if depth <= 0 or rng.random() < 0.3:
            if rng.random() < 0.3:
                return Spec(self.gen(0, mode, False, rel + '-inside-Spec'))
            return self.probe(mode, True, rel)
        k = rng.choice(['list', 'dict', 'tuple'])
        kids = [self.arg_literal(depth - 1, mode, rel) for _ in range(rng.randint(1, 2))]
        obj = kids if k == 'list' else tuple(kids) if k == 'tuple' else {'x%d' % i: v for i, v in enumerate(kids)}
        self.keep.append(obj)
        self.probes[id(obj)] = ('arg', 'arg-' + k, rel, obj)
        return obj


def make_target():
    t = {'k': 1, 'n': [1, 2]}
    t['a'] = t
    return t


TARGET = make_target()


def mode_case(col, rng, watch, tracer):
    tg = TreeGen(rng)
    spec = tg.gen(rng.randint(1, 4))
    del watch.log[:]
    tracer.reset()
    got = call(G, TARGET, spec)
    col.count('trees_evaluated')
    seen = {}
    for name, sid, obj in watch.log:
        if sid in tg.probes and tg.probes[sid][3] is obj:
            seen.setdefault(sid, []).append(name)
    col.count('mode_events', len(watch.log))
    for sid, names in seen.items():
        expected, pkind, rel, obj = tg.probes[sid]
        col.case((expected, pkind, rel), not rel.startswith('inside-') and rel != 'root')
        col.count('probes_observed')
        bad = [n for n in names if n != expected]
        if bad:
            col.violation('C08/mode-leak:%s-interpreted-as-%s:%s' % (expected, bad[0], rel),
                          'probe %r (%s) is lexically in %s mode (%s) but was handed to the %s interpreter; spec: %s'
                          % (obj if pkind in ('str', 'tuple', 'list', 'dict') else pkind, pkind, expected, rel, bad[0], short(spec, 600)),
                          {'spec': short(spec, 600), 'probe': short(obj), 'expected': expected, 'observed': bad[0], 'relation': rel})
            return
    if col.want_sample('tree'):
        col.sample({'spec': short(spec, 400), 'probes_observed': len(seen), 'probes_placed': len(tg.probes)}, 'tree')
    # secondary: outcome calibration for observed simple probes, from the tracer frames (a sample of the trees)
    if rng.random() > 0.15:
        return
    frames = []
    for root in tracer.roots():
        stack = [root]
        while stack:
            f = stack.pop()
            frames.append(f)
            stack.extend(f.children)
    for f in frames:
        info = tg.probes.get(id(f.spec))
        if info is None or info[3] is not f.spec or info[1] not in ('str', 'tuple', 'list', 'dict') or info[0] in ('arg', 'group'):
            continue    # (Group(probe) iterates its target: not comparable with a probe evaluated per item)
        expected = info[0]
        cal = {}
        for m, W in WRAPPERS.items():
            o = call(G, f.target, W(f.spec))
            cal[m] = ('value', repr(o.value)) if o.ok else ('raise', type(o.exc).__name__)
        mine = ('value', repr(f.result)) if f.outcome == 'value' else ('raise', type(f.exc).__name__)
        col.count('calibrations')
        if len(set(cal.values())) < 2:
            continue
        if mine != cal[expected] and not cal[expected][1].startswith('GlomError.wrap'):
            others = [m for m, v in cal.items() if v == mine]
            col.violation('C08/probe-outcome-of-another-mode:%s-behaves-as-%s:%s' % (expected, '/'.join(others) or 'none', info[2]),
                          'probe %r at %s: outcome %s; calibrated %s' % (f.spec, info[2], mine, cal),
                          {'spec': short(spec, 600), 'probe': short(f.spec)})
            return


# ---------------------------------------------------------------------------
# shapes

class Leaf:
    """callable with a tag: Fill calls it, argument position keeps it"""
    def __init__(self, tag):
        self.tag = tag

    def __call__(self, target):
        return ('called', self.tag)

    def __repr__(self):
        return '<leaf %s>' % self.tag


def gen_shape(rng, depth, hashable=False, allow_callable=True):
    """-> (literal, expected builder(target, fill) -> value)"""
    if depth <= 0 or rng.random() < 0.3:
        k = rng.choice(['T', 'T', 'str', 'num', 'callable', 'none', 'Tsub'] if allow_callable else ['Th', 'str', 'num', 'none'])
        if k == 'T' and hashable:
            k = 'Th'
        if k == 'Th':
            return T['h'], lambda t, fill: t['h']
        if k == 'T':
            return T['k'], lambda t, fill: t['k']
        if k == 'Tsub':
            if hashable:
                return T['n'][1], lambda t, fill: t['n'][1]
            return T['n'][0], lambda t, fill: t['n'][0]
        if k == 'str':
            s = rng.choice(['a', 'k', 'a.k', 'n.0'])
            return s, lambda t, fill: s
        if k == 'num':
            n = rng.choice([0, 1, 2.5])
            return n, lambda t, fill: n
        if k == 'none':
            return None, lambda t, fill: None
        lf = Leaf(rng.randint(0, 99))
        return lf, lambda t, fill: lf(t) if fill else lf
    k = rng.choice(['dict', 'list', 'tuple'] + ([] if hashable else ['set', 'frozenset']) + (['tuple'] if hashable else ['dict', 'list']))
    if k in ('set', 'frozenset'):
        kids = [gen_shape(rng, 0, True, False) for _ in range(rng.randint(0, 3))]
        typ = set if k == 'set' else frozenset
        lit = typ(x for x, _ in kids)
        return lit, lambda t, fill: typ(b(t, fill) for _, b in kids)
    if k == 'dict':
        if hashable:
            return gen_shape(rng, 0, True)
        n = rng.randint(0, 3)
        kids = []
        for name in rng.sample(['p', 'q', 'r', 's'], n):
            # keys are evaluated like values: plain names, T leaves, and T leaves inside hashable containers
            kk = rng.choice(['name', 'name', 'T', 'tuple-with-T', 'frozenset-with-T', 'nested-tuple-with-T'])
            if kk == 'name':
                key, kb = name, (lambda t, fill, name=name: name)
            elif kk == 'T':
                key, kb = T['h'], (lambda t, fill: t['h'])
            elif kk == 'tuple-with-T':
                key, kb = (T['h'], name), (lambda t, fill, name=name: (t['h'], name))
            elif kk == 'frozenset-with-T':
                key, kb = frozenset([T['h'], name]), (lambda t, fill, name=name: frozenset([t['h'], name]))
            else:
                key, kb = (name, (T['n'][1], 'x')), (lambda t, fill, name=name: (name, (t['n'][1], 'x')))
            kids.append((key, kb, gen_shape(rng, depth - 1)))
        lit = {key: v[0] for key, kb, v in kids}
        return lit, lambda t, fill: {kb(t, fill): v[1](t, fill) for key, kb, v in kids}
    kids = [gen_shape(rng, depth - 1, hashable) for _ in range(rng.randint(0, 3))]
    if k == 'list' and not hashable:
        lit = [x for x, _ in kids]
        return lit, lambda t, fill: [b(t, fill) for _, b in kids]
    lit = tuple(x for x, _ in kids)
    return lit, lambda t, fill: tuple(b(t, fill) for _, b in kids)


def deep_equal(a, b, memo=None):
    """equal values with equal container types; cycle aware"""
    memo = memo if memo is not None else set()
    if type(a) is not type(b):
        return False
    key = (id(a), id(b))
    if key in memo:
        return True
    if isinstance(a, dict):
        memo.add(key)
        return list(a.keys()) == list(b.keys()) and all(deep_equal(a[k], b[k], memo) for k in a)
    if isinstance(a, (list, tuple)):
        memo.add(key)
        return len(a) == len(b) and all(deep_equal(x, y, memo) for x, y in zip(a, b))
    return a == b or a is b


def shared_mutable(result, lit):
    """a list / dict / set of the literal that appears (by identity) in the result: it was handed out, not rebuilt"""
    own = {}
    stack, seen = [lit], set()
    while stack:
        v = stack.pop()
        if id(v) in seen:
            continue
        seen.add(id(v))
        if isinstance(v, (list, dict, set)):
            own[id(v)] = v
        if isinstance(v, dict):
            stack.extend(v.keys()); stack.extend(v.values())
        elif isinstance(v, (list, tuple, set, frozenset)):
            stack.extend(v)
    stack, seen = [result], set()
    while stack:
        v = stack.pop()
        if id(v) in seen:
            continue
        seen.add(id(v))
        if id(v) in own and own[id(v)] is v:
            return v
        if isinstance(v, dict):
            stack.extend(v.keys()); stack.extend(v.values())
        elif isinstance(v, (list, tuple, set, frozenset)):
            stack.extend(v)
    return None


def arg_positions(lit):
    """[(name, spec, extractor(result) -> the evaluated literal)]"""
    class Box:
        def __init__(self):
            self.v = None
    return [
        ('Coalesce-default', Coalesce(T['zz_missing'], default=lit), lambda r: r),
        ('Call-args', Call(lambda *a, **kw: (a, kw), args=(lit,), kwargs={'kw': lit}), lambda r: r[0][0] if deep_equal(r[0][0], r[1]['kw']) else ('args-kwargs-differ', r)),
        ('T-call-arg', T['fn'](lit), lambda r: r),
        ('S-assign', (S(v=lit), S.v), lambda r: r),
        ('Match-default', Match(M == 'never', default=lit), lambda r: r),
        ('And-default', And(M == 'never', default=lit), lambda r: r),
        ('Or-default', Or(M == 'never', default=lit), lambda r: r),
        ('Switch-default', Switch([(M == 'never', Val(1))], default=lit), lambda r: r),
        ('Check-default', Check(type=str, default=lit), lambda r: r),
        ('Assign-value', (Assign(T['box'], lit), T['box']), lambda r: r),
        ('Match-Optional-default', Match({Optional('zz_absent', default=lit): object, str: object}), lambda r: r['zz_absent']),
        # the destination does not exist yet: the value is still evaluated against the Assign's target
        ('Assign-value-missing-path', (Assign(T['newbox']['deep'], lit, missing=dict), T['newbox']['deep']), lambda r: r),
        ('Assign-value-missing-path-str', (Assign('nb.l1.l2', lit, missing=dict), 'nb.l1.l2'), lambda r: r),
        # the destination is a variable of the scope: the value is still evaluated against the target
        ('Assign-value-to-scope-variable', (Assign(S['v'], lit), S['v']), lambda r: r),
        ('Assign-value-below-a-scope-variable', (S(holder={}), Assign(S['holder']['slot'], lit), S['holder']['slot']), lambda r: r),
        ('Assign-value-below-a-scope-variable-missing', (S(holder={}), Assign(S['holder']['l1']['l2'], lit, missing=dict), S['holder']['l1']['l2']), lambda r: r),
    ]


def shape_case(col, rng):
    lit, builder = gen_shape(rng, rng.randint(1, 3))
    target = {'k': ['kv'], 'n': [{'deep': 1}, 2], 'fn': (lambda x: x), 'box': None, 'h': 'hv'}
    # Fill mode
    want = builder(target, True)
    got = call(G, target, Fill(lit))
    col.case(('fill', _shape_sig(lit)), True)
    col.count('shape_checks')
    if not got.ok or not deep_equal(got.value, want):
        col.violation('C08/fill-shape:' + type(lit).__name__, 'Fill(%s): expected %s, got %r' % (short(lit), short(want), got), {'literal': short(lit)})
    elif shared_mutable(got.value, lit) is not None:
        col.violation('C08/fill-returns-the-literal-itself', 'Fill(%s): the result contains a container of the spec itself: %r'
                      % (short(lit), shared_mutable(got.value, lit)), None)
    # a Pipe is not a mode wrapper: its steps run in the mode in force, so a container that is a direct step of a Pipe inside
    # Fill is filled like the bare container
    if isinstance(lit, (tuple, list, dict)):
        for name, spec in (('Fill(Pipe(lit))', Fill(Pipe(lit))), ('Fill(Pipe(T, lit))', Fill(Pipe(T, lit)))):
            got2 = call(G, target, spec)
            col.count('shape_checks')
            if not got2.ok or not deep_equal(got2.value, want):
                col.violation('C08/fill-shape-through-pipe:' + type(lit).__name__, '%s with lit = %s: expected %s, got %r'
                              % (name, short(lit), short(want), got2), {'literal': short(lit)})
                break
    if col.want_sample('shape'):
        col.sample({'literal': short(lit), 'fill_result': short(want), 'arg_result': short(builder(target, False))}, 'shape')
    # ONE literal object filled twice under one Fill, at two different targets (behind target-changing steps; once per item)
    inner_f = {'k': ['inner-kv'], 'n': [{'deep': 2}, 3], 'fn': target['fn'], 'box': None, 'h': 'inner-hv'}
    outer_f = dict(target, inner=inner_f)
    if isinstance(lit, (tuple, list, dict)):
        got4 = call(G, outer_f, Fill({'first': Pipe(T['inner'], lit), 'second': Pipe(T, lit)}))
        col.count('shape_checks')
        want4 = {'first': builder(inner_f, True), 'second': builder(outer_f, True)}
        if not got4.ok or not deep_equal(got4.value, want4):
            col.violation('C08/fill-shape:same-literal-at-two-targets-under-one-Fill', "Fill({'first': Pipe(T['inner'], lit), 'second': Pipe(T, lit)}) "
                          'with lit = %s: expected %s, got %r' % (short(lit), short(want4), got4), {'literal': short(lit)})
    # ONE literal object in argument position twice within one call, at two different targets (a later chain step): each
    # use is rebuilt from ITS target
    inner = {'k': ['inner-kv'], 'n': [{'deep': 2}, 3], 'fn': target['fn'], 'box': None, 'h': 'inner-hv'}
    outer = dict(target, inner=inner)
    twice = (S(first=lit), T['inner'], S(second=lit), Fill([S.first, S.second]))
    got3 = call(G, outer, twice)
    col.count('shape_checks')
    want3 = [builder(outer, False), builder(inner, False)]
    if not got3.ok or not deep_equal(got3.value, want3):
        col.violation('C08/arg-shape:same-literal-at-two-targets-in-one-call', '(S(first=lit), T[\'inner\'], S(second=lit), ..) with lit = %s: '
                      'expected %s, got %r' % (short(lit), short(want3), got3), {'literal': short(lit)})
    # argument positions
    want = builder(target, False)
    for name, spec, extract in arg_positions(lit):
        got = call(G, dict(target), spec)
        col.case(('arg', name, _shape_sig(lit)), True)
        col.count('shape_checks')
        if not got.ok:
            col.violation('C08/arg-position-raises:' + name, '%s with literal %s raised %r' % (name, short(lit), got.exc), {'literal': short(lit)})
            continue
        val = extract(got.value)
        if not deep_equal(val, want):
            col.violation('C08/arg-shape:' + name, '%s with literal %s: expected %s, got %s' % (name, short(lit), short(want), short(val)),
                          {'literal': short(lit)})
            continue
        sh = shared_mutable(val, lit)
        if sh is not None:
            col.violation('C08/arg-position-hands-out-the-literal-container:%s:%s' % (name, 'empty' if not sh else 'non-empty'),
                          '%s with literal %s: the result contains the %s %r of the spec itself (not rebuilt): a caller mutating '
                          'its result would change the spec' % (name, short(lit), type(sh).__name__, sh), {'literal': short(lit)})
        col.count('rebuilt_identity_checks')


def cyclic_case(col, rng, i=None):
    """self-referential containers in argument position keep their cyclic shape"""
    kinds = ['list', 'dict', 'list-in-dict', 'two-cycle', 'cycle-through-a-node-met-twice', 'dict-cycle-one-list-under-two-keys', 'long-cycle-with-chord']
    kind = rng.choice(kinds) if i is None else kinds[i % len(kinds)]
    if kind == 'list':
        lit = [T['k'], 'lit']; lit.append(lit)
        want = [['kv'], 'lit']; want.append(want)
    elif kind == 'dict':
        lit = {'v': T['k']}; lit['self'] = lit
        want = {'v': ['kv']}; want['self'] = want
    elif kind == 'list-in-dict':
        inner = [1]; lit = {'in': inner, 'v': T['n'][1]}; inner.append(lit)
        winner = [1]; want = {'in': winner, 'v': 2}; winner.append(want)
    elif kind == 'cycle-through-a-node-met-twice':
        # a = [b, b], b = [a, T]: b is met a second time after it has been completed
        a = []; b = [a, T['k']]; a.extend([b, b]); lit = a
        wa = []; wb = [wa, ['kv']]; wa.extend([wb, wb]); want = wa
    elif kind == 'dict-cycle-one-list-under-two-keys':
        lit = {}; l = [lit, T['n'][1]]; lit['p'] = l; lit['q'] = l
        want = {}; wl = [want, 2]; want['p'] = wl; want['q'] = wl
    elif kind == 'long-cycle-with-chord':
        # a -> b -> c -> a, and a also refers to c directly (after b, which completes c first)
        a, b, c = ['a'], ['b'], ['c', T['k']]; a.append(b); b.append(c); c.append(a); a.append(c); lit = a
        wa, wb, wc = ['a'], ['b'], ['c', ['kv']]; wa.append(wb); wb.append(wc); wc.append(wa); wa.append(wc); want = wa
    else:
        a, b = [T['k']], ['b']; a.append(b); b.append(a); lit = a
        wa, wb = [['kv']], ['b']; wa.append(wb); wb.append(wa); want = wa
    target = {'k': ['kv'], 'n': [{'deep': 1}, 2], 'fn': (lambda x: x), 'box': None, 'h': 'hv'}
    for name, spec, extract in arg_positions(lit):
        if name in ('Call-args',):
            spec, extract = Call(lambda a: a, args=(lit,)), (lambda r: r)
        got = call(G, dict(target), spec)
        col.case(('cyclic', kind, name), True)
        col.count('cyclic_checks')
        if not got.ok:
            col.violation('C08/cyclic-arg-raises:' + name, '%s with a self-referential %s raised %r' % (name, kind, got.exc), None)
            continue
        val = extract(got.value)
        from ..snapshot import isomorphic
        if not isomorphic(val, want):
            col.violation('C08/cyclic-shape-lost:' + name, '%s with a self-referential %s: result %s' % (name, kind, short(val)), None)


def _shape_sig(lit, depth=0):
    if isinstance(lit, dict):
        return ('dict',) + tuple(_shape_sig(v, depth + 1) for v in lit.values())
    if isinstance(lit, (list, tuple, set, frozenset)):
        return (type(lit).__name__,) + tuple(sorted((_shape_sig(v, depth + 1) for v in lit), key=repr))
    return type(lit).__name__


def documented(col, watch):
    """the three leak witnesses of the design, as direct cases"""
    t = {'a': {'b': {'c': 1}}}
    cases = [
        ('match-then-path', t, (Match(dict), 'a.b'), {'b': {'c': 1}}['b'] if False else {'c': 1}),
        ('fill-then-path', {'a': 5}, (Fill(T), 'a'), 5),
        ('auto-in-match-then-type', {'a': 5}, Match(Pipe(Auto('a'), int)), 5),
        ('group-then-steps', [[1, 2], [3]], (Group([T]), T[0], [T]), [1, 2]),
        ('switch-value', 3, Switch([(Match(int), ('real', ))]), 3),
    ]
    for name, target, spec, want in cases:
        got = call(G, target, spec)
        col.case(('documented', name), True)
        col.count('trees_evaluated')
        if not got.ok or got.value != want:
            col.violation('C08/mode-leak-witness:' + name, 'glom(%s, %s) gave %r, expected %r' % (short(target), short(spec), got, want), None)


def constructs_that_pass_the_mode_on(col):
    """a Coalesce branch, a Pipe step, an Or / And child are evaluated in the mode in force: for every wrapper W and every kind of
    plain spec p (strings that do and do not resolve as paths on the target, tuples, lists, dicts), W(Coalesce(p)), W(Coalesce(<fails>, p)),
    W(Pipe(p)), W(Pipe(T, p)) give exactly what W(p) gives (a branch that fails under W makes the Coalesce use its default)"""
    t = {'k': 1, 'n': [1, 2], 'a': {'a': {'k': 5}, 'k': 2}, 'anonymous': 'value-under-the-key-anonymous', 'str': {'k': 'nested'}}
    probes = [('resolving-path-string', lambda: 'a.a'), ('key-string', lambda: 'anonymous'), ('key-string-2', lambda: 'k'),
              ('dotted-resolving-string', lambda: 'str.k'), ('non-resolving-string', lambda: 'zz.y'), ('tuple', lambda: ('a', 'k')),
              ('list', lambda: ['k']), ('dict', lambda: {'x': 'k'}), ('number', lambda: 7), ('type', lambda: dict)]
    D = 'DEFAULT-OF-THE-COALESCE'
    constructs = [('Coalesce(p)', lambda p: Coalesce(p, default=D), True), ('Coalesce(failing, p)', lambda p: Coalesce(T['zz_missing'], p, default=D), True),
                  ('Coalesce(p, other)', lambda p: Coalesce(p, T['k'], default=D), None),
                  ('Pipe(p)', lambda p: Pipe(p), False), ('Pipe(T, p)', lambda p: Pipe(T, p), False), ('Pipe(p, T)', lambda p: Pipe(p, T), False)]
    for wname, W in (('auto', Auto), ('fill', Fill), ('match', Match)):
        for pname, mkp in probes:
            base = call(G, t, W(mkp()))
            for cname, mk, absorbs in constructs:
                if absorbs is None and not base.ok:
                    continue       # (falls to the next alternative: covered by the other rows)
                got = call(G, t, W(mk(mkp())))
                col.case(('passes-the-mode-on', wname, pname, cname), True)
                col.count('trees_evaluated')
                col.count('mode_transparency_checks')
                if base.ok:
                    ok = got.ok and got.value == base.value and type(got.value) is type(base.value)
                elif absorbs and isinstance(base.exc, GlomError) and not type(base.exc).__name__.startswith('GlomError.wrap'):
                    # (an error that is a GlomError where it is raised; a TypeError wrapped on its way out of glom() is not)
                    ok = got.ok and got.value == D
                else:
                    ok = (not got.ok) and type(got.exc).__name__ == type(base.exc).__name__
                if not ok:
                    col.violation('C08/mode-not-passed-on:%s:%s:%s' % (wname, cname.split('(')[0], pname),
                                  '%s(%s) with p = %r on %s: %r ; %s(p) gives %r' % (W.__name__, cname, mkp(), short(t, 120), got, W.__name__, base), None)


class UserSpecType:
    """a user-defined specifier type: its INSTANCES are specs (they have glomit); the class itself is an ordinary callable"""
    def __init__(self, label='x'):
        self.label = label

    def glomit(self, target, scope):
        return ('evaluated', self.label)


def classes_of_specs_are_literals_in_argument_position(col):
    """"in argument position ... callables are kept as literals": also callables that are CLASSES whose instances are specs (glom's own
    Val, Spec, Coalesce, Fill ..., a user-defined specifier type) - passing the class around (isinstance checks, factories) is not
    using a spec"""
    lits = [('Val', lambda: Val), ('Spec', lambda: Spec), ('Coalesce', lambda: Coalesce), ('Fill', lambda: Fill), ('UserSpecType', lambda: UserSpecType),
            ('in-list', lambda: [Val, T['k']]), ('in-dict', lambda: {'cls': Spec, 'v': T['k']}), ('in-tuple', lambda: (UserSpecType, Coalesce)),
            ('instance-control', lambda: UserSpecType('inst'))]
    target = {'k': ['kv'], 'n': [{'deep': 1}, 2], 'fn': (lambda x: x), 'box': None, 'h': 'hv'}
    for lname, mk in lits:
        lit = mk()
        want = {'in-list': [Val, ['kv']], 'in-dict': {'cls': Spec, 'v': ['kv']}, 'instance-control': ('evaluated', 'inst')}.get(lname, lit)
        for name, spec, extract in arg_positions(lit):
            if name in ('Match-Optional-default',):
                continue
            got = call(G, dict(target), spec)
            col.case(('spec-class-literal', lname, name), True)
            col.count('shape_checks')
            col.count('spec_classes_in_argument_position')
            val = extract(got.value) if got.ok else None
            if not got.ok or val != want:
                col.violation('C08/class-of-specs-not-kept-as-a-literal:%s' % name if lname != 'instance-control' else 'C08/arg-shape:' + name,
                              '%s with the argument %r: %r, expected the value %r' % (name, lit, got, want), None)


def key_specs_and_reductions_keep_the_mode_in_force(col):
    """(1) the key of First is evaluated per item through an entry point of its own - still in the mode in force: W(First(p)) picks the
    first item x for which W(p) evaluated on x is truthy (calibrated per item), and fails as W(p) fails.  (2) Group mode ends with the
    Group step: a reduction chained after it, or under another mode wrapper inside it, folds its own target"""
    from glom.streaming import First
    items = [{'a': 0}, {'a': 1, 'k': 0}, {'b': 2, 'a': 3}]
    probes = [('path-string', lambda: 'a'), ('tuple', lambda: ('a',)), ('T', lambda: T['a']), ('list', lambda: ['a']), ('dict', lambda: {'k': 'a'}),
              ('number', lambda: 0), ('callable', lambda: (lambda x: x.get('k') == 0))]
    for wname, W in (('auto', Auto), ('fill', Fill), ('match', Match)):
        for pname, mkp in probes:
            want = None
            for x in items:
                o = call(G, x, W(mkp()))
                if not o.ok:
                    want = ('raise', type(o.exc).__name__)
                    break
                if o.value:
                    want = ('value', x)
                    break
            if want is None:
                want = ('value', 'none')
            for cname, mk in (('First(p)', lambda p: First(p, default='none')), ('Pipe(T, First(p))', lambda p: Pipe(T, First(p, default='none')))):
                got = call(G, list(items), W(mk(mkp())))
                col.case(('first-key-mode', wname, pname, cname), True)
                col.count('trees_evaluated')
                col.count('mode_transparency_checks')
                mine = ('value', got.value) if got.ok else ('raise', type(got.exc).__name__)
                if mine != want:
                    col.violation('C08/mode-not-passed-on:%s:First-key:%s' % (wname, pname), '%s(%s) with p = %r over %r: %r ; per item, %s(p) says %r'
                                  % (W.__name__, cname, mkp(), items, got, W.__name__, want), None)
    from glom import Sum, Flatten, Merge
    cases = [('Flatten after Group([T])', [[1, 2], [3]], lambda: (Group([T]), Flatten()), [1, 2, 3]),
             ('Sum in a dict after a Group', [[1, 2], [3, 4]], lambda: (Group([T]), {'n': Sum((T, [len]))}), {'n': 4}),
             ('Auto(Sum()) inside a Group', [[1, 2], [3, 4]], lambda: Group([Auto(Sum())]), [3, 7]),
             ('Fill(Sum()) inside a Group', [[1, 2], [3, 4]], lambda: Group([Fill(Sum())]), [3, 7]),
             ('Auto chain with Flatten as Group key', [[[1], [2]], [[3]]], lambda: Group({Auto((Flatten(), len)): [T]}), {2: [[[1], [2]]], 1: [[[3]]]}),
             ('Merge after a Group in a Pipe', [{'a': 1}, {'b': 2}], lambda: Pipe(Group([T]), Merge()), {'a': 1, 'b': 2})]
    for desc, target, mk, want in cases:
        got = call(G, target, mk())
        col.case(('group-mode-ends', desc), True)
        col.count('trees_evaluated')
        col.count('mode_transparency_checks')
        if not got.ok or got.value != want:
            col.violation('C08/mode-leak:group-mode-reaches-a-reduction-outside-it', '%s: %r, expected %r' % (desc, got, want), None)


def later_branches_after_a_branch_that_failed_in_an_argument(col):
    """the branches of a Coalesce (Or, Switch cases) are evaluated in the mode in force where it stands, whether and HOW an earlier branch
    failed: also when that branch was a T expression one of whose ARGUMENTS (operand, index, call argument) could not be evaluated"""
    target = {'total': 5, 'name': 'x', 'rows': [{'total': 1}, {'total': 2}]}
    firsts = [("T['total'] + T['bonus']", lambda: T['total'] + T['bonus']), ("T['rows'][T['idx']]", lambda: T['rows'][T['idx']]),
              ("T['name'].join(T['parts'])", lambda: T['name'].join(T['parts'])), ("T['bonus']", lambda: T['bonus']), ("'bonus'", lambda: Auto('bonus')),
              ("T['name'].join([T['parts']])", lambda: T['name'].join([T['parts']]))]
    laters = [
        ('Auto', 'string path', lambda f: Coalesce(f, 'total'), 5), ('Auto', 'tuple chain', lambda f: Coalesce(f, ('rows', len)), 2),
        ('Auto', 'dict', lambda f: Coalesce(f, {'t': 'total'}), {'t': 5}), ('Auto', 'callable', lambda f: Coalesce(f, len), 3),
        ('Auto', 'list below a step', lambda f: ('rows', Coalesce(f, ['total'])), [1, 2]), ('Auto', 'two failing branches first', lambda f: Coalesce(f, f, 'total'), 5),
        ('Auto', 'Or', lambda f: Or(f, 'total'), 5), ('Auto', 'Switch case key', lambda f: Switch([(f, Val('first')), ('total', 'name')]), 'x'),
        ('Auto', 'in a dict value next to a sibling', lambda f: {'a': Coalesce(f, 'total'), 'b': 'name'}, {'a': 5, 'b': 'x'}),
        ('Fill', 'string literal', lambda f: Fill(Coalesce(f, 'total')), 'total'), ('Fill', 'tuple literal', lambda f: Fill(Coalesce(f, (T['total'], 'x'))), (5, 'x')),
        ('Fill', 'callable', lambda f: Fill(Coalesce(f, len)), 3), ('Fill', 'dict literal', lambda f: Fill(Coalesce(f, {'t': T['total']})), {'t': 5}),
        ('Match', 'type pattern', lambda f: Match(Coalesce(f, dict)), target), ('Match', 'dict pattern', lambda f: Match(Coalesce(f, {str: object})), target),
    ]
    for fname, mk_first in firsts:
        for mode, desc, mk, want in laters:
            spec = mk(mk_first())
            got = call(G, dict(target), spec)
            col.case(('later-branch-after-argument-failure', fname, mode, desc), True)
            col.count('glom_evaluations')
            if not (got.ok and type(got.value) is type(want) and got.value == want):
                col.violation('C08/later-branch-evaluated-in-another-mode-after-an-argument-failure:' + mode, 'first branch %s, later branch: %s under %s: %s gives %r, '
                              'expected %r' % (fname, desc, mode, short(repr(spec), 160), got, want), None)


def run(ctx):
    col, rng = ctx.col, ctx.rng
    try:
        watch = ModeWatch()
        why = 'sys.monitoring unavailable'
    except AttributeError as e:
        # the five interpreter functions are hooked by name; on a tree where one of them is gone the hook cannot be placed.
        # The API-level oracles (shape, identity, cycles) below do not need it and still run; the mode part is inconclusive.
        watch, why = None, 'an interpreter function the monitor hooks is missing: %s' % e
    tracer = EvalTracer()
    tracer.install()
    col.require('probes_observed', 1000)
    col.require('mode_events', 1000)
    col.require('shape_checks', 500)
    col.require('cyclic_checks', 20)
    col.require('calibrations', 200)
    try:
        if watch is None or not watch.ok:
            col.fail_inconclusive('%s: the mode interpreters cannot be watched' % why)
            watch = None
        else:
            if ctx.shard == 0:
                documented(col, watch)
                constructs_that_pass_the_mode_on(col)
                classes_of_specs_are_literals_in_argument_position(col)
                key_specs_and_reductions_keep_the_mode_in_force(col)
                later_branches_after_a_branch_that_failed_in_an_argument(col)
            for i in range(ctx.n(3000, 30000)):
                mode_case(col, rng, watch, tracer)
        tracer.uninstall()
        for i in range(ctx.n(600, 6000)):
            shape_case(col, rng)
        for i in range(ctx.n(21, 105)):
            cyclic_case(col, rng, i)
    finally:
        tracer.uninstall()
        if watch is not None:
            watch.close()
