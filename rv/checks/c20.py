"""C20 - concurrent and re-entrant glom calls behave exactly as when run alone.

(a) Enumerated schedules: a deterministic scheduler runs 2 threads x 4 yield points
    (252 interleavings) and 3 threads x 2 yield points (1680) per program combination;
    yield points are user callables inside the specs, so the enumeration is exhaustive
    at the granularity of user-callable invocations.
(b) Free-running stress: 8-16 threads, sys.setswitchinterval(1e-6), and sys.monitoring
    LINE events inside glom's own code that call time.sleep(0) with seeded probability
    (yield injection between any two lines of the interpreter).
(c) Re-entrancy: callables that call glom() themselves (depth <= 3), inner failures
    absorbed by an outer Coalesce, inner errors re-raised with and without a prior str().
Oracle: every call's outcome signature (value / error class / full trace text,
address-free) equals the signature of the same program run alone in the same process.
Monitor: IsolationMonitor (via EvalTracer) - no frame may be handed a scope whose root
was created by another thread.
"""
import os
import sys
import time
import itertools
import threading

from .. import env
from ..util import call, exc_sig, norm_text
from ..report import short
from ..monitors import EvalTracer

glom = env.bind()
import glom.core as gcore  # noqa: E402
from glom import (T, S, A, Vars, Glommer, Invoke, Ref, Coalesce, Match, M, Fold, Sum, Flatten, Merge, Val, Spec, Pipe, Switch, Check, Iter, Assign, Call,  # noqa: E402
                  GlomError, Path, Or, glom as G)
from glom.grouping import Group, First, Max, Limit  # noqa: E402
from glom.matching import Required  # noqa: E402
from glom.reduction import Count  # noqa: E402

META = {
    'level': 'exploration',
    'rule': ('programs (target recipe, spec with yield-point callables) touching all shared state: cold and warm path strings (same '
             'text in several threads), first lookups of fresh types, wildcard paths, Group / Fold / Merge specs SHARED between '
             'threads, scope binders using the same names, Match and Switch, failing specs (trace finalisation in several threads). '
             '(a) every interleaving of 2 threads x 5 segments and 3 threads x 3 segments per program combination; (b) free-running '
             'threads under a minimal switch interval with line-level yield injection inside glom; (c) re-entrant calls to depth 3. '
             'Non-trivial: an interleaving in which every thread is pre-empted at least once; distinct by (program combination, '
             'schedule) resp. (program, nesting shape).'),
    'assumptions': [
        'exhaustive only at the granularity of user-callable invocations; finer interleavings are sampled by yield injection',
        'concurrent register() is out of scope (the statement quantifies over concurrent glom calls)',
    ],
}

tls = threading.local()


def Y(target):
    """yield point: hands control back to the scheduler when the current thread is scheduled"""
    sched = getattr(tls, 'sched', None)
    if sched is not None:
        sched.yield_point()
    hook = getattr(tls, 'reenter', None)
    if hook is not None:
        tls.reenter = None          # (the inner call's own yield points do not re-enter again)
        try:
            hook()
        finally:
            tls.reenter = hook
    return target


class Sched:
    def __init__(self, n):
        self.go = [threading.Semaphore(0) for _ in range(n)]
        self.back = threading.Semaphore(0)
        self.done = [False] * n
        self.results = [None] * n
        self.stuck = False

    def yield_point(self):
        i = tls.index
        self.back.release()
        if not self.go[i].acquire(timeout=60):
            self.stuck = True

    def worker(self, i, prog):
        tls.sched, tls.index = self, i
        self.go[i].acquire()
        try:
            self.results[i] = run_program(prog)
        finally:
            self.done[i] = True
            tls.sched = None
            self.back.release()

    def run(self, programs, schedule):
        new_epoch()
        threads = [threading.Thread(target=self.worker, args=(i, p), daemon=True) for i, p in enumerate(programs)]
        for t in threads:
            t.start()
        granted = 0
        for tid in schedule:
            if self.done[tid]:
                continue
            self.go[tid].release()
            granted += 1
            if not self.back.acquire(timeout=60):
                self.stuck = True
                return None
        # drain: let every thread finish
        for tid in range(len(programs)):
            guard = 0
            while not self.done[tid] and guard < 100:
                self.go[tid].release()
                if not self.back.acquire(timeout=60):
                    self.stuck = True
                    return None
                guard += 1
        for t in threads:
            t.join(10)
        return granted


# ---------------------------------------------------------------------------
# programs: dict(name, target(), spec() or shared spec object, yields)

class Fresh:
    pass


def render(v, depth=0):
    if depth > 10:
        return '...'
    if hasattr(v, '__next__'):
        return ('iterator', tuple(render(x, depth + 1) for x in v))
    if isinstance(v, dict):
        return (type(v).__name__, tuple((render(k, depth + 1), render(x, depth + 1)) for k, x in v.items()))
    if isinstance(v, (list, tuple)):
        return (type(v).__name__,) + tuple(render(x, depth + 1) for x in v)
    return (type(v).__name__, norm_text(repr(v)))


def signature(o):
    if o.ok:
        return ('value', render(o.value))
    return ('error',) + exc_sig(o.exc)


def run_program(prog):
    target = prog['target']()
    o = call(prog.get('entry', G), target, prog['spec'](), **prog.get('kw', {}))
    sig = signature(o)
    if 'post' in prog:
        sig += (prog['post'](target, o),)
    return sig


SHARED_GROUP = Group({lambda x: Y(x) % 3: [T]})
SHARED_FOLD = Fold(T, init=list, op=lambda acc, x: acc + [Y(x)])
SHARED_NESTED = Group({(lambda x: Y(x) % 2): {'n': Count(), 'max': Max(), 'first': First()}})
SHARED_MERGE = Merge((Y, [lambda d: Y(d)]))


def programs(n_yields):
    """programs with exactly n_yields yield points on their evaluation path (failing ones may reach fewer)"""
    def chain(*steps):
        # distribute yield points between the given steps
        out = []
        k = 0
        for s in steps:
            out.append(s)
            if k < n_yields:
                out.append(Y)
                k += 1
        while k < n_yields:
            out.append(Y)
            k += 1
        return tuple(out)
    nums = lambda: list(range(n_yields))
    P = [
        dict(name='cold-path', target=lambda: {'cold': {'p': {'q': {'r': 1}}}}, spec=lambda: chain('cold', 'p', 'q', 'r')),
        dict(name='warm-path', target=lambda: {'a': {'b': {'c': [1, 2]}}}, spec=lambda: chain('a.b', 'c', T[1])),
        dict(name='fresh-type', target=lambda: type('Fresh%d' % next(_serial), (Fresh,), {})(), spec=lambda: chain(lambda o: setattr(o, 'x', {'y': 2}) or o, 'x.y')),
        dict(name='wildcard', target=lambda: {'rows': [{'k': 1}, {'k': 2}, {'z': 3}]}, spec=lambda: chain('rows.*.k', T[0])),
        dict(name='shared-group', target=nums, spec=lambda: SHARED_GROUP),
        dict(name='shared-fold', target=nums, spec=lambda: SHARED_FOLD),
        dict(name='shared-nested-group', target=nums, spec=lambda: SHARED_NESTED),
        dict(name='scope-binders', target=lambda: {'v': threading.current_thread().name[:0] + 'val'},
             spec=lambda: chain(S(x=T['v']), A.y, S(z=S.x), {'x': S.x, 'y': S.y, 'z': S.z})),
        dict(name='globals', target=lambda: [1, 2, 3], spec=lambda: chain([(A.globals.last, T)], S.globals.last)),
        dict(name='match', target=lambda: {'id': 1, 'tags': ['a', 'b']}, spec=lambda: chain(Match({'id': int, 'tags': [str]}), 'tags', T[0])),
        dict(name='switch', target=lambda: 4, spec=lambda: chain(Match(Switch([(M < 3, Val('small')), (M >= 3, Val('big'))])))),
        dict(name='failing-path', target=lambda: {'a': {'b': 1}}, spec=lambda: chain('a') + ('b.c.d',)),
        dict(name='failing-coalesce', target=lambda: {'a': 1}, spec=lambda: chain(T) + (Coalesce('x', 'y.z', T['q']),)),
        dict(name='failing-match', target=lambda: {'id': 'x'}, spec=lambda: chain(T) + (Match({'id': int}),)),
        dict(name='default', target=lambda: {}, spec=lambda: chain(T) + ('zz.y',), kw={'default': 'DFLT'}),
        dict(name='assign', target=lambda: {'a': {}}, spec=lambda: chain(Assign('a.b', 5), 'a.b')),
        # yield points INSIDE the container handlers (element / value / branch / predicate evaluation)
        dict(name='list-elements', target=nums, spec=lambda: [lambda x: Y(x) * 2]),
        dict(name='dict-values', target=lambda: {'v': 3}, spec=lambda: {('k%d' % i): (Y, 'v') for i in range(n_yields)} or 'v'),
        dict(name='nested-lists', target=lambda: [[i, i + 1] for i in range(max(n_yields // 2, 1))], spec=lambda: [[lambda x: Y(x) + 1]]),
        dict(name='coalesce-branches', target=lambda: {'a': 1},
             spec=lambda: Coalesce(*[(Y, 'zz%d' % i) for i in range(max(n_yields - 1, 0))] + [(Y, 'a') if n_yields else 'a'])),
        dict(name='match-predicates', target=nums, spec=lambda: Match([lambda x: Y(x) is not None])),
        dict(name='iter-map', target=nums, spec=lambda: Iter().map(Y).map(T + 1).all()),
        dict(name='flatten-sub', target=lambda: [[i] for i in range(n_yields)], spec=lambda: Flatten([lambda x: Y(x)])),
        dict(name='check-validate', target=nums, spec=lambda: [Check(validate=lambda x: Y(x) >= 0)]),
        dict(name='star-then-yield', target=lambda: {'r': [{'k': i} for i in range(n_yields)]}, spec=lambda: ('r.*.k', [Y])),
        dict(name='failing-in-list', target=nums, spec=lambda: [lambda x: Y(x)] if not n_yields else ([lambda x: Y(x)], T[99])),
        # ONE First(...) spec object shared by calls whose scope binds the same name to different values; the key spec yields
        # before it reads the binding
        dict(name='shared-first-3', family='first', target=lambda: {'lim': 3, 'items': list(range(10))}, spec=lambda: _shared_first(n_yields)),
        dict(name='shared-first-6', family='first', target=lambda: {'lim': 6, 'items': list(range(10))}, spec=lambda: _shared_first(n_yields)),
        # ONE Coalesce object, all of whose branches yield and then fail, shared by overlapping calls: each call's CoalesceError
        # lists its own attempts only
        dict(name='shared-coalesce-exhausted-a', family='coalesce', target=lambda: {'a': 1}, spec=lambda: _shared_coalesce(n_yields)),
        dict(name='shared-coalesce-exhausted-b', family='coalesce', target=lambda: {'b': 2, 'zz0': {}}, spec=lambda: _shared_coalesce(n_yields)),
        # ONE S(v=Vars(last='init')) step shared by calls that write into their Vars between two reads
        dict(name='shared-vars-a', family='vars', target=lambda: {'me': 'a'}, spec=lambda: _shared_vars(n_yields)),
        dict(name='shared-vars-b', family='vars', target=lambda: {'me': 'b'}, spec=lambda: _shared_vars(n_yields)),
        # ONE Iter(..).unique() pipeline object shared by overlapping calls: each call de-duplicates its own stream
        dict(name='shared-unique', family='unique', target=lambda: [i % 3 for i in range(max(n_yields, 1))], spec=lambda: _shared_unique(),
             fresh=lambda: Iter(Y).unique().map(T * 10).all()),
        dict(name='shared-unique-b', family='unique', target=lambda: [(i + 1) % 4 for i in range(max(n_yields, 1))], spec=lambda: _shared_unique()),
        # ONE Iter pipeline object evaluated through two different registries (plain glom, and a Glommer that iterates Rows
        # objects with a header line): each call iterates its target the way ITS registry says
        dict(name='shared-iter-default-registry', family='iter-reg', target=lambda: Rows(['x', 'y'][:max(min(n_yields, 2), 1)]), spec=lambda: _shared_iter(), fresh=lambda: Iter(Y).map(T * 2).all()),
        dict(name='shared-iter-own-registry', family='iter-reg', target=lambda: Rows(['x', 'y'][:max(min(n_yields, 2), 1)]), spec=lambda: _shared_iter(), entry=_ROWS_GLOMMER.glom,
             fresh=lambda: Iter(Y).map(T * 2).all()),
        # ONE Invoke object whose **kwargs come from the target (different keys per call) on top of constants
        dict(name='shared-invoke-star-a', family='invoke', target=lambda: {'opts': {'upper': True}}, spec=lambda: _shared_invoke(),
             fresh=lambda: Invoke(_kw_collect).constants(sep=', ').star(kwargs=(Y, 'opts'))),
        dict(name='shared-invoke-star-b', family='invoke', target=lambda: {'opts': {}}, spec=lambda: _shared_invoke(),
             fresh=lambda: Invoke(_kw_collect).constants(sep=', ').star(kwargs=(Y, 'opts'))),
        dict(name='shared-invoke-star-c', family='invoke', target=lambda: {'opts': {'lower': 1, 'sep': '|'}}, spec=lambda: _shared_invoke(),
             fresh=lambda: Invoke(_kw_collect).constants(sep=', ').star(kwargs=(Y, 'opts'))),
        # wildcards over ONE class through two registries that walk it differently (no spec object is shared here: whatever
        # is remembered about the class must be remembered per registry)
        dict(name='star-default-registry', family='star-reg', target=lambda: {'r': SlotRows(['x', 'y'])}, spec=lambda: chain('r.*'), expect_value=[]),
        dict(name='star-own-registry', family='star-reg', target=lambda: {'r': SlotRows(['x', 'y'])}, spec=lambda: chain('r.*'), entry=_ROWS_GLOMMER.glom,
             expect_value=['hdr', 'x', 'y']),
        # ONE Assign(.., missing=factory) object whose factory yields: each call stores ITS value in ITS target
        dict(name='shared-assign-missing-a', family='assign-missing', target=lambda: {'v': threading.get_ident()}, spec=lambda: _shared_assign_missing(), fresh=lambda: _mk_assign_missing()),
        dict(name='shared-assign-missing-b', family='assign-missing', target=lambda: {'v': 'b', 'x': {}}, spec=lambda: _shared_assign_missing(), fresh=lambda: _mk_assign_missing()),
        # two DIFFERENT specs that both define Ref('node', ..) (one sums a tree, one lists it), each with a yield inside the body
        dict(name='ref-node-sum', family='ref-node', target=lambda: _ref_tree(), spec=lambda: _ref_sum_spec()),
        dict(name='ref-node-list', family='ref-node', target=lambda: _ref_tree(), spec=lambda: _ref_list_spec()),
        # ONE spec with EMPTY container literals in argument position that its own steps then fill in place
        dict(name='shared-empty-literal-a', family='empty-literal', target=lambda: [1, 2], spec=lambda: _shared_empty_literal(), fresh=lambda: _mk_empty_literal()),
        dict(name='shared-empty-literal-b', family='empty-literal', target=lambda: [10, 20, 30], spec=lambda: _shared_empty_literal(), fresh=lambda: _mk_empty_literal()),
        # a Check that collects several failure messages, with a yield (a re-entry point) between the conditions
        dict(name='check-collects-messages', target=lambda: 5,
             spec=lambda: Check(validate=(lambda v: Y(v) is not None, lambda v: Y(v) is None, lambda v: Y(v) == 6), instance_of=str, equal_to=7)),
        dict(name='check-collects-messages-default', target=lambda: [5, 'five'],
             spec=lambda: [Check(validate=(lambda v: Y(v) is not None, lambda v: Y(v) is None), type=int, default='rejected')]),
        # ONE Sum / Flatten / Count object used as the aggregator of a Group by one call and as a plain reduction by another;
        # its subspec yields
        dict(name='shared-sum-as-aggregator', family='two-roles', target=lambda: [1, 2, 3, 4][:max(n_yields, 1)], spec=lambda: Group({(lambda x: x % 2): _TWO_ROLES['sum']}),
             fresh=lambda: Group({(lambda x: x % 2): Sum((Y, T))})),
        dict(name='shared-sum-as-reduction', family='two-roles', target=lambda: [10, 20, 30], spec=lambda: _TWO_ROLES['sum'], fresh=lambda: Sum((Y, T))),
        dict(name='shared-flatten-as-aggregator', family='two-roles', target=lambda: [[1], [2, 3], [4]][:max(n_yields, 1)], spec=lambda: Group(_TWO_ROLES['flatten']),
             fresh=lambda: Group(Flatten((Y, T)))),
        dict(name='shared-flatten-as-reduction', family='two-roles', target=lambda: [[7], [8, 9]], spec=lambda: _TWO_ROLES['flatten'], fresh=lambda: Flatten((Y, T))),
        dict(name='shared-sum-failing-reduction', family='two-roles', target=lambda: 42, spec=lambda: _TWO_ROLES['sum']),
        # every call raises an exception of ITS OWN class; all these classes share one __name__
        dict(name='same-named-exceptions', target=lambda: {'cls': type('NotFound', (LookupError,) if next(_serial) % 2 else (ValueError,), {})},
             spec=lambda: chain(T) + (lambda t: (_ for _ in ()).throw(t['cls']('nf')),),
             post=lambda target, o: ('caught-as-own-class', (not o.ok) and isinstance(o.exc, target['cls']),
                                     'bases', sorted(b.__name__ for b in type(o.exc).__mro__ if b.__name__ in ('LookupError', 'ValueError')) == sorted(b.__name__ for b in target['cls'].__mro__ if b.__name__ in ('LookupError', 'ValueError')) if not o.ok else None)),
        # calls that have already caught and KEPT an "unregistered target" error of a branch (for their trace) when they yield, while
        # other calls fail with an error of the same kind (same operation, same type) at another path: each call's trace shows
        # its own path on its own failed branch
        dict(name='kept-unregistered-error-rows', family='kept-error', target=lambda: {'rows': 3, 'x': 1},
             spec=lambda: Coalesce(('rows', [T]), chain(T) + ('zz_missing',))),
        dict(name='kept-unregistered-error-deep', family='kept-error', target=lambda: {'deep': {'count': 5}},
             spec=lambda: Coalesce(('deep', 'count', [T]), ('deep', Coalesce(('count', Iter().all()), chain(T) + (T['nope'],))))),
        dict(name='unregistered-elsewhere', family='kept-error', target=lambda: {'total': 3}, spec=lambda: chain(T) + (('total', [T]),)),
        dict(name='unregistered-elsewhere-with-default', family='kept-error', target=lambda: {'n': [7, 8]},
             spec=lambda: chain(T) + (Coalesce(('n', T[0], [T]), default='not iterable'),)),
        # ONE reduction object whose subspec is LAZY (an Iter with a yielding callable), so the yield points lie inside the folding
        # loop, while the accumulator is alive: Merge with its default op, Sum / Fold over start values that += changes in place
        # (list, Counter), Flatten - each call folds into an accumulator of its own
        dict(name='lazy-merge-a', family='lazy-merge', target=lambda: [{'a': 1}, {'b': 2}, {'a': 3}], spec=lambda: _LAZY_RED['merge'], fresh=lambda: Merge(Iter(Y))),
        dict(name='lazy-merge-b', family='lazy-merge', target=lambda: [{'x': 9}, {'y': 8}], spec=lambda: _LAZY_RED['merge'], fresh=lambda: Merge(Iter(Y))),
        dict(name='lazy-sum-list-a', family='lazy-sum-list', target=lambda: [[1], [2, 3]], spec=lambda: _LAZY_RED['sum-list'], fresh=lambda: Sum(Iter(Y), init=list)),
        dict(name='lazy-sum-list-b', family='lazy-sum-list', target=lambda: [['p'], ['q'], ['r']], spec=lambda: _LAZY_RED['sum-list'], fresh=lambda: Sum(Iter(Y), init=list)),
        dict(name='lazy-sum-counter-a', family='lazy-sum-counter', target=lambda: ['ab', 'a'], spec=lambda: _LAZY_RED['sum-counter'],
             fresh=lambda: Sum(Iter((Y, _collections.Counter)), init=_collections.Counter)),
        dict(name='lazy-sum-counter-b', family='lazy-sum-counter', target=lambda: ['zz', 'y', 'z'], spec=lambda: _LAZY_RED['sum-counter'],
             fresh=lambda: Sum(Iter((Y, _collections.Counter)), init=_collections.Counter)),
        dict(name='lazy-flatten', family='lazy-flatten', target=lambda: [[1, 2], [3]], spec=lambda: _LAZY_RED['flatten'], fresh=lambda: Flatten(Iter(Y))),
        dict(name='lazy-fold-list', family='lazy-fold', target=lambda: [5, 6, 7], spec=lambda: _LAZY_RED['fold'],
             fresh=lambda: Fold(Iter(Y), init=list, op=lambda acc, x: (acc.append(x), acc)[1])),
        # the same kinds of object, NEW for every schedule: the first evaluations of a spec object overlap
        dict(name='first-use-merge-a', family='first-use-merge', target=lambda: [{'a': 1}, {'b': 2}, {'a': 3}], spec=lambda: _per_epoch('merge', lambda: Merge(Iter(Y)))),
        dict(name='first-use-merge-b', family='first-use-merge', target=lambda: [{'x': 9}, {'y': 8}], spec=lambda: _per_epoch('merge', lambda: Merge(Iter(Y)))),
        dict(name='first-use-merge-named-op', family='first-use-merge-od', target=lambda: [{'a': 1}, {'b': 2}],
             spec=lambda: _per_epoch('merge-od', lambda: (Merge(Iter(Y), init=_collections.OrderedDict, op='update'), dict))),
        dict(name='first-use-merge-named-op-b', family='first-use-merge-od', target=lambda: [{'c': 3}, {'a': 4}, {'d': 5}],
             spec=lambda: _per_epoch('merge-od', lambda: (Merge(Iter(Y), init=_collections.OrderedDict, op='update'), dict))),
        dict(name='first-use-sum-list', target=lambda: [[1], [2, 3]], spec=lambda: _per_epoch('sum-list', lambda: Sum(Iter(Y), init=list))),
        dict(name='first-use-group', target=lambda: list(range(max(n_yields, 2))), spec=lambda: _per_epoch('group', lambda: Group({(lambda x: Y(x) % 2): [T]}))),
        dict(name='first-use-unique', target=lambda: [i % 2 for i in range(max(n_yields, 2))], spec=lambda: _per_epoch('unique', lambda: Iter(Y).unique().all())),
        dict(name='first-use-first', family='first-use-first', target=lambda: {'lim': 1, 'items': list(range(6))},
             spec=lambda: _per_epoch('first', lambda: (S(lim=T['lim']), 'items', Iter().first(key=(Y, Call(lambda a, b: a > b, args=(T, S.lim))), default='none')))),
        dict(name='first-use-first-b', family='first-use-first', target=lambda: {'lim': 4, 'items': list(range(6))},
             spec=lambda: _per_epoch('first', lambda: (S(lim=T['lim']), 'items', Iter().first(key=(Y, Call(lambda a, b: a > b, args=(T, S.lim))), default='none')))),
        # overlapping calls that go through ONE Glommer, or are given ONE scope= dict object: each call has its own bindings, its own
        # S.globals, its own trace - the Glommer's frozen scope and the caller's dict are read, never written
        dict(name='one-glommer-bindings-x', family='one-glommer', target=lambda: {'v': 'X-value', 'n': [1, 2]}, entry=_ROWS_GLOMMER.glom,
             spec=lambda: chain(S(x=T['v']), A.globals.g, (T['n'], [A.globals.last]), T) + ({'x': S.x, 'g': (S.globals.g, 'v'), 'last': S.globals.last},)),
        dict(name='one-glommer-bindings-y', family='one-glommer', target=lambda: {'v': 'Y-value', 'n': [7]}, entry=_ROWS_GLOMMER.glom,
             spec=lambda: chain(S(x=T['v']), A.globals.g, (T['n'], [A.globals.last]), T) + ({'x': S.x, 'g': (S.globals.g, 'v'), 'last': S.globals.last},)),
        dict(name='one-glommer-failing', family='one-glommer', target=lambda: {'v': 'Z-value'}, entry=_ROWS_GLOMMER.glom,
             spec=lambda: chain(S(x=T['v']), A.globals.g) + (Coalesce(S.globals.nope, (S.x, T['zz'])),)),
        dict(name='one-scope-dict-a', family='one-scope-dict', target=lambda: {'v': 'A-value'}, kw={'scope': _ONE_SCOPE_DICT},
             spec=lambda: chain(S(x=T['v']), A.globals.g, T) + ({'x': S.x, 'unit': S.unit, 'g': (S.globals.g, 'v')},)),
        dict(name='one-scope-dict-b', family='one-scope-dict', target=lambda: {'v': 'B-value'}, kw={'scope': _ONE_SCOPE_DICT},
             spec=lambda: chain(S(x=T['v']), A.globals.g, T) + ({'x': S.x, 'unit': S.unit, 'g': (S.globals.g, 'v')},),
             post=lambda target, o: ('keys-of-the-caller-dict', sorted(repr(k) for k in list(_ONE_SCOPE_DICT) if isinstance(k, str)))),
        # ONE Match(.., default=..) object evaluated through glom(), .matches() and .verify() by overlapping calls: glom() honours the
        # default, verify() raises, matches() answers - each as when run alone
        dict(name='shared-match-default-glom', family='shared-match', target=lambda: {'v': 1, 'id': 'not-an-int'}, spec=lambda: _SHARED_MATCH['default']),
        dict(name='shared-match-default-glom-ok', family='shared-match', target=lambda: {'v': 1, 'id': 5}, spec=lambda: _SHARED_MATCH['default']),
        dict(name='shared-match-default-matches', family='shared-match', target=lambda: {'v': 2, 'id': 'not-an-int'}, spec=lambda: _SHARED_MATCH['default'],
             entry=lambda target, spec, **kw: spec.matches(target)),
        dict(name='shared-match-default-verify', family='shared-match', target=lambda: {'v': 3, 'id': None}, spec=lambda: _SHARED_MATCH['default'],
             entry=lambda target, spec, **kw: spec.verify(target)),
        dict(name='shared-match-default-verify-ok', family='shared-match', target=lambda: {'v': 3, 'id': 3}, spec=lambda: _SHARED_MATCH['default'],
             entry=lambda target, spec, **kw: spec.verify(target)),
        # ONE dict pattern with a Required key and a catch-all whose value spec yields, shared by calls whose targets have / lack that key
        dict(name='shared-required-key-present', family='shared-required', target=lambda: {'other': 1, 'name': 'n'}, spec=lambda: _SHARED_MATCH['required']),
        dict(name='shared-required-key-absent', family='shared-required', target=lambda: {'other': 2, 'more': 3}, spec=lambda: _SHARED_MATCH['required']),
        dict(name='shared-required-type-key-present', family='shared-required-type', target=lambda: {1: 'x', 'name': 'n'}, spec=lambda: _SHARED_MATCH['required-type']),
        dict(name='shared-required-type-key-absent', family='shared-required-type', target=lambda: {1: 'x', 2: 'y'}, spec=lambda: _SHARED_MATCH['required-type']),
        # calls made with glom_debug=True overlapping calls made without it: each call's errors are wrapped, traced and caught by its own
        # default= / Coalesce exactly as when it runs alone
        dict(name='debug-call-succeeding', family='glom-debug', target=lambda: {'a': {'b': 1}}, spec=lambda: chain('a', 'b'), kw={'glom_debug': True}),
        dict(name='debug-call-failing', family='glom-debug', target=lambda: {'a': 1}, spec=lambda: chain(T) + (lambda t: int('not a number'),), kw={'glom_debug': True}),
        dict(name='plain-call-raising-valueerror', family='glom-debug', target=lambda: {'a': 1}, spec=lambda: chain(T) + (lambda t: int('x' * 3),)),
        dict(name='plain-call-missing-path', family='glom-debug', target=lambda: {'a': {}}, spec=lambda: chain('a') + ('b.c',)),
        dict(name='plain-call-with-default', family='glom-debug', target=lambda: {'a': {}}, spec=lambda: chain('a') + ('b.c',), kw={'default': 'DFLT'}),
        dict(name='plain-call-inner-failure-absorbed', family='glom-debug', target=lambda: {'a': 1},
             spec=lambda: chain(T) + (Coalesce((T, lambda t: G(t, 'zz.y')), default='absorbed'),)),
        # container literals in ARGUMENT position whose construction is interrupted by a yield point; the spec objects are
        # shared between threads (a memo keyed by id(spec) that outlives one call would hand one call another call's value)
        dict(name='shared-arg-default', target=lambda: {'v': threading.get_ident()}, spec=lambda: _shared_arg('default', n_yields)),
        dict(name='shared-arg-call', target=lambda: {'v': threading.get_ident()}, spec=lambda: _shared_arg('call', n_yields)),
        dict(name='shared-arg-scope', target=lambda: {'v': threading.get_ident()}, spec=lambda: _shared_arg('scope', n_yields)),
    ]
    return P


_SHARED_ARG = {}
_SHARED_FIRST = {}
_ONE_SCOPE_DICT = {'unit': 'cm'}
# spec objects shared by the calls of ONE schedule and built anew for every schedule (and for every run alone): their very first
# evaluations overlap - state that a constructor prepares "for the first use" is seen by exactly one call
_EPOCH = [0]
_EPOCH_CACHE = {}
_EPOCH_LOCK = threading.Lock()


def _per_epoch(key, mk):
    with _EPOCH_LOCK:
        k = (_EPOCH[0], key)
        if k not in _EPOCH_CACHE:
            if len(_EPOCH_CACHE) > 200:
                _EPOCH_CACHE.clear()
            _EPOCH_CACHE[k] = mk()
        return _EPOCH_CACHE[k]


def new_epoch():
    with _EPOCH_LOCK:
        _EPOCH[0] += 1
_TWO_ROLES = {'sum': Sum((Y, T)), 'flatten': Flatten((Y, T))}
_SHARED_MATCH = {'default': Match({'v': lambda x: Y(x) is not None, 'id': int}, default='DFLT'),
                 'required': Match({'name': str, str: lambda x: Y(x) is not None}),
                 'required-type': Match({Required(str): str, object: lambda x: Y(x) is not None})}
import collections as _collections  # noqa: E402
_LAZY_RED = {'merge': Merge(Iter(Y)), 'sum-list': Sum(Iter(Y), init=list), 'sum-counter': Sum(Iter((Y, _collections.Counter)), init=_collections.Counter),
             'flatten': Flatten(Iter(Y)), 'fold': Fold(Iter(Y), init=list, op=lambda acc, x: (acc.append(x), acc)[1])}


def _shared_first(n):
    import operator
    if n not in _SHARED_FIRST:
        key = (Y, Call(operator.gt, args=(T, S.lim)))
        _SHARED_FIRST[n] = (S(lim=T['lim']), 'items', Iter().first(key=key, default='none'))
    return _SHARED_FIRST[n]


_SHARED_COAL = {}
_SHARED_VARS = {}


class Rows(list):
    """a list subclass that the private Glommer below iterates with a header line"""


class SlotRows:
    """no __dict__: the default registry knows no way to walk it, the private Glommer below iterates it"""
    __slots__ = ('items',)

    def __init__(self, items):
        self.items = items


_ROWS_GLOMMER = Glommer()
_ROWS_GLOMMER.register(Rows, iterate=lambda rows: iter(['hdr'] + list(rows)))
_ROWS_GLOMMER.register(SlotRows, iterate=lambda rows: iter(['hdr'] + list(rows.items)))
_SHARED_ITER = []
_SHARED_INVOKE = []


def _shared_iter():
    if not _SHARED_ITER:
        _SHARED_ITER.append(Iter(Y).map(T * 2).all())
    return _SHARED_ITER[0]


def _kw_collect(**kw):
    return sorted(kw.items())


def _shared_invoke():
    if not _SHARED_INVOKE:
        _SHARED_INVOKE.append(Invoke(_kw_collect).constants(sep=', ').star(kwargs=(Y, 'opts')))
    return _SHARED_INVOKE[0]


def _ref_tree():
    return {'v': 1, 'kids': [{'v': 2, 'kids': []}, {'v': 3, 'kids': [{'v': 4, 'kids': []}]}]}


_REF_SPECS = {}


def _ref_sum_spec():
    if 'sum' not in _REF_SPECS:
        _REF_SPECS['sum'] = Ref('node', (Y, {'v': 'v', 'below': ('kids', [Ref('node')], [T['v'] + T['below']], Sum())}, T))
    return _REF_SPECS['sum']


def _ref_list_spec():
    if 'list' not in _REF_SPECS:
        _REF_SPECS['list'] = Ref('node', (Y, {'me': 'v', 'sub': ('kids', [Ref('node')])}))
    return _REF_SPECS['list']


_SHARED_EMPTY = []


def _mk_empty_literal():
    return (S(acc=[], seen={}), [(Y, S.acc.append(T))], {'acc': S.acc, 'n': (S.acc, len), 'seen': S.seen})


def _shared_empty_literal():
    if not _SHARED_EMPTY:
        _SHARED_EMPTY.append(_mk_empty_literal())
    return _SHARED_EMPTY[0]


_SHARED_ASSIGN = []


def _yielding_factory():
    Y(None)
    return {}


def _mk_assign_missing():
    return (Assign(Path('x', 'y', 'z'), T['v'], missing=_yielding_factory), 'x.y.z', _own_thread_only)


def _shared_assign_missing():
    if not _SHARED_ASSIGN:
        _SHARED_ASSIGN.append(_mk_assign_missing())
    return _SHARED_ASSIGN[0]


_SHARED_UNIQUE = []


def _shared_unique():
    if not _SHARED_UNIQUE:
        _SHARED_UNIQUE.append(Iter(Y).unique().map(T * 10).all())
    return _SHARED_UNIQUE[0]


def _shared_coalesce(n):
    if n not in _SHARED_COAL:
        _SHARED_COAL[n] = Coalesce(*[(Y, 'zz%d.q' % i) for i in range(max(n, 2))])
    return _SHARED_COAL[n]


def _shared_vars(n):
    if n not in _SHARED_VARS:
        pads = {('pad%d' % i): (Y, Val(i)) for i in range(max(n - 2, 0))}
        body = {'before': (Y, S.v.last)}
        body.update(pads)
        body.update({'write': ('me', A.v.last), 'after': (Y, S.v.last)})
        _SHARED_VARS[n] = (S(v=Vars(last='init')), body)
    return _SHARED_VARS[n]


def _tid_free(v):
    return v


def _shared_arg(kind, n):
    """one spec object per (kind, n), shared by every thread: a list/dict literal in argument position with n sub-specs that
    each run a user callable (the yield point) and then read the target"""
    key = (kind, n)
    if key not in _SHARED_ARG:
        lit = [Spec((Y, 'v')) for _ in range(max(n, 1))] + [{'k': Spec((Y, 'v')) if n > 1 else T['v']}]
        if kind == 'default':
            sp = (Coalesce(T['zz'], default=lit), _own_thread_only)
        elif kind == 'call':
            sp = (Call(lambda a, kw=None: (a, kw), args=(lit,), kwargs={'kw': {'d': lit}}), _own_thread_only)
        else:
            sp = (S(x=lit), S.x, _own_thread_only)
        _SHARED_ARG[key] = sp
    return _SHARED_ARG[key]


def _own_thread_only(value):
    """normalise: every leaf must be the calling thread's own target value"""
    me = threading.get_ident()

    def walk(v):
        if isinstance(v, dict):
            return {k: walk(x) for k, x in v.items()}
        if isinstance(v, (list, tuple)):
            return type(v)(walk(x) for x in v)
        if isinstance(v, int) and not isinstance(v, bool):
            return 'own' if v == me else 'FOREIGN-OR-STALE(%r)' % v
        return v
    return walk(value)


_serial = itertools.count()


def interleavings(counts):
    """all distinct sequences over thread ids with counts[i] occurrences of i"""
    items = []
    for i, c in enumerate(counts):
        items += [i] * c
    seen = set()

    def rec(remaining, prefix):
        if not any(remaining):
            yield tuple(prefix)
            return
        for i, c in enumerate(remaining):
            if c:
                remaining[i] -= 1
                prefix.append(i)
                yield from rec(remaining, prefix)
                prefix.pop()
                remaining[i] += 1
    return rec(list(counts), [])


class IsolationMonitor:
    def __init__(self, tracer):
        self.owner = {}
        self.violations = []
        self.frames = 0
        self.lock = threading.Lock()
        tracer.on_enter = self.on_enter

    def on_enter(self, f, scope):
        self.frames += 1
        try:
            root = scope[gcore.ROOT]
        except KeyError:
            return
        me = threading.get_ident()
        if root is scope:
            self.owner[id(root)] = (me, root)
            return
        own = self.owner.get(id(root))
        if own is not None and own[1] is root and own[0] != me:
            if len(self.violations) < 10:
                self.violations.append('thread %d evaluates %r in a scope whose root was created by thread %d' % (me, f.spec, own[0]))


def enumerated(col, rng, mon, n_threads, n_yields, max_schedules, combos, self_schedules=25):
    P = programs(n_yields)
    def alone_(p):
        new_epoch()
        return run_program(p)
    isolated = {p['name']: alone_(p) for p in P}
    again = {p['name']: alone_(p) for p in P}
    # the degenerate schedule - one call after the other, no overlap - with a spec object that other calls (of this or another
    # program, through this or another registry) have used before: same outcome as with a freshly built equal spec object
    for p in P:
        if 'expect_value' in p:
            col.count('known_outcomes_checked')
            if isolated[p['name']] != ('value', render(p['expect_value'])) or again[p['name']] != isolated[p['name']]:
                col.violation('C20/call-sees-state-of-calls-through-another-registry:' + p['name'],
                              'program %s run alone (after the other programs ran alone): %s then %s, expected the value %r'
                              % (p['name'], short(isolated[p['name']], 200), short(again[p['name']], 200), p['expect_value']), {'program': p['name']})
                return
        if 'fresh' in p:
            alone = run_program(dict(p, spec=p['fresh']))
            col.count('fresh_object_baselines')
            for which, got in (('first', isolated[p['name']]), ('second', again[p['name']])):
                if got != alone:
                    col.violation('C20/sequential-reuse-of-shared-object-differs-from-fresh-object:' + p['name'],
                                  'program %s, %s sequential run with the shared spec object: %s ; with a freshly built equal spec: %s'
                                  % (p['name'], which, short(got, 300), short(alone, 300)), {'program': p['name']})
                    return
    for name in isolated:
        if isolated[name] != again[name]:
            col.fail_inconclusive('program %s is not deterministic when run alone' % name)
            return
    all_scheds = list(interleavings([n_yields + 1] * n_threads))
    # every program against itself (same shared spec object / same path texts / same handler code in all threads),
    # then random mixed combinations
    plan = [([p] * n_threads, self_schedules) for p in P]
    # programs of one family share an object (or a name, or a class seen through two registries): every ordered pair of them
    fams = {}
    for p in P:
        if 'family' in p:
            fams.setdefault(p['family'], []).append(p)
    for fam in sorted(fams):
        for a_ in fams[fam]:
            for b_ in fams[fam]:
                if a_ is not b_:
                    plan.append(([a_, b_] + [rng.choice(fams[fam]) for _ in range(n_threads - 2)], self_schedules))
                    col.count('family_pairs_planned')
    plan += [([rng.choice(P) for _ in range(n_threads)], max_schedules) for _ in range(combos)]
    for progs, n_s in plan:
        scheds = all_scheds if len(all_scheds) <= n_s else rng.sample(all_scheds, n_s)
        names = tuple(p['name'] for p in progs)
        for sched in scheds:
            s = Sched(n_threads)
            granted = s.run(progs, sched)
            if s.stuck or granted is None:
                col.fail_inconclusive('scheduler stuck on %s %s' % (names, sched))
                return
            preempted = all(any(sched[i] == t and sched[i + 1] != t for i in range(len(sched) - 1)) for t in range(n_threads))
            col.case((names, sched), preempted)
            col.count('interleavings_executed')
            col.count('segments_granted', granted)
            for i, p in enumerate(progs):
                if s.results[i] != isolated[p['name']]:
                    col.violation('C20/outcome-differs-under-interleaving:%s' % p['name'],
                                  'programs %s under schedule %s: thread %d (%s) got %s ; alone it gives %s'
                                  % (names, sched, i, p['name'], short(s.results[i], 500), short(isolated[p['name']], 500)),
                                  {'programs': names, 'schedule': list(sched)})
                    return
            if mon.violations:
                col.violation('C20/foreign-scope-root', mon.violations[0], {'programs': names, 'schedule': list(sched)})
                del mon.violations[:]
                return
        if col.want_sample('enumerated-%d' % n_threads):
            col.sample({'threads': n_threads, 'programs': names, 'schedules_run': len(scheds), 'of': len(all_scheds),
                        'example_schedule': list(scheds[0])}, 'enumerated-%d' % n_threads)


class YieldInjector:
    """sys.monitoring LINE events inside glom's code: sleep(0) with seeded probability"""
    def __init__(self, seed, per_mille=30):
        self.mon = getattr(sys, 'monitoring', None)
        self.ok = False
        self.injections = 0
        self.lines = 0
        self.counter = itertools.count(seed * 7919 + 1)
        self.per_mille = per_mille
        if self.mon is None:
            return
        import os
        self.pkg = os.path.dirname(os.path.abspath(gcore.__file__))
        for tid in (5, 4, 3, 2):
            try:
                self.mon.use_tool_id(tid, 'rv-yield')
                self.tool = tid
                break
            except ValueError:
                continue
        else:
            return
        self.mon.register_callback(self.tool, self.mon.events.LINE, self._cb)
        self.ok = True

    def start(self):
        self.mon.set_events(self.tool, self.mon.events.LINE)

    def stop(self):
        self.mon.set_events(self.tool, 0)

    def _cb(self, code, line):
        if not code.co_filename.startswith(self.pkg):
            return self.mon.DISABLE
        self.lines += 1
        n = next(self.counter)
        if (n * 2654435761) % 1000 < self.per_mille:
            self.injections += 1
            time.sleep(0)

    def close(self):
        if self.ok:
            self.stop()
            self.mon.register_callback(self.tool, self.mon.events.LINE, None)
            self.mon.free_tool_id(self.tool)
            self.ok = False


def stress(col, rng, mon, n_threads, calls_per_thread, inject, only_shared=False):
    P = programs(2)
    if only_shared:
        # all threads hammer the same spec objects: races finer than callable granularity (a load and a store of
        # state kept on the spec, separated by a pre-emption) need many concurrent evaluations of one object
        P = [p for p in P if p['name'].startswith('shared-')]
        big = lambda: list(range(12))
        P = [dict(p, target=big) for p in P]
    isolated = {p['name']: run_program(p) for p in P}
    plan = [[rng.choice(P) for _ in range(calls_per_thread)] for _ in range(n_threads)]
    mismatches = []
    errors = []
    start = threading.Barrier(n_threads)

    def worker(i):
        try:
            start.wait(30)
            for p in plan[i]:
                got = run_program(p)
                if got != isolated[p['name']]:
                    mismatches.append((p['name'], got, isolated[p['name']]))
                    return
        except Exception as e:    # harness problem
            errors.append(repr(e))
    old = sys.getswitchinterval()
    sys.setswitchinterval(1e-6)
    inj = None
    if inject:
        inj = YieldInjector(env.seed() + n_threads)
        if inj.ok:
            inj.start()
    try:
        threads = [threading.Thread(target=worker, args=(i,), daemon=True) for i in range(n_threads)]
        for t in threads:
            t.start()
        for t in threads:
            t.join(600)
            if t.is_alive():
                col.fail_inconclusive('stress thread did not finish within the watchdog')
                return
    finally:
        sys.setswitchinterval(old)
        if inj is not None and inj.ok:
            col.count('yield_injections', inj.injections)
            col.count('lines_monitored', inj.lines)
            inj.close()
    col.count('stress_calls', n_threads * calls_per_thread)
    col.case(('stress', n_threads, inject), True)
    if errors:
        col.fail_inconclusive('stress harness error: %s' % errors[0])
    if mismatches:
        name, got, want = mismatches[0]
        col.violation('C20/outcome-differs-under-stress:%s' % name, '%d threads free-running: %s got %s ; alone %s'
                      % (n_threads, name, short(got, 500), short(want, 500)), {'program': name})
    if mon.violations:
        col.violation('C20/foreign-scope-root', mon.violations[0], None)
        del mon.violations[:]


# ---------------------------------------------------------------------------
# re-entrancy

def reentrant(col, rng):
    P = programs(0)
    isolated = {p['name']: run_program(p) for p in P}
    observed = []

    def inner_runner(prog, mode):
        """a callable that evaluates `prog` re-entrantly and reports / re-raises"""
        def fn(target):
            inner_target = prog['target']()
            o = call(prog.get('entry', G), inner_target, prog['spec'](), **prog.get('kw', {}))
            if mode == 'record':
                sig = signature(o)
                if 'post' in prog:
                    sig += (prog['post'](inner_target, o),)
                observed.append((prog['name'], sig))
                return target
            if o.ok:
                return o.value
            if mode == 'str-then-raise':
                str(o.exc)
            raise o.exc
        fn.__name__ = 'inner_%s_%s' % (prog['name'].replace('-', '_'), mode.replace('-', '_'))
        return fn
    # (1) an inner call, at depth 1..3, gives what it gives alone - also inside Coalesce / list / Group contexts
    for prog in P:
        for depth in (1, 2, 3):
            del observed[:]
            fn = inner_runner(prog, 'record')
            spec = fn
            for d in range(depth - 1):
                spec = (lambda inner: (lambda t: G(t, ('a', inner)) and t))(spec)
            for ctxname, outer in (('tuple', ('a', spec)), ('coalesce', Coalesce(('zz', spec), ('a', spec))), ('list', ('l', [spec])),
                                   ('group', ('l', Group([spec]))), ('match', ('a', Match(spec))) if False else ('dict', {'k': ('a', spec)})):
                del observed[:]
                o = call(G, {'a': {'a': {'a': {'a': 1}}}, 'l': [{'a': {'a': {'a': 1}}}]}, outer)
                col.case(('reentrant', prog['name'], depth, ctxname), depth >= 2)
                col.count('reentrant_calls')
                if not observed:
                    col.violation('C20/reentrant-inner-not-run', 'inner %s at depth %d in %s did not run: %r' % (prog['name'], depth, ctxname, o), None)
                    continue
                for name, sig in observed:
                    if sig != isolated[name]:
                        col.violation('C20/reentrant-outcome-differs:%s' % name,
                                      'program %s run re-entrantly (depth %d, inside %s) gave %s ; alone %s'
                                      % (name, depth, ctxname, short(sig, 500), short(isolated[name], 500)), {'program': name, 'depth': depth})
                        break
    # (1') the OUTER call is not disturbed either: every yield point of an outer program makes a complete inner call (whose outcome
    # is dropped); the outer program gives what it gives alone - with the same program as inner call (same shared objects), with
    # programs of its family, and with a sample of the others
    P2 = programs(2)
    alone2 = {p['name']: run_program(p) for p in P2}
    by_name = {p['name']: p for p in P}
    for outer in P2:
        inners = [by_name[outer['name']]] + [q for q in P if q.get('family') and q.get('family') == outer.get('family') and q['name'] != outer['name']]
        inners += [q for q in P if q['name'].startswith('check-')] + rng.sample(P, 4)
        for inner in inners:
            ran = []

            def hook(inner=inner):
                ran.append(signature(call(inner.get('entry', G), inner['target'](), inner['spec'](), **inner.get('kw', {}))))
            tls.reenter = hook
            try:
                got = run_program(outer)
            finally:
                tls.reenter = None
            col.case(('reentrant-outer', outer['name'], inner['name']), bool(ran))
            col.count('reentrant_calls', len(ran))
            col.count('outer_calls_with_inner_calls_at_their_yield_points')
            if got != alone2[outer['name']]:
                col.violation('C20/reentrant-inner-call-changes-the-outer-outcome:%s' % outer['name'],
                              'program %s with a complete inner call of %s at each of its yield points (%d made) gave %s ; alone %s'
                              % (outer['name'], inner['name'], len(ran), short(got, 500), short(alone2[outer['name']], 500)),
                              {'outer': outer['name'], 'inner': inner['name']})
                break
            # (programs with a `post` observer build a new class per call: their outcomes are compared by that observer, in (1))
            bad = [r for r in ran if r != isolated[inner['name']][:len(r)]] if 'post' not in inner else []
            if bad:
                col.violation('C20/reentrant-outcome-differs:%s' % inner['name'],
                              'program %s called at a yield point of %s gave %s ; alone %s'
                              % (inner['name'], outer['name'], short(bad[0], 500), short(isolated[inner['name']], 500)), {'outer': outer['name'], 'inner': inner['name']})
                break
    # (2) inner failure absorbed by an outer Coalesce; the outer call continues normally
    for prog in P:
        if isolated[prog['name']][0] != 'error':
            continue
        fn = inner_runner(prog, 'raise')
        o = call(G, {'a': 1}, Coalesce(fn, 'a', skip_exc=Exception))
        col.count('reentrant_calls')
        if not o.ok or o.value != 1:
            col.violation('C20/reentrant-failure-not-absorbed', 'inner %s failing inside Coalesce: outer gave %r' % (prog['name'], o), None)
    # (3) observing the inner error with str() before re-raising must not change the outer call's outcome
    for prog in P:
        if isolated[prog['name']][0] != 'error':
            continue
        outs = {}
        for mode in ('raise', 'str-then-raise'):
            fn = inner_runner(prog, mode)
            fn.__name__ = 'inner'
            outs[mode] = signature(call(G, {'outer': {'root': 1}}, ('outer', fn)))
        col.case(('reentrant-reraise', prog['name']), True)
        col.count('reentrant_calls', 2)
        a, b = outs['raise'], outs['str-then-raise']
        if a != b:
            col.violation('C20/reentrant-str-on-inner-error-changes-outer-trace',
                          'inner %s error re-raised through an outer glom(): without str() the outer error is %s ; after str(inner) it is %s'
                          % (prog['name'], short(a, 700), short(b, 700)), {'program': prog['name']})
        elif a[0] == 'error' and "Target: {'outer': {'root': 1}}" not in a[2]:
            col.violation('C20/reentrant-outer-trace-lacks-outer-root', 'outer error trace does not start at the outer root target: %s' % short(a, 700), None)


_HOOK_CHILD = r"""
import os, sys, threading, traceback
sys.path.insert(0, os.environ['GLOM_VERIF_SRC'])
import glom as glom_pkg
from glom import glom, GlomError, register, T, Coalesce, Glommer
from abc import ABCMeta
assert os.path.abspath(glom_pkg.__file__).startswith(os.path.abspath(os.environ['GLOM_VERIF_SRC'])), glom_pkg.__file__


class Rec(object):
    # read-only record view over nested data: attribute access is resolved with glom() (a re-entrant call made by whatever
    # touches an attribute of the view - including the library's own probing of a value it has not seen before)
    __slots__ = ('_data',)

    def __init__(self, data):
        object.__setattr__(self, '_data', data)

    def __getattr__(self, name):
        try:
            return glom(self._data, name)
        except GlomError:
            raise AttributeError(name)


class Rec2(Rec):
    __slots__ = ()


class HasId(metaclass=ABCMeta):
    # duck type whose subclass hook itself uses glom()
    @classmethod
    def __subclasshook__(cls, C):
        probe = getattr(C, 'PROBE', None)
        if probe is None:
            return NotImplemented
        return glom(probe, Coalesce('meta.id', default=None)) is not None


class Unrelated(object):
    pass


class Doc(object):
    PROBE = {'meta': {'id': 0}}
    __slots__ = ('meta',)

    def __init__(self, ident):
        self.meta = {'id': ident}


results = {}


def scenario():
    data = {'a': {'b': 1}, 'n': [1, 2, 3]}
    results['alone'] = glom(data, 'a')
    register(Unrelated)                       # (any registration empties the handler memo: the next lookups are cold)
    results['proxy-cold-memo'] = glom(Rec(data), 'a.b')
    register(Rec)
    results['proxy-inside-a-callable'] = glom(data, ('n', [lambda x: glom(Rec2({'k': {'v': x}}), 'k.v') * 10]))
    results['proxy-star'] = glom({'r': Rec(data)}, 'r.*') if False else None
    register(HasId, iterate=lambda d: iter([d.meta['id']]))
    results['hook-using-glom'] = glom(Doc(7), [T])
    g = Glommer()
    results['proxy-through-a-Glommer'] = g.glom(Rec2(data), 'n.1')
    g.register(HasId, iterate=lambda d: iter(['g', d.meta['id']]))
    results['hook-through-a-Glommer'] = g.glom(Doc(8), [T])


t = threading.Thread(target=scenario, daemon=True)
t.start()
t.join(45)
if t.is_alive():
    frame = sys._current_frames().get(t.ident)
    stack = traceback.format_stack(frame) if frame is not None else []
    print('HUNG ' + repr({'results': results, 'where': [ln.strip().splitlines()[0] for ln in stack[-6:]]}))
    sys.stdout.flush()
    os._exit(3)
print('RESULTS ' + repr(results))
"""


def reentry_from_lookup_hooks(col):
    """re-entrant calls that the library itself provokes: while it looks for the handler of a value it has not seen before (cold memo),
    it probes the value and its class - an attribute hook (__getattr__ of a slots-based record view) or a subclass hook that uses
    glom() makes a complete inner call at that point.  Each call returns what it returns alone.  Run in a child process: a call that
    never returns is diagnosed from where its thread is blocked."""
    import subprocess
    e = env.child_env({'GLOM_VERIF_SRC': env.SRC})
    try:
        p = subprocess.run([sys.executable, '-c', _HOOK_CHILD], env=e, cwd=env.VERIF_DIR, timeout=180, stdout=subprocess.PIPE, stderr=subprocess.STDOUT, text=True)
    except subprocess.TimeoutExpired:
        col.fail_inconclusive('the child running re-entrant calls from lookup hooks did not come back')
        return
    col.case(('reentry-from-lookup-hooks',), True)
    col.count('reentrant_calls', 6)
    col.count('reentrant_calls_from_lookup_hooks', 6)
    out = p.stdout.strip().splitlines()
    line = out[-1] if out else ''
    want = {'alone': {'b': 1}, 'proxy-cold-memo': 1, 'proxy-inside-a-callable': [10, 20, 30], 'proxy-star': None, 'hook-using-glom': [7],
            'proxy-through-a-Glommer': 2, 'hook-through-a-Glommer': ['g', 8]}
    if line.startswith('HUNG '):
        info = eval(line[5:])
        in_library = any('glom' + os.sep in w or '/glom/' in w for w in info['where'])
        if in_library:
            col.violation('C20/reentrant-call-from-a-lookup-hook-never-returns', 'a glom() call made from an attribute / subclass hook while the library looks up a '
                          'handler never returned (45 s); completed so far %r ; the thread is blocked at %s' % (info['results'], info['where'][-3:]), None)
        else:
            col.fail_inconclusive('re-entrant hook scenario did not finish, blocked outside the library: %r' % (info['where'][-3:],))
    elif line.startswith('RESULTS '):
        got = eval(line[8:])
        if got != want:
            diff = {k: (got.get(k), want[k]) for k in want if got.get(k) != want[k]}
            col.violation('C20/reentrant-call-from-a-lookup-hook-differs', 're-entrant calls made from lookup hooks: (got, expected) %r' % (diff,), None)
    else:
        tail = p.stdout[-600:]
        if 'glom' in tail and 'Traceback' in tail:
            col.violation('C20/reentrant-call-from-a-lookup-hook-differs', 'the scenario raised: %s' % tail, None)
        else:
            col.fail_inconclusive('re-entrant hook child failed: %s' % tail)


def run(ctx):
    col, rng = ctx.col, ctx.rng
    tracer = EvalTracer()
    tracer.install()
    mon = IsolationMonitor(tracer)
    col.require('interleavings_executed', 300)
    col.require('reentrant_calls', 50)
    col.require('stress_calls', 500)
    col.require('frames_monitored', 10000)
    try:
        if ctx.shard == 0:
            reentrant(col, rng)
            reentry_from_lookup_hooks(col)
        if ctx.thorough:
            enumerated(col, rng, mon, 2, 4, 252, 6, self_schedules=252)
            enumerated(col, rng, mon, 3, 2, 400, 3, self_schedules=200)
            stress(col, rng, mon, 8, 300, False)
            stress(col, rng, mon, 16, 150, True)
            stress(col, rng, mon, 8, 1500, False, only_shared=True)
            stress(col, rng, mon, 8, 300, True, only_shared=True)
        else:
            enumerated(col, rng, mon, 2, 4, 252, 1, self_schedules=25)
            enumerated(col, rng, mon, 3, 2, 150, 1, self_schedules=10)
            stress(col, rng, mon, 8, 120, False)
            stress(col, rng, mon, 8, 40, True)
            stress(col, rng, mon, 8, 400, False, only_shared=True)
            stress(col, rng, mon, 8, 60, True, only_shared=True)
        col.count('frames_monitored', mon.frames)
    finally:
        tracer.on_enter = None
        tracer.uninstall()
