"""C15 - Fold, Sum, Flatten, Merge equal plain-Python reductions and mutate no input.

Oracle: functools.reduce / sum / itertools.chain.from_iterable / successive
op(acc, v) on a freshly built twin of the input.  Monitors: deep structure+identity
snapshot of the input before/after, counting init factory (exactly one call per
evaluation), repeated evaluation of one spec object with mutation of earlier results.
"""
import operator
import functools
import itertools
from collections import OrderedDict
from fractions import Fraction

from .. import env
from ..util import call
from ..report import short
from ..snapshot import snapshot, first_diff

glom = env.bind()
from glom import T, S, Fold, Sum, Flatten, Merge, flatten, merge, FoldError, GlomError, Path, Spec, Val, glom as G  # noqa: E402

META = {
    'level': 'exploration',
    'rule': ('inputs: iterables of numbers / lists / tuples / strings / dicts / pair-lists (empty, singleton, nested to '
             'depth n, generators, ranges, dict targets) x init in {int, float, list, tuple, str, dict, OrderedDict, set, '
             'custom factories} x op in {iadd, add, mul, custom, "update", method names, callables} x levels 0-3 x '
             'eager/lazy x sub-spec spelling (T, path string, T[..]); each spec object is evaluated four times with '
             'mutation of the first result in between. Non-trivial: >= 2 input elements or levels >= 2; distinct by '
             '(family, init kind, op kind, element kinds, length class, sub-spec spelling).'),
    'assumptions': [
        'op functions are pure or mutate only the accumulator; init factories return fresh objects',
        'str targets are non-iterable for glom by design and are not used as top-level fold targets',
    ],
}


class CountInit:
    def __init__(self, factory, name):
        self.factory, self.calls, self.__name__ = factory, 0, name

    def __call__(self):
        self.calls += 1
        return self.factory()

    def __repr__(self):
        return '<init %s>' % self.__name__


class Bag:
    """custom accumulator type with an update method"""
    def __init__(self):
        self.items = []

    def update(self, other):
        self.items.append(other)

    def __eq__(self, other):
        return type(other) is Bag and self.items == other.items

    def __repr__(self):
        return 'Bag(%r)' % self.items


def outcome_equal(got, want, lazy=False):
    """got/want are util.Outcome"""
    if got.ok != want.ok:
        return False
    if not got.ok:
        return isinstance(got.exc, type(want.exc))
    a, b = got.value, want.value
    if lazy:
        return a == b
    return type(a) is type(b) and a == b


# ---------------------------------------------------------------------------
# input builders: zero-argument callables returning a fresh (equal) input

def gen_elements(rng, kind, n):
    if kind == 'int':
        return [rng.randint(-5, 9) for _ in range(n)]
    if kind == 'num':
        return [rng.choice([1, 2, 0.5, Fraction(1, 3), -4, True]) for _ in range(n)]
    if kind == 'list':
        return [[rng.randint(0, 9) for _ in range(rng.randint(0, 3))] for _ in range(n)]
    if kind == 'tuple':
        return [tuple(rng.randint(0, 9) for _ in range(rng.randint(0, 3))) for _ in range(n)]
    if kind == 'str':
        return [rng.choice(['', 'a', 'bc', 'xyz']) for _ in range(n)]
    if kind == 'mixedseq':
        return [rng.choice([[1, 2], (3,), 'ab', [], range(2)]) for _ in range(n)]
    if kind == 'dict':
        return [{rng.choice('abcd'): rng.randint(0, 99) for _ in range(rng.randint(0, 3))} for _ in range(n)]
    if kind == 'odict':
        return [OrderedDict((rng.choice('abcd'), rng.randint(0, 99)) for _ in range(rng.randint(0, 3))) for _ in range(n)]
    if kind == 'pairs':
        return [[(rng.choice('abcd'), rng.randint(0, 99)) for _ in range(rng.randint(0, 3))] for _ in range(n)]
    if kind == 'set':
        return [set(rng.sample(range(8), rng.randint(0, 3))) for _ in range(n)]
    if kind == 'nested2':
        return [[[rng.randint(0, 9) for _ in range(rng.randint(0, 2))] for _ in range(rng.randint(0, 3))] for _ in range(n)]
    if kind == 'nested3':
        return [[[[rng.randint(0, 9)] * rng.randint(0, 2) for _ in range(rng.randint(0, 2))]
                 for _ in range(rng.randint(0, 2))] for _ in range(n)]
    raise AssertionError(kind)


def deep_copy_elements(elems):
    import copy
    return copy.deepcopy(elems)


def container_builder(rng, elems):
    """-> (name, builder) ; builder() returns a fresh container holding copies of elems"""
    c = rng.choice(['list', 'list', 'tuple', 'gen', 'iter', 'dictkeys'])
    if c == 'dictkeys' and not all(isinstance(e, (int, str, tuple, Fraction, float)) for e in elems):
        c = 'list'
    if c == 'list':
        return c, lambda: deep_copy_elements(elems)
    if c == 'tuple':
        return c, lambda: tuple(deep_copy_elements(elems))
    if c == 'gen':
        return c, lambda: (e for e in deep_copy_elements(elems))
    if c == 'iter':
        return c, lambda: iter(deep_copy_elements(elems))
    # dict target: iteration gives the keys, in insertion order, without duplicates
    uniq = list(OrderedDict((e, None) for e in elems))
    elems[:] = uniq
    return c, lambda: OrderedDict((e, i) for i, e in enumerate(uniq)) if rng.random() < 0 else dict((e, i) for i, e in enumerate(uniq))


def wrap_target(rng, build, allow_scope=True):
    """-> (spelling, subspec, target builder)"""
    global _PENDING_PREFIX
    _PENDING_PREFIX = None
    r = rng.random()
    if r < 0.45:
        return 'T', T, build
    if r < 0.65:
        return 'path', 'items', lambda: {'items': build(), 'other': [99]}
    if r < 0.85 or not allow_scope:
        return 'T[]', T['items'], lambda: {'items': build(), 'other': [99]}
    # the subspec reads the ENCLOSING scope: the reduction is a step behind a binder, its subspec is S.rv_items
    _PENDING_PREFIX = S(rv_items=T['items'])
    return 'scope', S.rv_items, lambda: {'items': build(), 'other': [99]}


_PENDING_PREFIX = None


def unwrap(spelling, target):
    return target if spelling == 'T' else target['items']     # ('path', 'T[]', 'scope')


# ---------------------------------------------------------------------------

def repeated(col, family, key, make_spec, tbuild, ref, init_counters, lazy=False, desc=''):
    """evaluate one spec object four times; compare each with the reference; check input purity,
    result disjointness and init call counts"""
    built = call(make_spec)
    if not built.ok:
        col.violation('C15/%s-spec-cannot-be-built' % family, 'building the spec for %s raised %r' % (desc, built.exc), {'desc': desc})
        return
    spec = built.value if _PENDING_PREFIX is None else (_PENDING_PREFIX, built.value)
    rendering = short(spec)
    results = []
    wit = {'spec': rendering, 'desc': desc}
    for round_ in range(4):
        target = tbuild()
        twin = tbuild()
        snap_before = snapshot(target) if not _is_iterator(unwrap_any(target)) else None
        counts_before = [c.calls for c in init_counters]
        got = call(G, target, spec)
        if got.ok and lazy:
            got = call(lambda: list(got.value))
        want = call(ref, twin)
        col.count('glom_evaluations')
        if not outcome_equal(got, want, lazy):
            col.violation('C15/%s-differs-from-reference' % family + (':repeat' if round_ else ''),
                          '%s on %s (evaluation #%d of this spec object): glom %r, reference %r'
                          % (rendering, short(twin if not _is_iterator(unwrap_any(twin)) else desc), round_ + 1, got, want), wit)
            return
        if snap_before is not None:
            after = snapshot(target)
            col.count('input_snapshots')
            if after != snap_before:
                col.violation('C15/%s-mutates-input' % family, '%s changed its input: %s' % (rendering, first_diff(snap_before, after)), wit)
                return
        if got.ok:
            for c, before in zip(init_counters, counts_before):
                col.count('init_calls_checked')
                if c.calls - before != 1:
                    col.violation('C15/%s-init-call-count' % family, '%s: init called %d times in evaluation #%d (expected 1)'
                                  % (rendering, c.calls - before, round_ + 1), wit)
                    return
            results.append(got.value)
            if not lazy and snap_before is not None:
                # the result must not be (or alias) an element of the input
                for e in _elements(unwrap_any(target)):
                    if e is got.value and isinstance(e, (list, dict, set)):
                        col.violation('C15/%s-result-aliases-input' % family, '%s returned an input element itself' % rendering, wit)
                        return
        else:
            return
        if round_ == 0 and got.ok:
            _mutate(got.value)
    for i in range(len(results)):
        for j in range(i + 1, len(results)):
            if results[i] is results[j] and isinstance(results[i], (list, dict, set, Bag, OrderedDict)):
                col.violation('C15/%s-results-share-state' % family, '%s: evaluations #%d and #%d returned the same object'
                              % (rendering, i + 1, j + 1), wit)
                return
    if col.want_sample(family):
        col.sample({'spec': rendering, 'input': desc, 'result': short(results[-1]) if results else 'error as reference'}, family)


def _is_iterator(x):
    return hasattr(x, '__next__')


def unwrap_any(target):
    if isinstance(target, dict) and 'items' in target and 'other' in target:
        return target['items']
    return target


def _elements(x):
    try:
        return list(x) if not _is_iterator(x) else []
    except TypeError:
        return []


def _mutate(v):
    try:
        if isinstance(v, list):
            v.append('MUTATED')
        elif isinstance(v, dict):
            v['MUTATED'] = True
        elif isinstance(v, set):
            v.add('MUTATED')
        elif isinstance(v, Bag):
            v.items.append('MUTATED')
    except Exception:
        pass


INITS_NUM = [('int', int), ('float', float), ('ten', lambda: 10), ('frac', lambda: Fraction(1, 2))]
OPS_NUM = [('iadd', operator.iadd), ('add', operator.add), ('mul', operator.mul),
           ('custom', lambda a, b: a * 2 + b), ('max', max), ('sub', operator.sub)]
INITS_SEQ = [('list', list), ('tuple', tuple), ('str', str), ('list0', lambda: [0]), ('set', set)]
OPS_SEQ = [('iadd', operator.iadd), ('add', operator.add), ('custom', lambda a, b: a + type(a)(b)),
           ('append', lambda a, b: a + [b] if isinstance(a, list) else a + (b,))]


def _first_writer_wins(acc, d):
    for k, v in dict(d).items():
        if k not in acc:
            acc[k] = v


def _count_keys(acc, d):
    for k in dict(d):
        acc[k] = acc.get(k, 0) + 1 if isinstance(acc.get(k, 0), int) else 1


def _named(name, fn):
    """a plain Python function doing what `fn` does, with the given __name__ (as if the caller had written `def update(acc, d): ...`)"""
    def wrapper(acc, d):
        return fn(acc, d)
    wrapper.__name__ = wrapper.__qualname__ = name
    return wrapper


def one_random(col, rng):
    fam = rng.choice(['fold-num', 'fold-seq', 'sum', 'sum-seq', 'flatten', 'flatten-lazy', 'merge', 'flatten-fn', 'merge-fn', 'fold-default'])
    n = rng.choice([0, 1, 2, 3, 5, 8])
    lenclass = min(n, 3)
    if fam in ('fold-num', 'sum', 'fold-default'):
        ekind = rng.choice(['int', 'num'])
        elems = gen_elements(rng, ekind, n)
        cname, build = container_builder(rng, elems)
        spelling, sub, tbuild = wrap_target(rng, build)
        iname, ifn = rng.choice(INITS_NUM)
        init = CountInit(ifn, iname)
        if fam == 'sum':
            mk = lambda: Sum(sub, init=init) if rng.random() < 2 else None
            ref = lambda t: functools.reduce(operator.iadd, unwrap(spelling, t), ifn())
            ref_b = lambda t: sum(unwrap(spelling, t), ifn())
            oname = 'iadd'
        elif fam == 'fold-default':
            mk = lambda: Fold(sub, init)
            ref = lambda t: functools.reduce(operator.iadd, unwrap(spelling, t), ifn())
            ref_b, oname = None, 'default'
        else:
            oname, op = rng.choice(OPS_NUM)
            mk = lambda: Fold(sub, init, op)
            ref = lambda t: functools.reduce(op, unwrap(spelling, t), ifn())
            ref_b = None
        col.case((fam, iname, oname, ekind, lenclass, cname, spelling), n >= 2)
        desc = '%s of %s' % (cname, short(elems))
        repeated(col, fam, None, mk, tbuild, ref, [init], desc=desc)
        if ref_b is not None and cname in ('list', 'tuple'):
            a, b = call(ref, tbuild()), call(ref_b, tbuild())
            if a.ok and b.ok and a.value != b.value:
                col.violation('C15/reference-models-disagree', 'reduce(iadd) %r vs sum %r on %s' % (a, b, desc), None)
    elif fam == 'sum-seq':
        # Sum with a sequence accumulator (init=list / str / tuple): the elements are only ever READ
        ekind, (iname, ifn) = rng.choice([('list', ('list', list)), ('list', ('list0', lambda: [0])), ('tuple', ('tuple', tuple)), ('str', ('str', str))])
        elems = gen_elements(rng, ekind, n)
        cname, build = container_builder(rng, elems)
        spelling, sub, tbuild = wrap_target(rng, build)
        init = CountInit(ifn, iname)
        col.case((fam, iname, ekind, lenclass, cname, spelling), n >= 2)

        def ref(t):
            acc = ifn()
            for e in unwrap(spelling, t):
                acc = acc + e          # (a NEW object each step: the reference cannot alias its input)
            return acc
        repeated(col, fam, None, lambda: Sum(sub, init=init), tbuild, ref, [init], desc='%s of %s' % (cname, short(elems)))
    elif fam == 'fold-seq':
        ekind = rng.choice(['list', 'tuple', 'str', 'mixedseq', 'set'])
        elems = gen_elements(rng, ekind, n)
        cname, build = container_builder(rng, elems) if ekind != 'set' else ('list', lambda: deep_copy_elements(elems))
        spelling, sub, tbuild = wrap_target(rng, build)
        iname, ifn = rng.choice(INITS_SEQ)
        init = CountInit(ifn, iname)
        oname, op = rng.choice(OPS_SEQ + [('union', lambda a, b: a | set(b))])
        col.case((fam, iname, oname, ekind, lenclass, cname, spelling), n >= 2)
        repeated(col, fam, None, lambda: Fold(sub, init, op), tbuild,
                 lambda t: functools.reduce(op, unwrap(spelling, t), ifn()), [init], desc='%s of %s' % (cname, short(elems)))
    elif fam in ('flatten', 'flatten-lazy'):
        ekind = rng.choice(['list', 'tuple', 'str', 'mixedseq', 'nested2'])
        elems = gen_elements(rng, ekind, n)
        cname, build = container_builder(rng, elems)
        spelling, sub, tbuild = wrap_target(rng, build)
        if fam == 'flatten-lazy':
            col.case((fam, ekind, lenclass, cname, spelling), n >= 2)
            repeated(col, fam, None, lambda: Flatten(sub, init='lazy'), tbuild,
                     lambda t: list(itertools.chain.from_iterable(unwrap(spelling, t))), [], lazy=True,
                     desc='%s of %s' % (cname, short(elems)))
        else:
            iname, ifn = rng.choice([('list', list), ('tuple', tuple), ('list0', lambda: [0]), ('default', None), ('dedup-list', DedupList)])
            if ifn is None:
                init, mk, counters, ifn2 = None, (lambda: Flatten(sub) if sub is not T or rng.random() < 0.5 else Flatten()), [], list
            else:
                init = CountInit(ifn, iname)
                mk, counters, ifn2 = (lambda: Flatten(sub, init=init)), [init], ifn
            col.case((fam, iname, ekind, lenclass, cname, spelling), n >= 2)

            def ref(t):
                red = functools.reduce(operator.iadd, unwrap(spelling, t), ifn2())
                return red
            repeated(col, fam, None, mk, tbuild, ref, counters, desc='%s of %s' % (cname, short(elems)))
            # and the chain.from_iterable reading, where the types allow it
            if iname in ('list', 'default') and cname in ('list', 'tuple'):
                a = call(G, tbuild(), mk())
                b = call(lambda: list(itertools.chain.from_iterable(unwrap(spelling, tbuild()))))
                if a.ok and b.ok and a.value != b.value:
                    col.violation('C15/flatten-differs-from-chain', 'Flatten gives %r, chain.from_iterable %r' % (a, b), None)
    elif fam == 'merge':
        ekind = rng.choice(['dict', 'odict', 'pairs'])
        elems = gen_elements(rng, ekind, n)
        cname, build = container_builder(rng, elems) if ekind == 'never' else rng.choice(
            [('list', lambda: deep_copy_elements(elems)), ('tuple', lambda: tuple(deep_copy_elements(elems))),
             ('gen', lambda: (e for e in deep_copy_elements(elems)))])
        spelling, sub, tbuild = wrap_target(rng, build)
        iname, ifn = rng.choice([('dict', dict), ('odict', OrderedDict), ('pre', lambda: {'pre': 1, 'a': 'init'}), ('bag', Bag)])
        init = CountInit(ifn, iname)
        oname, op = rng.choice([('none', None), ('update', 'update'), ('dict.update', dict.update),
                                ('lambda', lambda a, b: a.update(b)), ('setdefault-loop', None),
                                # the caller's own functions, which happen to be NAMED like methods of the accumulator
                                ('function-named-update', _named('update', _first_writer_wins)), ('function-named-setdefault', _named('setdefault', _first_writer_wins)),
                                ('function-named-pop', _named('pop', _count_keys)), ('function-named-clear', _named('clear', _first_writer_wins))])
        if iname in ('bag', 'odict') and oname == 'dict.update':
            oname, op = 'update', 'update'   # (dict.update applied to an OrderedDict corrupts it in CPython)
        if oname.startswith('function-named') and iname == 'bag':
            iname, ifn = 'dict', dict
            init = CountInit(ifn, iname)
        ref_op = op if oname.startswith('function-named') else (lambda a, b: a.update(b))
        col.case((fam, iname, oname, ekind, lenclass, cname, spelling), n >= 2)

        def ref(t):
            acc = ifn()
            for v in unwrap(spelling, t):
                ref_op(acc, v)
            return acc
        base_calls = init.calls
        mk_spec = lambda: Merge(sub, init, op)
        repeated(col, fam, None, mk_spec, tbuild, ref, [init], desc='%s of %s' % (cname, short(elems)))
    elif fam == 'flatten-fn':
        levels = rng.choice([0, 1, 1, 2, 2, 3])
        ekind = {0: 'list', 1: 'list', 2: 'nested2', 3: 'nested3'}[levels]
        elems = gen_elements(rng, ekind, n)
        cname, build = container_builder(rng, elems)
        spelling, sub, tbuild = wrap_target(rng, build, allow_scope=False)
        iname, ifn = rng.choice([('list', list), ('tuple', tuple), ('int', int), ('lazy', 'lazy'), ('default', None)])
        kw = {}
        if spelling != 'T':
            kw['spec'] = sub
        if ifn is not None:
            kw['init'] = ifn
        if levels != 1 or rng.random() < 0.5:
            kw['levels'] = levels
        col.case((fam, iname, levels, lenclass, cname, spelling), n >= 2 or levels >= 2)

        def ref(t):
            if levels == 0:
                # zero-fold chain.from_iterable of glom(t, spec): the value the spec yields, as it is
                return unwrap(spelling, t)
            it = unwrap(spelling, t)
            for _ in range(levels - 1):
                it = itertools.chain.from_iterable(it)
            if ifn == 'lazy':
                return list(itertools.chain.from_iterable(it))
            return functools.reduce(operator.iadd, it, (ifn or list)())
        for round_ in range(2):
            target, twin = tbuild(), tbuild()
            snap = snapshot(target) if not _is_iterator(unwrap_any(target)) else None
            got = call(flatten, target, **kw)
            if got.ok and ifn == 'lazy' and levels > 0:
                got = call(lambda: list(got.value))
            want = call(ref, twin)
            col.count('glom_evaluations')
            if levels == 0:
                ok = got.ok and got.value is unwrap(spelling, target)
            else:
                ok = outcome_equal(got, want, lazy=(ifn == 'lazy'))
            if not ok:
                col.violation('C15/flatten-function-differs:levels=%d' % levels, 'flatten(%s, %s): glom %r, reference %r'
                              % (short(twin), short(kw), got, want), {'kw': short(kw)})
                break
            if snap is not None and snapshot(target) != snap:
                col.violation('C15/flatten-function-mutates-input', 'flatten(%s) changed its input' % short(kw), None)
                break
        if col.want_sample(fam):
            col.sample({'call': 'flatten(target, %s)' % short(kw), 'input': '%s of %s' % (cname, short(elems))}, fam)
    elif fam == 'merge-fn':
        ekind = rng.choice(['dict', 'odict', 'pairs'])
        elems = gen_elements(rng, ekind, n)
        build = lambda: deep_copy_elements(elems)
        spelling, sub, tbuild = wrap_target(rng, build, allow_scope=False)
        iname, ifn = rng.choice([('dict', dict), ('odict', OrderedDict), ('default', None)])
        kw = {}
        if spelling != 'T':
            kw['spec'] = sub
        if ifn is not None:
            kw['init'] = ifn
        if rng.random() < 0.3:
            kw['op'] = rng.choice(['update', dict.update]) if iname != 'odict' else 'update'
        col.case((fam, iname, ekind, lenclass, spelling, 'op' in kw), n >= 2)

        def ref(t):
            acc = (ifn or dict)()
            for v in unwrap(spelling, t):
                acc.update(v)
            return acc
        target, twin = tbuild(), tbuild()
        snap = snapshot(target)
        got, want = call(merge, target, **kw), call(ref, twin)
        col.count('glom_evaluations')
        if not outcome_equal(got, want) or (got.ok and list(got.value.items()) != list(want.value.items())):
            col.violation('C15/merge-function-differs', 'merge(%s, %s): glom %r, reference %r' % (short(twin), short(kw), got, want), None)
        elif snapshot(target) != snap:
            col.violation('C15/merge-function-mutates-input', 'merge(%s) changed its input' % short(kw), None)
        if col.want_sample(fam):
            col.sample({'call': 'merge(target, %s)' % short(kw), 'input': short(elems)}, fam)


class DedupList(list):
    """an accumulator that IS a list but has its own += (keeps the first occurrence of every element)"""
    def __iadd__(self, other):
        for x in other:
            if x not in self:
                self.append(x)
        return self


def same_spec_object_on_iterable_then_not(col):
    """one reduction object with a subspec, evaluated on a target whose sub-target is iterable and then on one whose sub-target
    is not: the second evaluation raises FoldError like a fresh object would (and an enclosing Coalesce / default= catches it)"""
    for name, mk in (('Sum', lambda: Sum('a')), ('Flatten', lambda: Flatten('a')), ('Merge', lambda: Merge(T['a'])), ('Fold', lambda: Fold('a', init=int))):
        spec = mk()
        good = {'a': [{'k': 1}]} if name == 'Merge' else {'a': [[1], [2]]} if name == 'Flatten' else {'a': [1, 2]}
        for i, (target, iterable) in enumerate([(good, True), ({'a': 5}, False), (good, True), ({'a': None}, False)]):
            got = call(G, target, spec)
            col.case(('iterable-then-not', name, i), True)
            col.count('non_iterable_cases')
            if iterable != got.ok or (not got.ok and not isinstance(got.exc, FoldError)):
                col.violation('C15/non-iterable-not-FoldError:reused-' + name, 'evaluation #%d of one %s object on %r: %r, expected %s'
                              % (i + 1, name, target, got, 'a value' if iterable else 'FoldError'), None)
                break
        got = call(G, {'a': 5}, mk(), default='DFLT')
        if not got.ok or got.value != 'DFLT':
            col.violation('C15/non-iterable-not-FoldError:default', 'glom({a: 5}, %s, default=..): %r' % (name, got), None)


_PCT = {}


def reductions_next_to_group_specs(col):
    """a reduction that merely FOLLOWS a Group step in a chain (directly, several steps later, inside the dict / list spec that follows),
    or sits under Auto inside a Group, is a plain reduction of its own target: it equals the reference over that target"""
    from glom import Auto, Pipe
    from glom.grouping import Group, First
    items = [[1, 2], [3], [4, 5]]
    dicts = [{'a': 1}, {'b': 2}, {'a': 3}]
    tup = lambda acc, x: acc + (x,)
    cases = [
        ('Flatten after Group([T])', items, lambda: (Group([T]), Flatten()), [1, 2, 3, 4, 5]),
        ('Sum after Group([T])', [1, 2, 3], lambda: (Group([T]), Sum()), 6),
        ('Fold after Group([T])', [1, 2, 3], lambda: (Group([T]), Fold(T, init=tuple, op=tup)), (1, 2, 3)),
        ('Merge after Group([T])', dicts, lambda: (Group([T]), Merge()), {'a': 3, 'b': 2}),
        ('Flatten two steps after a Group', items, lambda: (Group([T]), T, list, Flatten()), [1, 2, 3, 4, 5]),
        ('Flatten in a Pipe after a Group', items, lambda: Pipe(Group([T]), Flatten()), [1, 2, 3, 4, 5]),
        ('Sum in the dict spec after a Group', [1, 2, 3], lambda: (Group([T]), {'total': Sum(), 'n': len}), {'total': 6, 'n': 3}),
        ('Flatten per element of the list spec after a Group', [[[1], [2]], [[3]]], lambda: (Group([T]), [Flatten()]), [[1, 2], [3]]),
        ('Sum of a grouped dict (values by key)', [1, 2, 3, 4], lambda: (Group({T % 2: [T]}), {'odd': (T[1], Sum()), 'even': (T[0], Sum())}), {'odd': 4, 'even': 6}),
        ('Sum under Auto inside a Group (per item, last wins)', [[1, 2], [3, 4]], lambda: Group({len: Auto(Sum())}), {2: 7}),
        ('Flatten under Auto inside a Group', [[[1], [2]], [[3]]], lambda: Group([Auto(Flatten())]), [[1, 2], [3]]),
        ('Group after a reduction after a Group', [[1, 2], [3]], lambda: (Group([T]), Flatten(), Group({T % 2: [T]})), {1: [1, 3], 0: [2]}),
        ('First().. then Sum', [[1, 2], [3]], lambda: (Group(First()), Sum()), 3),
    ]
    for desc, target, mk, want in cases:
        spec = mk()
        for n in (1, 2):
            import copy
            got = call(G, copy.deepcopy(target), spec)
            col.case(('next-to-group', desc, n), True)
            col.count('glom_evaluations')
            col.count('reductions_next_to_group_specs')
            if not (got.ok and got.value == want and type(got.value) is type(want)):
                col.violation('C15/reduction-next-to-a-Group-is-not-the-plain-reduction', '%s, evaluation #%d on %r: %r, expected %r' % (desc, n, target, got, want), None)
                break


def reductions_as_group_aggregators(col):
    """a Fold / Sum used as the aggregator of a Group equals reduce(op, items of the bucket, init()) too - with start values that are
    not neutral for the operator and running values that pass through 0 / False / empty (a product through 0, and_ through False, a
    running minimum through 0, a start value of 5)"""
    import operator
    from glom.grouping import Group
    five = lambda: 5
    one = lambda: 1
    cases = [
        ('product through 0', [2, 0, 3], lambda: Group(Fold(T, init=one, op=operator.mul)), lambda xs: functools.reduce(operator.mul, xs, 1)),
        ('and_ through False', [True, False, True], lambda: Group(Fold(T, init=lambda: True, op=operator.and_)), lambda xs: functools.reduce(operator.and_, xs, True)),
        ('running min through 0', [7, 0, 5], lambda: Group(Fold(T, init=lambda: 9, op=min)), lambda xs: functools.reduce(min, xs, 9)),
        ('Sum with start 5 through 0', [-5, 1, 2], lambda: Group(Sum(init=five)), lambda xs: sum(xs, 5)),
        ('string concat through empty', ['', 'a', '', 'b'], lambda: Group(Fold(T, init=str, op=operator.add)), lambda xs: ''.join(xs)),
        ('list start emptied on the way', [[1], [2]], lambda: Group(Fold(T, init=list, op=lambda acc, x: [] if x == [1] else acc + x)), lambda xs: [2]),
    ]
    for desc, items, mk, ref in cases:
        spec = mk()
        for n in (1, 2):
            got = call(G, list(items), spec)
            col.case(('group-aggregator', desc, n), True)
            col.count('glom_evaluations')
            col.count('reductions_as_group_aggregators')
            want = ref(items)
            if not got.ok or got.value != want:
                col.violation('C15/reduction-as-Group-aggregator-differs-from-reduce', '%s: Group(%s) over %r (evaluation #%d): %r, reduce gives %r'
                              % (desc, short(spec.spec if hasattr(spec, 'spec') else spec), items, n, got, want), None)
                break
    per_key = call(G, [('a', 2), ('b', 5), ('a', 0), ('a', 3), ('b', 1)], Group({T[0]: Fold(T[1], init=one, op=operator.mul)}))
    col.count('glom_evaluations')
    col.count('reductions_as_group_aggregators')
    if not per_key.ok or per_key.value != {'a': 0, 'b': 5}:
        col.violation('C15/reduction-as-Group-aggregator-differs-from-reduce', 'per-key product: %r, expected %r' % (per_key, {'a': 0, 'b': 5}), None)


class _CountedChunks:
    """an endless producer of chunks that counts what was pulled from it; every chunk is a NEW list, or (reuse=True) one buffer that is
    refilled for each chunk, as producers reading into a fixed buffer do"""
    def __init__(self, reuse=False, budget=200):
        self.pulled, self.reuse, self.budget = 0, reuse, budget
        self.buf = [0, 0]

    def __iter__(self):
        return self

    def __next__(self):
        self.pulled += 1
        if self.pulled > self.budget:
            raise RuntimeError('the lazy flatten pulled more than %d chunks' % self.budget)
        i = self.pulled - 1
        if self.reuse:
            self.buf[0], self.buf[1] = i, i + 10
            return self.buf
        return [i, i + 10]


def lazy_flatten_is_lazy(col):
    """Flatten(init='lazy') / flatten(.., init='lazy') equal chain.from_iterable also in WHEN they read: nothing is pulled before the
    result is consumed, k outputs need about k/2 chunks of an endless producer, and a producer that refills one buffer per chunk gives
    what chain.from_iterable gives"""
    for desc, run in (("Flatten(init='lazy')", lambda src: G(src, Flatten(init='lazy'))), ("flatten(init='lazy')", lambda src: flatten(src, init='lazy')),
                      ("Flatten(T, init='lazy') below a path", lambda src: G({'s': src}, Flatten('s', init='lazy')))):
        src = _CountedChunks()
        got = call(run, src)
        col.case(('lazy-flatten', desc), True)
        col.count('glom_evaluations')
        col.count('lazy_flatten_pull_checks')
        if not got.ok:
            col.violation('C15/lazy-flatten-not-lazy', '%s over an endless producer: %r after pulling %d chunks' % (desc, got, src.pulled), None)
            continue
        before = src.pulled
        first6 = list(itertools.islice(got.value, 6))
        ref = list(itertools.islice(itertools.chain.from_iterable(_CountedChunks()), 6))
        if before > 1 or first6 != ref or src.pulled > 5:
            col.violation('C15/lazy-flatten-not-lazy', '%s: %d chunks pulled before the result was touched, %d for 6 outputs, outputs %r (chain.from_iterable: '
                          '0, 3, %r)' % (desc, before, src.pulled, first6, ref), None)
        src2 = _CountedChunks(reuse=True)
        got2 = call(lambda: list(itertools.islice(run(src2), 6)))
        ref2 = list(itertools.islice(itertools.chain.from_iterable(_CountedChunks(reuse=True)), 6))
        col.count('lazy_flatten_pull_checks')
        if not got2.ok or got2.value != ref2:
            col.violation('C15/flatten-differs-from-chain', '%s over a producer that refills one buffer per chunk: %r, chain.from_iterable gives %r' % (desc, got2, ref2), None)
    # two levels: the first level of flatten(levels=2) is lazy as well
    src3 = [_CountedChunks(reuse=True, budget=3)]
    got3 = call(lambda: flatten(([c] for c in itertools.islice(_CountedChunks(reuse=True), 3)), levels=2))
    ref3 = call(lambda: functools.reduce(operator_iadd, itertools.chain.from_iterable([c] for c in itertools.islice(_CountedChunks(reuse=True), 3)), []))
    col.count('lazy_flatten_pull_checks')
    if got3.ok != ref3.ok or (got3.ok and got3.value != ref3.value):
        col.violation('C15/flatten-function-differs:levels=2', 'flatten(levels=2) over a producer that refills one buffer: %r, reference %r' % (got3, ref3), None)


from operator import iadd as operator_iadd  # noqa: E402


class NoIter:
    def __repr__(self):
        return 'NoIter()'


def lazily_flatten_items_of_non_iterable_types(col):
    """legitimate reductions whose nested ITEMS are of types glom does not iterate (strings chain into characters, numbers make the
    flattening fail as chain.from_iterable does): afterwards such a value as the TARGET of a reduction is still a FoldError"""
    for item in ['ab', b'ab', 5, None, 2.5, True, NoIter()]:
        for name, fn in (('Flatten(init=lazy)', lambda: list(G([item, item], Flatten(init='lazy')))),
                         ('flatten(levels=2)', lambda: flatten([[item], [item]], levels=2)),
                         ('flatten(levels=2, init=lazy)', lambda: list(flatten([[item]], levels=2, init='lazy'))),
                         ('Flatten() eager', lambda: G([item], Flatten())), ('Sum(init=list)', lambda: G([item], Sum(init=list)))):
            got = call(fn)
            want = call(lambda: list(itertools.chain.from_iterable([item, item])))
            col.count('glom_evaluations')
            col.case(('nested-non-iterable-items', name, type(item).__name__), True)
            if name == 'Flatten(init=lazy)' and (got.ok != want.ok or (got.ok and got.value != want.value)):
                col.violation('C15/flatten-differs-from-chain', 'lazy Flatten over [%r, %r]: %r, chain.from_iterable gives %r' % (item, item, got, want), None)


def non_iterables(col, phase=''):
    targets = [5, None, 2.5, NoIter(), True, 'ab', b'ab']
    specs = [('Fold', lambda: Fold(T, init=int)), ('Sum', lambda: Sum()), ('Flatten', lambda: Flatten()),
             ('Flatten-lazy', lambda: Flatten(init='lazy')), ('Merge', lambda: Merge()),
             ('Fold-sub', lambda: Fold('x', init=list)), ('Sum-sub', lambda: Sum(T['x'])),
             # subspecs of every spec kind fetch the non-iterable value (chains of 0, 1, 2, 3 steps, dict / list results, Path, Spec)
             ('Sum-chain2-sub', lambda: Sum(('x', T))), ('Sum-chain3-sub', lambda: Sum((T, 'x', T))), ('Sum-chain1-sub', lambda: Sum(('x',))),
             ('Flatten-chain2-sub', lambda: Flatten(('x', T))), ('Merge-chain2-sub', lambda: Merge((T['x'], T))),
             ('Fold-chain2-sub', lambda: Fold(('x', T), init=list)), ('Flatten-lazy-chain2-sub', lambda: Flatten(('x', T), init='lazy')),
             ('Sum-path-sub', lambda: Sum(Path('x'))), ('Sum-spec-sub', lambda: Sum(Spec(('x', T)))),
             ('Sum-callable-sub', lambda: Sum(lambda t: t['x'])), ('Sum-percent-in-path-sub', lambda: Sum(('x', T, Val(_PCT), 'k%s', T)))]
    for t in targets:
        for name, mk in specs:
            tt = {'x': t} if name.endswith('-sub') else t
            if 'percent' in name:
                _PCT['k%s'] = t
            got = call(G, tt, mk())
            col.case(('non-iterable', name, type(t).__name__), True)
            col.count('non_iterable_cases')
            if got.ok or not isinstance(got.exc, FoldError):
                col.violation('C15/non-iterable-not-FoldError:' + name.split('-')[0] + phase,
                              'glom(%r, %s)%s gave %r, expected FoldError' % (tt, name, phase and ' (%s)' % phase[1:], got), None)
        for name, fn in [('flatten()', flatten), ('merge()', merge), ('merge(spec=chain)', lambda v: merge({'x': v}, spec=('x', T))),
                         ('flatten(spec=chain)', lambda v: flatten({'x': v}, spec=('x', T)))]:
            got = call(fn, t)
            col.case(('non-iterable', name, type(t).__name__), True)
            col.count('non_iterable_cases')
            if got.ok or not isinstance(got.exc, FoldError):
                col.violation('C15/non-iterable-not-FoldError:' + name + phase, '%s on %r%s gave %r' % (name, t, phase and ' (%s)' % phase[1:], got), None)
    got = call(flatten, [[1]], levels=-1)
    if got.ok or not isinstance(got.exc, ValueError):
        col.violation('C15/flatten-negative-levels', 'flatten(levels=-1) gave %r' % got, None)


def flatten_and_merge_functions_take_any_spec(col):
    """flatten(t, spec=..) / merge(t, spec=..) take any spec - also unhashable ones (a tuple holding a list spec, a Path object, a dict
    spec, a Coalesce) - and equal the reduction of what glom(t, spec) yields, call after call"""
    from glom import Coalesce
    t = lambda: {'items': [[1, 2], [3], []], 'maps': [{'a': 1}, {'b': 2}, {'a': 3}], 'rows': [{'v': [1]}, {'v': [2, 3]}]}
    specs = [("Path('items')", lambda: Path('items'), 'items'), ("('items', [T])", lambda: ('items', [T]), 'items'), ("Spec('items')", lambda: Spec('items'), 'items'),
             ("Coalesce('zz', 'items')", lambda: Coalesce('zz', 'items'), 'items'), ("('rows', ['v'])", lambda: ('rows', ['v']), 'rows-v'),
             ("('rows', [{'x': 'v'}], [T['x']])", lambda: ('rows', [{'x': 'v'}], [T['x']]), 'rows-v'), ("T['items']", lambda: T['items'], 'items')]
    for desc, mk, what in specs:
        src = (lambda d: d['items']) if what == 'items' else (lambda d: [r['v'] for r in d['rows']])
        for kw_name, kw in (('levels=1', {}), ('levels=1 again', {}), ('lazy', {'init': 'lazy'}), ('levels=0', {'levels': 0})):
            got = call(flatten, t(), spec=mk(), **kw)
            if got.ok and kw.get('init') == 'lazy':
                got = call(lambda: list(got.value))
            if kw.get('levels') == 0:
                want = src(t())
            else:
                want = list(itertools.chain.from_iterable(src(t())))
                if kw.get('init') is tuple:
                    want = tuple(want)
            col.case(('flatten-any-spec', desc, kw_name), True)
            col.count('glom_evaluations')
            if not (got.ok and got.value == want and type(got.value) is type(want)):
                col.violation('C15/flatten-function-differs:unhashable-or-structured-spec', 'flatten(t, spec=%s, %s): %r, expected %r' % (desc, kw_name, got, want), None)
    for desc, mk in (("Path('maps')", lambda: Path('maps')), ("('maps', [T])", lambda: ('maps', [T])), ("Spec('maps')", lambda: Spec('maps'))):
        for n in (1, 2):
            got = call(merge, t(), spec=mk())
            col.case(('merge-any-spec', desc, n), True)
            col.count('glom_evaluations')
            if not (got.ok and got.value == {'a': 3, 'b': 2}):
                col.violation('C15/merge-function-differs:unhashable-or-structured-spec', 'merge(t, spec=%s): %r, expected %r' % (desc, got, {'a': 3, 'b': 2}), None)


class _Vec:
    """a number-like class written to work with the builtin sum(): 0 + v is v itself; v += w works in place"""
    def __init__(self, v):
        self.v = v

    def __add__(self, o):
        return _Vec(self.v + o.v)

    def __radd__(self, o):
        if o == 0:
            return self
        return NotImplemented

    def __iadd__(self, o):
        self.v += o.v
        return self

    def __eq__(self, o):
        return type(o) is _Vec and o.v == self.v

    def __repr__(self):
        return 'Vec(%r)' % (self.v,)


def elements_taken_over_as_accumulator(col):
    """"Sum equals sum", "no element of the input is ever mutated", "results of separate evaluations share no state" for elements for
    which the first addition returns the element itself (0 + v is v, the idiom that makes a class work with the builtin sum) and which
    can be added to in place"""
    from glom.grouping import Group
    cases = [('Sum() over such elements', lambda: [_Vec(1), _Vec(2), _Vec(4)], lambda: Sum(), lambda t: sum(t)),
             ('Sum(subspec) over such elements', lambda: {'vs': [_Vec(1), _Vec(2)]}, lambda: Sum('vs'), lambda t: sum(t['vs'])),
             ('Sum() as the aggregator of a Group', lambda: [_Vec(1), _Vec(2), _Vec(4)], lambda: Group(Sum()), lambda t: sum(t)),
             ('Sum() per bucket of a Group', lambda: [_Vec(1), _Vec(2), _Vec(3)], lambda: Group({(lambda x: x.v % 2): Sum()}),
              lambda t: {1: sum([t[0], t[2]]), 0: sum([t[1]])}),
             ('Sum() over one element', lambda: [_Vec(7)], lambda: Sum(), lambda t: sum(t)),
             ('Fold with operator.add', lambda: [_Vec(1), _Vec(2)], lambda: Fold(T, init=int, op=operator.add), lambda t: sum(t))]
    for desc, mk_t, mk_spec, ref in cases:
        t, twin = mk_t(), mk_t()
        want = call(ref, twin)
        spec = mk_spec()
        before = repr(t)
        got1 = call(G, t, spec)
        after1 = repr(t)
        first_ok, first_repr = got1.ok and want.ok and got1.value == want.value, repr(got1)
        got2 = call(G, t, spec)
        col.case(('element-as-accumulator', desc), True)
        col.count('glom_evaluations', 2)
        col.count('input_snapshots')
        if not first_ok:
            col.violation('C15/differs-from-python-reference:element-taken-over-as-accumulator', '%s: glom gives %s, Python gives %r' % (desc, first_repr, want), None)
        elif after1 != before:
            col.violation('C15/sum-mutates-an-input-element-it-took-over-as-accumulator', '%s: the input was %s, after one evaluation (result %r) it is %s'
                          % (desc, before, got1.value, after1), None)
        elif not (got2.ok and got2.value == want.value):
            col.violation('C15/evaluations-share-state:element-taken-over-as-accumulator', '%s: second evaluation gives %r, the first gave %s' % (desc, got2, first_repr), None)


class _Bag:
    def __init__(self, *items):
        self.items = list(items)

    def __repr__(self):
        return '_Bag(%s)' % ', '.join(map(repr, self.items))


def iteration_is_the_one_registered_now(col):
    """"Fold(..) equals reduce(op, iterate(glom(t, subspec)), init())" and "a non-iterable target raises FoldError", where iterate is the
    iteration registered for the target's type on the Glommer in use AT THE TIME of the evaluation: reductions over a type whose
    iteration is registered, registered differently, and withdrawn (iterate=False) between evaluations of the same spec objects"""
    from glom import Glommer
    forward, backward, doubled = (lambda b: iter(b.items)), (lambda b: reversed(b.items)), (lambda b: iter(b.items + b.items))
    nums, lists, maps = (lambda: _Bag(1, 2, 3)), (lambda: _Bag([1], [2, 3], [], [4])), (lambda: _Bag({'a': 1}, {'a': 2, 'b': 3}, {'c': 4, 'a': 5}))

    def ref_merge(it):
        out = {}
        for d in it:
            out.update(d)
        return out
    specs = [('Fold-list', lambda: Fold(T, init=list, op=lambda a, x: a + [x]), lambda it: functools.reduce(lambda a, x: a + [x], it, []), nums),
             ('Sum', lambda: Sum(), lambda it: sum(it), nums),
             ('Sum-subspec', lambda: Sum(T), lambda it: sum(it), nums),
             ('Fold-sub', lambda: Fold(T, init=int, op=lambda a, x: a * 10 + x), lambda it: functools.reduce(lambda a, x: a * 10 + x, it, 0), nums),
             ('Flatten', lambda: Flatten(), lambda it: list(itertools.chain.from_iterable(it)), lists),
             ('Flatten-lazy', lambda: (Flatten(init='lazy'), list), lambda it: list(itertools.chain.from_iterable(it)), lists),
             ('Merge', lambda: Merge(), ref_merge, maps)]
    histories = [[forward, backward], [forward, False], [False, forward], [forward, doubled, backward], [backward, False, forward], [forward, forward, False, doubled]]
    for hi, history in enumerate(histories):
        for sname, mk_spec, ref, mk_target in specs:
            for reuse in (True, False):
                gl = Glommer()
                spec = mk_spec()
                for step, handler in enumerate(history):
                    gl.register(_Bag, iterate=handler)
                    target = mk_target()
                    got = call(gl.glom, target, spec if reuse else mk_spec())
                    col.case(('iteration-registered-now', sname, hi, step, reuse), True)
                    col.count('glom_evaluations')
                    col.count('registry_history_steps')
                    if handler is False:
                        ok = (not got.ok) and isinstance(got.exc, FoldError)
                        want = 'a FoldError (the type is registered as not iterable)'
                    else:
                        w = ref(handler(mk_target()))
                        ok = got.ok and got.value == w
                        want = repr(w)
                    if not ok:
                        col.violation('C15/iteration-is-not-the-one-registered-at-the-time-of-the-evaluation:%s' % sname,
                                      '%s on a Glommer whose registration for the target type was changed %d time(s) before this evaluation (%s spec object): %r, expected %s'
                                      % (sname, step, 'the same' if reuse else 'a fresh', got, want), None)


def run(ctx):
    col, rng = ctx.col, ctx.rng
    col.require('glom_evaluations', 1000)
    col.require('input_snapshots', 300)
    col.require('init_calls_checked', 300)
    if ctx.shard == 0:
        non_iterables(col)
        same_spec_object_on_iterable_then_not(col)
        reductions_next_to_group_specs(col)
        reductions_as_group_aggregators(col)
        lazy_flatten_is_lazy(col)
        elements_taken_over_as_accumulator(col)
        iteration_is_the_one_registered_now(col)
        flatten_and_merge_functions_take_any_spec(col)
        lazily_flatten_items_of_non_iterable_types(col)
        non_iterables(col, ':after-reductions-over-items-of-such-types')
    for i in range(ctx.n(20000, 100000)):
        one_random(col, rng)
