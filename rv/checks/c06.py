"""C06 - non-mutating specs are pure: inputs untouched, outcome independent of history.

Histories: random sequences of glom calls drawn from a pool of pure (target, spec) pairs
(persistent spec objects and freshly built equal ones), interleaved with path-cache
overflow (> 10000 distinct path strings), PATH_STAR toggles, registrations of unrelated
types on the default registry, Glommer calls and failing calls.
Oracles: (a) deep structure+identity snapshot of target, spec and caller scope before /
after every call; (b) the outcome signature of every call equals the signature of the
same call made FIRST in a fresh interpreter (cold-process baseline, per PATH_STAR);
(c) cache-coherence invariants at quiescent points: every Path._CACHE entry equals a
freshly parsed Path, the cache stays bounded, the default scope holds no per-call
state; RegistryContract checks every handler lookup against a memo-free computation.
"""
import re
import sys
import json
import warnings
import subprocess
import concurrent.futures
from collections import OrderedDict
import collections as _collections
import operator as _operator

from .. import env
from ..util import call, exc_sig, norm_text
from ..report import short
from ..snapshot import snapshot, first_diff
from ..monitors import RegistryContract

glom = env.bind()
import glom.core as gcore  # noqa: E402
import glom as glom_pkg  # noqa: E402
from glom import (T, S, A, Path, Coalesce, Spec, Val, Call, Invoke, Ref, Pipe, Fill, Auto, Match, M, And, Or, Not, Switch,  # noqa: E402
                  Check, Fold, Sum, Flatten, Merge, Iter, Regex, Optional, Required, SKIP, STOP, Glommer, Inspect, Vars)
from glom.grouping import Group, First, Max, Min, Avg, Limit  # noqa: E402
from glom.reduction import Count  # noqa: E402

META = {
    'level': 'exploration',
    'rule': ('a pool of ~70 pure (target recipe, spec recipe) pairs covering paths, T expressions, Auto trees, Coalesce/defaults, '
             'Match and M-combinators, Check, Fold/Sum/Flatten/Merge, Group, Iter pipelines (drained), wildcards, Fill, Call/Invoke, '
             'scope use, Ref, Switch, Regex, and failing specs; histories of 200 (quick) / 3000 (thorough, per shard) operations: '
             'call with a persistent spec object, call with a freshly built spec, cache overflow with 10050 distinct path strings, '
             'PATH_STAR toggle, register(unrelated type), Glommer call. Baselines: one fresh subprocess per (pair, PATH_STAR). '
             'Non-trivial: a call preceded in its history by a call of a different pair and by a cache-perturbing operation; distinct '
             'by (pair, kinds of operations seen before it).'),
    'assumptions': [
        'outcome = canonical value rendering (iterators drained) or (error class, full message) with addresses and line numbers normalised',
        'warnings are not part of the outcome (PATH_STAR=False warns once per process)',
    ],
}


class Obj:
    def __init__(self, **kw):
        self.__dict__.update(kw)

    def __repr__(self):
        return 'Obj(%s)' % ', '.join('%s=%r' % kv for kv in self.__dict__.items())


class NoGet:
    """a type that is registered as NOT supporting get (see the registration below)"""
    def __init__(self):
        self.inner = 1

    def __repr__(self):
        return 'NoGet()'


glom_pkg.register(NoGet, get=False)


_CodecError = type('Error', (ValueError,), {'__module__': 'codecmod'})
_TableError = type('Error', (KeyError,), {'__module__': 'tablemod'})


def _raise_codec_error(x):
    raise _CodecError('bad padding')


def _raise_table_error(x):
    raise _TableError('no such table')


class WalkNode:
    def __init__(self, v, nxt):
        self.v, self.nxt = v, nxt

    def __repr__(self):
        return 'WalkNode(%r)' % self.v


_WALK_GLOMMER = Glommer()
_WALK_GLOMMER.register(WalkNode, iterate=lambda n: iter(['walked', n.v]), keys=False, get=False)
OWN_REGISTRY = {name: _WALK_GLOMMER.glom for name in ('walknode-star-own-registry', 'walknode-starstar-own-registry', 'walknode-list-own-registry')}


def _double(x):
    return x * 2


def _is_even(x):
    return x % 2 == 0


def _collect(*a, **kw):
    return (a, tuple(sorted(kw.items())))


def pool():
    """[(name, target builder, spec builder)] - builders return fresh, equal objects"""
    data = lambda: {'a': {'b': [1, 2, {'c': 3}], 'd': 'x'}, 'e': [{'k': 1, 'v': 'p'}, {'k': 2, 'v': 'q'}, {'k': 1, 'v': 'r'}],
                    'n': None, 'o': Obj(p=Obj(q=7), lst=[1, 2, 3]), 'w': {'x': {'y': 1}, 'z': {'y': 2}}}
    nums = lambda: [3, 1, 4, 1, 5, 9, 2, 6]
    P = []
    add = lambda name, t, s: P.append((name, t, s))
    add('path', data, lambda: 'a.b.2.c')
    add('path-obj', data, lambda: 'o.p.q')
    add('path-fail', data, lambda: 'a.b.7')
    add('path-fail-mid', data, lambda: 'a.zz.c')
    add('Path', data, lambda: Path('a', 'b', 0))
    add('T', data, lambda: T['a']['b'][-1]['c'])
    add('T-call', data, lambda: T['a']['d'].upper())
    add('T-arith', nums, lambda: T[0] * 2 + T[1])
    add('T-fail', data, lambda: T['a'].nope)
    # arithmetic whose LEFT operand is a mutable container owned by the target / the caller's scope (an in-place operator would show)
    add('T-arith-list', data, lambda: {'cat': T['a']['b'] + [9], 'rep': T['o'].lst * 2, 'again': T['a']['b'] + T['o'].lst})
    add('T-arith-set', lambda: {'s': {1, 2}, 't': {2, 3}, 'd': {'p': 1}},
        lambda: {'u': T['s'] | T['t'], 'i': T['s'] & {2}, 'm': T['s'] - {1}, 'x': T['s'] ^ {9}, 'dd': T['d'] | {'q': 2}})
    add('S-arith-list', data, lambda: (S.extlist + [3], T * 2))
    add('T-arith-nested', data, lambda: ('e', [T['v'] + 'x'], T + ['tail'], T * 2))
    add('dict', data, lambda: {'x': 'a.d', 'y': ('e', [T['k']]), 'z': Val(3)})
    add('odict', data, lambda: OrderedDict([('q', 'o.p.q'), ('l', ('o.lst', [_double]))]))
    add('list', data, lambda: ('e', [{'kk': 'k', 'vv': T['v'].upper()}]))
    add('tuple', data, lambda: ('a', 'b', len))
    add('pipe', data, lambda: Pipe('a.b', T[:2], sum))
    add('skip', nums, lambda: [lambda x: x if x % 2 else SKIP])
    add('stop', nums, lambda: [lambda x: x if x < 5 else STOP])
    add('coalesce', data, lambda: Coalesce('a.zz', 'n.x', 'a.d'))
    add('coalesce-default', data, lambda: Coalesce('zz', 'yy', default=['d', T['a']['d']]))
    add('coalesce-skip', data, lambda: Coalesce('n', 'a.d', skip=None))
    add('coalesce-fail', data, lambda: Coalesce('zz', T['yy']))
    add('call', data, lambda: Call(_collect, args=(T['a']['d'], 'lit'), kwargs={'k': T['n']}))
    add('invoke', data, lambda: Invoke(_collect).specs('a.d', k='a.b.0').constants(9).star(args='a.b'))
    # kwargs taken from a dict owned by the target, then extended by later stages of the same Invoke
    add('invoke-star-kwargs', data, lambda: Invoke(_collect).star(kwargs='w.x').constants(z=1).specs(q='a.d'))
    add('invoke-two-stars', data, lambda: Invoke(_collect).star(kwargs='w.x').star(kwargs='w.z'))
    # a type registered (at import, in baseline and history processes alike) with get=False: plain access is UnregisteredTarget,
    # wildcards step over it - in either order, any number of times
    add('noget-path', lambda: {'n': NoGet(), 'm': {'k': 1}}, lambda: 'n.inner')
    add('noget-star', lambda: {'n': NoGet(), 'm': {'k': 1}}, lambda: '**')
    add('noget-star-k', lambda: {'n': NoGet(), 'm': {'k': 1}}, lambda: '*.k')
    add('noget-coalesce', lambda: {'n': NoGet()}, lambda: Coalesce('n.inner', skip_exc=glom_pkg.PathAccessError, default='dflt'))
    # empty / nested-empty literals in argument position (results are mutated by the caller afterwards, see history())
    add('empty-defaults', data, lambda: {'l': Coalesce('zz', default=[]), 'd': Coalesce('zz', default={}), 'n': Coalesce('zz', default=[[], {}]),
                                         's': (S(acc=[]), S.acc), 'm': Match(Switch([(M == 'never', Val(1))], default=[]))})
    add('match-optional-default', lambda: {'id': 1}, lambda: Match({'id': int, Optional('tags', default=[]): list}))
    # a list / dict literal in argument position one of whose elements FAILS (the failure absorbed by an enclosing Coalesce or
    # not), on a spec object that is evaluated again and again
    add('arg-literal-failing-element', data, lambda: Coalesce(Call(_collect, args=([T['a']['d'], T['zz_missing']],)), default='recovered'))
    add('arg-literal-failing-element-dict', data, lambda: Coalesce((S(v={'ok': T['a']['d'], 'bad': T['zz_missing']}), S.v), default='recovered'))
    add('arg-literal-failing-element-raises', data, lambda: T['a']['d'].join([T['a']['d'], T['zz_missing']]))
    # Vars with keyword defaults only; written and read within the call
    add('vars-kw', data, lambda: (S(v=Vars(last='init')), {'before': S.v.last, 'write': ('a.d', A.v.last), 'after': S.v.last}))
    add('vars-empty', data, lambda: (S(v=Vars()), {'before': Coalesce(S.v.last, default='unset'), 'write': ('a.d', A.v.last), 'after': S.v.last}))
    tree = lambda: {'v': 1, 'kids': [{'v': 2, 'kids': []}, {'v': 3, 'kids': [{'v': 4, 'kids': []}]}]}
    add('ref-shared-1', tree, lambda: Ref('node', {'v': 'v', 'kids': ('kids', [_BARE_NODE])}))
    add('ref-shared-2', tree, lambda: Ref('node', {'n': ('kids', len), 'sub': ('kids', [_BARE_NODE])}))
    # two different exception classes with the SAME __name__, raised by different specs of one process
    add('same-named-error-1', data, lambda: ('a.d', _raise_codec_error))
    add('same-named-error-2', data, lambda: ('a.d', _raise_table_error))
    # the SAME class walked through two registries that disagree about it: the module-level one (a plain attribute object)
    # and a private Glommer that iterates it (pairs named *-own-registry run on that Glommer, in baseline and history alike)
    nodes = lambda: {'n': WalkNode(1, WalkNode(2, None)), 'plain': {'k': 1}}
    add('walknode-star-default-registry', nodes, lambda: 'n.*')
    add('walknode-star-own-registry', nodes, lambda: 'n.*')
    add('walknode-starstar-default-registry', nodes, lambda: '**')
    add('walknode-starstar-own-registry', nodes, lambda: '**')
    add('walknode-list-own-registry', nodes, lambda: ('n', [T]))
    add('spec', data, lambda: Spec(('a', 'd')))
    add('ref', lambda: {'v': 1, 'kids': [{'v': 2, 'kids': []}, {'v': 3, 'kids': [{'v': 4, 'kids': []}]}]},
        lambda: Ref('n', {'v': 'v', 'kids': ('kids', [Ref('n')])}))
    add('scope', data, lambda: (S(v=T['a']['d']), {'got': S.v, 'ext': S.ext}))
    add('A', data, lambda: ('a.d', A.saved, Val(0), S.saved))
    add('globals', data, lambda: ('e', [(A.globals.last, T['k'])], S.globals.last))
    add('fill', data, lambda: Fill({'t': (T['a']['d'], 'lit', 1), 's': {T['n'], 2}, 'l': [T['a']['b'][0]]}))
    add('auto-in-fill', data, lambda: Fill([Auto('a.d'), 'a.d']))
    add('match', data, lambda: ('e', Match([{'k': int, 'v': str}])))
    add('match-fail', data, lambda: ('e', Match([{'k': str, 'v': str}])))
    add('match-opt', lambda: {'id': 1}, lambda: Match({'id': int, Optional('name', default='anon'): str}))
    add('match-req', lambda: {}, lambda: Match({Required(str): int}))
    add('match-or', nums, lambda: Match([Or(And(int, M > 3), 1, 2, 3)]))
    add('M', nums, lambda: [(M > 3) | Val(0)])
    add('not', lambda: 5, lambda: Not(M > 9))
    add('regex', lambda: 'abc@def', lambda: Match(Regex(r'(?P<user>\w+)@\w+')))
    add('switch', nums, lambda: [Match(Switch([(M < 2, Val('small')), (M < 5, Val('mid'))], default='big'))])
    add('switch-fail', lambda: 'x', lambda: Match(Switch({1: Val('a'), 2: Val('b')})))
    add('check', data, lambda: ('a.d', Check(type=str, validate=lambda s: len(s) == 1)))
    add('check-fail', data, lambda: ('a.d', Check(equal_to='y')))
    add('check-default', nums, lambda: [Check(validate=_is_even, default=SKIP)])
    add('fold', nums, lambda: Fold(T, init=list, op=lambda acc, x: acc + [x * 2]))
    add('sum', nums, lambda: Sum())
    add('sum-sub', data, lambda: Sum(('e', ['k'])))
    add('flatten', lambda: [[1, 2], (3,), [], [4]], lambda: Flatten())
    add('flatten-lazy', lambda: [[1, 2], (3,)], lambda: Flatten(init='lazy'))
    add('merge', lambda: [{'a': 1}, {'b': 2}, {'a': 3}], lambda: Merge())
    add('fold-fail', lambda: 5, lambda: Sum())
    # reductions whose default start value cannot take the elements (they fail - every time, touching nothing), and reductions over
    # elements that support in-place addition
    add('sum-of-lists-default-init', lambda: [[1], [2, 3], [4]], lambda: Sum())
    add('sum-of-counters-default-init', lambda: [_collections.Counter(a=1), _collections.Counter(a=2, b=1)], lambda: Sum())
    add('sum-of-lists', lambda: {'rows': [[1], [2, 3], [4]]}, lambda: ('rows', Sum(init=list)))
    add('sum-of-counters', lambda: [_collections.Counter(a=1), _collections.Counter(a=2, b=1)], lambda: Sum(init=_collections.Counter))
    add('fold-iadd-first-element', lambda: [[1], [2], [3]], lambda: Fold(T, init=list, op=_operator.iadd))
    add('flatten-of-nested', lambda: [[[1]], [[2], [3]]], lambda: (Flatten(), Flatten()))
    add('merge-of-nested', lambda: [{'a': {'x': 1}}, {'a': {'y': 2}}], lambda: Merge())
    add('group', nums, lambda: Group({T % 3: [T]}))
    add('group-agg', nums, lambda: Group({lambda x: x % 2: {'max': Max(), 'min': Min(), 'avg': Avg(), 'n': Count(), 'sum': Sum()}}))
    add('group-nested', data, lambda: ('e', Group({T['k']: {T['v']: Count()}})))
    add('group-first', nums, lambda: Group(First()))
    add('group-limit', nums, lambda: Group(Limit(3, {T % 2: [T]})))
    add('group-flatten', lambda: [[1], [2, 3]], lambda: Group(Flatten()))
    add('iter', nums, lambda: Iter().filter(lambda x: x > 1).map(T * 3).unique().limit(4))
    add('iter-all', nums, lambda: Iter(lambda x: x + 1).chunked(3).all())
    add('iter-first', nums, lambda: Iter().first(lambda x: x > 4))
    add('iter-windowed', nums, lambda: (Iter().windowed(2).map(sum), list))
    add('iter-split', lambda: [1, None, 2, 3, None, 4], lambda: Iter().split().all())
    add('star', data, lambda: 'w.*.y')
    add('starstar', data, lambda: 'w.**')
    add('star-T', data, lambda: T['e'].__star__()['v'])
    add('star-key-literal', lambda: {'*': 1, 'a': {'*': 2}}, lambda: 'a.*')
    add('star-miss', data, lambda: 'e.*.zz')
    add('starstar-leaf', data, lambda: 'a.**.c')
    add('empty-path', data, lambda: Path())
    add('unregistered', lambda: 5, lambda: ['x'])
    add('bad-spec', data, lambda: {'k': 5})
    add('callable-raises', data, lambda: ('a.d', int))
    add('long-repr', lambda: {'k': list(range(200))}, lambda: 'k.300')
    add('first-key-scope', lambda: [{'w': 1}, {'w': 5}], lambda: (Iter().first(lambda d: d['w'] > 2), 'w'))
    return P


def render(v, depth=0):
    """canonical, address-free rendering with types; drains iterators"""
    if depth > 12:
        return '...'
    if hasattr(v, '__next__'):
        return ('iterator', tuple(render(x, depth + 1) for x in v))
    if isinstance(v, dict):
        return (type(v).__name__, tuple((render(k, depth + 1), render(x, depth + 1)) for k, x in v.items()))
    if isinstance(v, (list, tuple)):
        return (type(v).__name__,) + tuple(render(x, depth + 1) for x in v)
    if isinstance(v, (set, frozenset)):
        return (type(v).__name__,) + tuple(sorted((render(x, depth + 1) for x in v), key=repr))
    return (type(v).__name__, norm_text(repr(v)))


def outcome_signature(o):
    if o.ok:
        try:
            return json.loads(json.dumps(['value', render(o.value)], default=repr))
        except Exception as e:
            return ['value-unrenderable', type(e).__name__]
    cls, text = exc_sig(o.exc)
    # (the class of an error is more than its name: which except clauses catch it)
    cls = '%s%s' % (cls, [b.__module__.split('.')[0] + '.' + b.__name__ for b in type(o.exc).__mro__[1:-2]])
    # the list of registered types is part of the *registrations* the outcome may depend on
    text = re.sub(r'registered types: \([^)]*\)', 'registered types: (...)', text)
    return json.loads(json.dumps(['error', cls, text]))


def mk_scope():
    return {'ext': 'external-value', 'extlist': [1, 2]}


def _hostile_mutate(v, depth=0, seen=None):
    seen = seen if seen is not None else set()
    if id(v) in seen or depth > 6:
        return 0
    seen.add(id(v))
    n = 0
    try:
        if type(v) is list:
            for x in list(v):
                n += _hostile_mutate(x, depth + 1, seen)
            v.append('MUTATED-BY-CALLER'); n += 1
        elif type(v) in (dict, OrderedDict):
            for x in list(v.values()):
                n += _hostile_mutate(x, depth + 1, seen)
            v['MUTATED-BY-CALLER'] = 1; n += 1
        elif type(v) is set:
            v.add('MUTATED-BY-CALLER'); n += 1
        elif type(v) is tuple:
            for x in v:
                n += _hostile_mutate(x, depth + 1, seen)
    except Exception:
        pass
    return n


_BARE_NODE = Ref('node')      # one bare Ref object used by two different definitions (pool entries ref-shared-1 / -2)


def run_pair(idx, P, spec=None, via=None):
    name, mk_t, mk_s = P[idx]
    target = mk_t()
    spec = mk_s() if spec is None else spec
    scope = mk_scope()
    if name in OWN_REGISTRY:
        return target, spec, scope, call(OWN_REGISTRY[name], target, spec)
    fn = via or glom_pkg.glom
    return target, spec, scope, call(fn, target, spec, scope=scope)


# ---------------------------------------------------------------------------
# cold baselines

def baseline_child(idx, star):
    gcore.PATH_STAR = bool(star)
    P = pool()
    with warnings.catch_warnings():
        warnings.simplefilter('ignore')
        _, _, _, o = run_pair(idx, P)
        sig = outcome_signature(o)
    print('BASELINE ' + json.dumps(sig))


def compute_baselines(col, P):
    jobs = [(i, s) for i in range(len(P)) for s in (1, 0)]

    def one(job):
        i, s = job
        cmd = [sys.executable, '-m', 'rv.checks.c06', '--baseline', str(i), str(s)]
        try:
            p = subprocess.run(cmd, env=env.child_env(), cwd=env.VERIF_DIR, timeout=120, stdout=subprocess.PIPE,
                               stderr=subprocess.STDOUT, text=True)
        except subprocess.TimeoutExpired:
            return job, None, 'timeout'
        line = [ln for ln in p.stdout.splitlines() if ln.startswith('BASELINE ')]
        if p.returncode != 0 or not line:
            return job, None, p.stdout[-500:]
        return job, json.loads(line[0][9:]), None
    out = {}
    with concurrent.futures.ThreadPoolExecutor(max_workers=16) as ex:
        for job, sig, err in ex.map(one, jobs):
            if err:
                col.fail_inconclusive('cold baseline for pair %s failed: %s' % (P[job[0]][0], err))
            else:
                out[job] = sig
                col.count('cold_baselines')
    return out


# ---------------------------------------------------------------------------
# invariants at quiescent points

def cache_invariants(col, rng, full=False):
    for star, cache in gcore.Path._CACHE.items():
        col.count('cache_invariant_checks')
        if len(cache) > gcore.Path._MAX_CACHE + 1:
            col.violation('C06/path-cache-unbounded', 'Path._CACHE[%s] has %d entries (max %d)' % (star, len(cache), gcore.Path._MAX_CACHE), None)
        texts = list(cache)
        if not full and len(texts) > 300:
            texts = rng.sample(texts, 300)
        saved = gcore.PATH_STAR
        try:
            gcore.PATH_STAR = star
            for text in texts:
                segs = text.split('.')
                fresh = Path(*[gcore._T_STAR if (star and seg == '*') else gcore._T_STARSTAR if (star and seg == '**') else seg
                               for seg in segs])
                got = cache[text]
                if not isinstance(got, Path) or repr(got) != repr(fresh) or got.path_t.__ops__ != fresh.path_t.__ops__:
                    col.violation('C06/path-cache-incoherent', 'Path._CACHE[%s][%r] = %r, a freshly parsed path is %r' % (star, text, got, fresh), None)
                    return
        finally:
            gcore.PATH_STAR = saved
    ds = gcore._DEFAULT_SCOPE
    keys = set(ds.maps[0])
    if len(ds.maps) != 1 or keys != {gcore.glom, gcore.TargetRegistry}:
        col.violation('C06/default-scope-holds-per-call-state', '_DEFAULT_SCOPE now has maps=%d keys=%s' % (len(ds.maps), short(keys)), None)


class Unrelated:
    pass


# ---------------------------------------------------------------------------

def history(col, rng, P, baselines, length, contract):
    persistent = {}
    seen_kinds = set()
    last_pair = None
    n_unrel = 0
    glommer = Glommer()
    glommer.register(NoGet, get=False)     # (the same registrations as the module-level registry has)
    forced = rng.randint(3, max(4, length // 4))
    for step in range(length):
        r = rng.random()
        if r < 0.005 or step == forced:
            with warnings.catch_warnings():
                warnings.simplefilter('ignore')
                base = rng.randint(0, 10 ** 6)
                t = {'k': 1}
                for i in range(10050):
                    call(glom_pkg.glom, t, 'p%d_%d.k' % (base, i), default=None)
            seen_kinds.add('overflow')
            col.count('cache_overflows')
            cache_invariants(col, rng)
            continue
        if r < 0.05:
            gcore.PATH_STAR = not gcore.PATH_STAR
            seen_kinds.add('toggle')
            col.count('path_star_toggles')
            continue
        if r < 0.08:
            n_unrel += 1
            cls = type('Unrelated%d' % n_unrel, (Unrelated,), {})
            glom_pkg.register(cls, get=lambda o, k: None, iterate=lambda o: iter(()))
            seen_kinds.add('register')
            col.count('registrations')
            continue
        if r < 0.1:
            cache_invariants(col, rng)
            continue
        idx = rng.randrange(len(P))
        mode = rng.choice(['persistent', 'persistent', 'fresh', 'glommer'])
        name = P[idx][0]
        spec = None
        if mode == 'persistent':
            if idx not in persistent:
                persistent[idx] = P[idx][2]()
            spec = persistent[idx]
        via = glommer.glom if mode == 'glommer' else None
        with warnings.catch_warnings():
            warnings.simplefilter('ignore')
            name, mk_t, mk_s = P[idx]
            target = mk_t()
            spec = mk_s() if spec is None else spec
            scope = mk_scope()
            snaps = (snapshot(target), snapshot(spec), snapshot(scope))
            if name in OWN_REGISTRY:
                o = call(OWN_REGISTRY[name], target, spec)       # (these pairs always run on their own Glommer, also in the baseline)
            elif via is None:
                o = call(glom_pkg.glom, target, spec, scope=scope)
            else:
                sc = dict(scope)
                o = call(glommer.glom, target, spec) if 'S.ext' not in repr(spec) and name not in ('scope',) else \
                    call(glom_pkg.glom, target, spec, scope=scope)
            sig = outcome_signature(o)    # (drains iterators: lazy parts run now)
        after = (snapshot(target), snapshot(spec), snapshot(scope))
        col.count('calls_in_history')
        if o.ok:
            # a hostile caller: every mutable container of the RESULT is modified after the call.  The result may alias the
            # (per call fresh) target and scope, never anything a later call depends on
            col.count('result_containers_mutated_by_the_caller', _hostile_mutate(o.value))
        nontrivial = last_pair is not None and last_pair != idx and bool(seen_kinds)
        col.case((name, mode, tuple(sorted(seen_kinds))), nontrivial)
        last_pair = idx
        star = 1 if gcore.PATH_STAR else 0
        wit = {'pair': name, 'mode': mode, 'history_step': step, 'PATH_STAR': bool(star), 'seen': sorted(seen_kinds)}
        for what, b, a in zip(('target', 'spec', 'caller scope'), snaps, after):
            if a != b:
                col.violation('C06/%s-modified:%s' % (what.replace(' ', '-'), name),
                              'pair %s (%s spec): the %s changed: %s' % (name, mode, what, first_diff(b, a)), wit)
                return
        col.count('snapshots_compared', 3)
        want = baselines.get((idx, star))
        if want is None:
            continue
        if sig != want:
            col.violation('C06/outcome-differs-from-cold-baseline:%s:%s' % (name, mode),
                          'pair %s as call #%d of a history (after %s; %s spec; PATH_STAR=%s): %s ; first call of a fresh process: %s'
                          % (name, step, sorted(seen_kinds), mode, bool(star), short(sig, 600), short(want, 600)), wit)
            return
        col.count('outcomes_equal_to_cold_baseline')
        if contract.disagreements:
            col.count('registry_contract_disagreements', len(contract.disagreements))
            d = contract.disagreements[0]
            col.violation('C06/handler-memo-incoherent:%s' % d['op'], 'get_handler returned a handler that a memo-free computation does not: %s' % d, d)
            del contract.disagreements[:]
            return


def spec_glom_history(col, rng):
    """the Spec.glom() entry point with varying scope= arguments on ONE Spec object: each outcome equals a fresh Spec's"""
    mk = lambda: Spec({'unit': Coalesce(S.unit, default='n/a'), 'cur': Coalesce(S.cur, default='n/a'), 'v': 'v'}, scope={'cur': 'EUR'})
    persistent = mk()
    snap = snapshot(persistent)
    for i in range(30):
        kw = rng.choice([{}, {'scope': {'unit': 'kg'}}, {'scope': {'cur': 'USD'}}, {'scope': {'unit': 'g', 'cur': 'CHF'}}])
        caller = dict(kw.get('scope', {}))
        a = call(persistent.glom, {'v': i}, **({'scope': caller} if 'scope' in kw else {}))
        b = call(mk().glom, {'v': i}, **({'scope': dict(kw['scope'])} if 'scope' in kw else {}))
        col.case(('spec.glom-history', i % 4), i > 0)
        col.count('calls_in_history')
        if outcome_signature(a) != outcome_signature(b):
            col.violation('C06/outcome-depends-on-history:Spec.glom', 'call #%d on a re-used Spec object with %r: %r ; a fresh Spec gives %r'
                          % (i + 1, kw, a, b), None)
            return
        if caller != kw.get('scope', {}) or snapshot(persistent) != snap:
            col.violation('C06/spec-modified:Spec.glom', 'Spec.glom(%r) modified %s' % (kw, 'the caller scope' if caller != kw.get('scope', {}) else 'the Spec object: ' + str(first_diff(snap, snapshot(persistent)))), None)
            return
        col.count('outcomes_equal_to_cold_baseline')


def spec_glom_star_toggles(col):
    """ONE Spec('a.*') object evaluated through Spec.glom() again and again while PATH_STAR is toggled: each evaluation means
    what glom(target, 'a.*') means under the setting in force"""
    target = lambda: {'a': {'*': 'literal star key', 'k': 1}}
    sp = Spec('a.*')
    old = gcore.PATH_STAR
    try:
        with warnings.catch_warnings():
            warnings.simplefilter('ignore')
            for i, star in enumerate([True, False, True, True, False, False, True]):
                gcore.PATH_STAR = star
                got, want = call(sp.glom, target()), call(glom_pkg.glom, target(), 'a.*')
                col.case(('spec.glom-star-toggle', i, star), True)
                col.count('path_star_toggles')
                if outcome_signature(got) != outcome_signature(want):
                    col.violation('C06/spec-glom-keeps-the-meaning-of-an-earlier-PATH_STAR', "evaluation #%d of one Spec('a.*') via .glom() with "
                                  "PATH_STAR=%s: %r ; glom(target, 'a.*') gives %r" % (i + 1, star, got, want), None)
                    return
    finally:
        gcore.PATH_STAR = old


def string_paths_under_both_settings(col):
    """the same path TEXT evaluated under both PATH_STAR settings, in both orders and repeatedly: under each setting it means what
    the Path built from its segments under that setting means ('*' / '**' are wildcards when the setting is on, plain keys when off)"""
    target = lambda: {'a': {'*': 'star-key', '**': 'starstar-key', 'k': {'k': 1}}, '*': {'k': 'top-star'}, '**': {'k': 'top-starstar'}, 'k': 0}
    texts = ['a.*', 'a.**', '**.k', '*.k', '**', '*', 'a.**.k', 'a.*.k', '*.**', 'a.k.**', 'k']
    old = gcore.PATH_STAR
    try:
        with warnings.catch_warnings():
            warnings.simplefilter('ignore')
            for order in ([True, False, True, False], [False, True, False, True, True]):
                for text in texts:
                    for i, star in enumerate(order):
                        gcore.PATH_STAR = star
                        segs = [gcore._T_STAR if (star and seg == '*') else gcore._T_STARSTAR if (star and seg == '**') else seg
                                for seg in text.split('.')]
                        got, want = call(glom_pkg.glom, target(), text), call(glom_pkg.glom, target(), Path(*segs))
                        col.case(('string-path-both-settings', text, order[0], i), True)
                        col.count('path_star_toggles')
                        sig = lambda o: ('ok', repr(o.value)) if o.ok else ('raised', type(o.exc).__name__, getattr(o.exc, 'part_idx', None))
                        if sig(got) != sig(want):
                            col.violation('C06/string-path-keeps-the-meaning-of-the-other-PATH_STAR-setting', "glom(target, %r) with PATH_STAR=%s as "
                                          "evaluation #%d of that text (settings so far %r): %r ; the path built from its segments gives %r"
                                          % (text, star, i + 1, order[:i + 1], got, want), None)
                            break
                # the second order must meet texts the first did not leave behind in the caches
                texts = ['x.' + t for t in texts]
                target0 = target
                target = lambda target0=target0: {'x': target0()}
    finally:
        gcore.PATH_STAR = old


def registration_before_and_after_first_use(col):
    """the outcome is a function of the registrations made, not of when the registry was first consulted: a handler registered on a new
    Glommer for one of the default types before its first call, after a warm-up call, or after a failed call, gives the same results"""
    import collections
    from glom import Glommer
    tag = lambda kind: (lambda o, k: (kind, k))
    walk = lambda o: iter(['walked'])
    targets = {list: lambda: {'v': [10, 20]}, dict: lambda: {'v': {'0': 'zero'}}, tuple: lambda: {'v': (10, 20)},
               collections.OrderedDict: lambda: {'v': collections.OrderedDict([('0', 'z')])}, set: lambda: {'v': {10}}, frozenset: lambda: {'v': frozenset([10])}}
    reads = [('get', Path('v', '0')), ('iterate', ('v', [T])), ('star', 'v.*'), ('plain', 'v')]
    for ty, mk in targets.items():
        outcomes = {}
        for history in ('registered first', 'after a warm-up call', 'after a failed call', 'after a call on that very type'):
            g = Glommer()
            if history == 'after a warm-up call':
                call(g.glom, {'a': 1}, 'a')
            elif history == 'after a failed call':
                call(g.glom, {'a': 1}, 'a.b.c')
            elif history == 'after a call on that very type':
                call(g.glom, mk(), ('v', [T]))
            # (registering on the container of the target itself would change how 'v' is found)
            g.register(ty, get=tag(ty.__name__), iterate=walk, exact=(ty is dict))
            outcomes[history] = [outcome_signature(call(g.glom, mk() if ty is not dict else [mk()['v']], spec if ty is not dict else
                                                        {'get': T[0]['0'] if False else Path(T[0], '0'), 'iterate': (T[0], [T]), 'star': Path(T[0], T.__star__()), 'plain': T[0]}[name]))
                                 for name, spec in reads]
            col.case(('registration-before-first-use', ty.__name__, history), True)
            col.count('registrations')
        base = outcomes['registered first']
        for history, got in outcomes.items():
            if got != base:
                col.violation('C06/outcome-depends-on-when-the-registry-was-first-used', 'Glommer().register(%s, get=.., iterate=..) %s: the reads %s give %s ; '
                              'registered before any call they give %s' % (ty.__name__, history, [n for n, _ in reads], short(repr(got), 400), short(repr(base), 400)), None)
        # and the registered handlers are the ones in use
        g = Glommer()
        g.register(ty, get=tag(ty.__name__), iterate=walk, exact=(ty is dict))
        got = call(g.glom, mk() if ty is not dict else [mk()['v']], Path('v', '0') if ty is not dict else Path(T[0], '0'))
        if not (got.ok and got.value == (ty.__name__, '0')):
            col.violation('C06/outcome-depends-on-when-the-registry-was-first-used', 'Glommer().register(%s, get=tagging handler) and then a path through a %s: %r, '
                          'expected the registered handler\'s %r' % (ty.__name__, ty.__name__, got, (ty.__name__, '0')), None)


def related_registration_history(col, rng):
    """registering a BASE of a type that was already looked up: the next call must behave as if the registration had
    been made first (compared with a cold registry that never saw the earlier calls)"""
    for i in range(20):
        Base = type('Base%d' % i, (), {})
        Mid = type('Mid%d' % i, (Base,), {})
        Sub = type('Sub%d' % i, (Mid,), {'__init__': lambda self: setattr(self, 'x', 'attr')})
        h = lambda o, k: 'handler-of-base'
        which = rng.choice([Base, Mid])
        op = rng.choice(['get', 'iterate'])
        spec = 'x' if op == 'get' else [T]
        kw = {'get': h} if op == 'get' else {'iterate': lambda o: iter(['it'])}
        warm, cold = Glommer(), Glommer()
        before = call(warm.glom, Sub(), spec)                    # warms the memo for Sub
        warm.register(which, **kw)
        cold.register(which, **kw)
        a, b = call(warm.glom, Sub(), spec), call(cold.glom, Sub(), spec)
        col.case(('related-registration', op, which is Base), True)
        col.count('calls_in_history', 2)
        if outcome_signature(a) != outcome_signature(b):
            col.violation('C06/outcome-depends-on-lookups-before-a-registration:%s' % op,
                          'glom(Sub(), %r) after register(%s, %s=...): with an earlier identical call %r ; without it %r'
                          % (spec, 'Base' if which is Base else 'Mid', op, a, b), None)
            return
        col.count('outcomes_equal_to_cold_baseline')


def exact_registration_after_lookups(col, rng):
    """register(X, ..., exact=True) for a type that was already looked up (for the same or another operation): the next call behaves
    as if the registration had been made first.  On private Glommers and, with classes made for the occasion, on the module-level
    registry (glom() before, glom.register(), glom() after, compared with a Glommer that registered first)"""
    for i in range(24):
        Base = type('XBase%d' % i, (), {})
        Cls = type('XCls%d' % i, (Base,), {'__init__': lambda self: setattr(self, 'x', 'raw-attribute'),
                                            '__iter__': lambda self: iter([1, 2, 3])})
        op = ('get', 'iterate')[i % 2]
        spec = 'x' if op == 'get' else [T]
        kw = {'get': lambda o, k: 'registered-getter'} if op == 'get' else {'iterate': lambda o: iter([3, 2, 1])}
        warmed_with = (spec, [T], 'x', ('x', T))[i % 4]          # the earlier call used the same or another operation
        module_level = i % 3 == 0
        warm, cold = Glommer(), Glommer()
        runner = glom_pkg.glom if module_level else warm.glom
        before = call(runner, Cls(), warmed_with)
        (glom_pkg.register if module_level else warm.register)(Cls, exact=True, **kw)
        cold.register(Cls, exact=True, **kw)
        a, b = call(runner, Cls(), spec), call(cold.glom, Cls(), spec)
        col.case(('exact-registration-after-lookup', op, i % 4, module_level), True)
        col.count('calls_in_history', 2)
        col.count('registrations', 2)
        if outcome_signature(a) != outcome_signature(b):
            col.violation('C06/outcome-depends-on-lookups-before-a-registration:exact:%s' % op,
                          '%s(X(), %r) after register(X, %s=..., exact=True): with an earlier call %r -> %r the outcome is %r ; on a registry '
                          'that registered first it is %r' % ('glom' if module_level else 'Glommer.glom', spec, op, warmed_with, before, a, b), None)
            return
        col.count('outcomes_equal_to_cold_baseline')


def ephemeral_star_expressions(col, rng):
    """wildcard expressions that do not outlive their call - T expressions and Paths built inline, and (after the text memo has
    overflowed) path strings - one after the other with different tails: each means what its own steps say"""
    n = 40
    mk_target = lambda: {'items': [{'k%d' % j: (i, j) for j in range(n)} for i in range(3)],
                         'tree': {'l': {'k%d' % j: ('l', j) for j in range(n)}, 'r': {'k%d' % j: ('r', j) for j in range(n)}}}
    order = list(range(n))
    rng.shuffle(order)

    def run_series(label, mk_spec, expected):
        for j in order:
            t = mk_target()
            got = call(glom_pkg.glom, t, mk_spec(j))
            want = expected(t, j)
            col.case(('ephemeral-star', label), True)
            col.count('calls_in_history')
            col.count('ephemeral_wildcard_expressions')
            if not (got.ok and got.value == want):
                col.violation('C06/outcome-depends-on-history:short-lived-wildcard-expression:' + label,
                              '%s with tail k%d, evaluated after %d other short-lived wildcard expressions: %r, expected %r'
                              % (label, j, order.index(j), got, want), None)
                return False
            col.count('outcomes_equal_to_cold_baseline')
        return True
    star = lambda t, j: [row['k%d' % j] for row in t['items']]
    ok = run_series('T.__star__()', lambda j: T['items'].__star__()['k%d' % j], star) and \
        run_series('Path(.., T.__star__(), ..)', lambda j: Path('items', T.__star__(), 'k%d' % j), star) and \
        run_series('T.__starstar__()', lambda j: T['tree'].__starstar__()['k%d' % j], lambda t, j: [('l', j), ('r', j)]) and \
        run_series('star-in-list-spec', lambda j: ('items', [T.__star__()]), lambda t, j: [list(r.values()) for r in t['items']])
    if not ok or not gcore.PATH_STAR:
        return
    with warnings.catch_warnings():
        warnings.simplefilter('ignore')
        base = rng.randint(0, 10 ** 6)
        for i in range(10050):
            call(glom_pkg.glom, {'k': 1}, 'q%d_%d.k' % (base, i), default=None)
    col.count('cache_overflows')
    run_series("string path after memo overflow", lambda j: 'items.*.k%d' % j, star) and \
        run_series("** string path after memo overflow", lambda j: 'tree.**.k%d' % j, lambda t, j: [('l', j), ('r', j)])


def one_spec_object_on_different_targets(col):
    """"its outcome is a function of target, spec, scope and registrations only": ONE spec object whose default / argument / value is
    itself a spec (so that what it yields depends on the target or the scope of the call) is evaluated on a sequence of DIFFERENT
    targets and scopes; each outcome equals that of a freshly built equal spec object on that target"""
    from glom import Check, Match, M, Or, And, Switch, Val, Assign, Call, Invoke, Iter, SKIP
    builders = [
        ('Check(type=, default=T[..])', lambda: Check(T['v'], type=str, default=T['port'])),
        ('Check(equal_to=, default=S.x)', lambda: Check(T['v'], equal_to='never', default=S.fallback)),
        ('Check(instance_of=, default=Spec)', lambda: Check(T['v'], instance_of=bytes, default=Spec(('port', lambda p: p + 1)))),
        ('Check(one_of=, default=(T, T))', lambda: Check(T['v'], one_of=('never',), default=(T['port'], S.fallback))),
        ('Check in a filter with default SKIP', lambda: ('rows', Iter().filter(Check(type=int, default=SKIP)).all())),
        ('Coalesce(default=T[..])', lambda: Coalesce('zz', default=T['port'])),
        ('Match(default=T[..])', lambda: Match(M == 'never', default=T['port'])),
        ('Match(type, default=constant)', lambda: Match({'v': int, str: object}, default='no match')),
        ('Match(pattern) without default', lambda: Match({'v': int, str: object})),
        ('Or(default=S.x)', lambda: Match(Or(M == 'never', default=S.fallback))),
        ('And(default=[T[..]])', lambda: Match(And(M == 'never', default=[T['port']]))),
        ('Switch(default=T[..])', lambda: Match(Switch([(M == 'never', Val(0))], default=T['port']))),
        ('Call(args=(T[..], S.x))', lambda: Call(lambda a, b: (a, b), args=(T['port'], S.fallback))),
        ('Invoke.specs', lambda: Invoke(lambda a, k=None: (a, k)).specs(T['port'], k=S.fallback)),
        ('S(x=T[..]) then read', lambda: (S(bound=T['port']), S.bound)),
        ('T-call argument', lambda: T['fn'](T['port'], S.fallback)),
    ]
    targets = [({'v': 5, 'port': 8080, 'rows': [1, 'a', 2], 'fn': _collect}, {'fallback': 'ABC'}),
               ({'v': 6, 'port': 9090, 'rows': ['x', 3], 'fn': _collect}, {'fallback': 'XYZ'}),
               ({'v': 'text', 'port': 443, 'rows': [], 'fn': _collect}, {'fallback': None}),
               ({'v': 5, 'port': 8080, 'rows': [1, 'a', 2], 'fn': _collect}, {'fallback': 'ABC'})]
    for name, mk in builders:
        persistent = mk()
        snap = snapshot(persistent)
        for i, (t, sc) in enumerate(targets):
            a = call(glom_pkg.glom, dict(t), persistent, scope=dict(sc))
            b = call(glom_pkg.glom, dict(t), mk(), scope=dict(sc))
            col.case(('one-object-many-targets', name, i), i > 0)
            col.count('calls_in_history', 2)
            if outcome_signature(a) != outcome_signature(b):
                col.violation('C06/outcome-depends-on-history:one-object-on-different-targets:%s' % name.split('(')[0],
                              '%s: evaluation #%d of one spec object, on %r with scope %r: %r ; a fresh equal spec object gives %r'
                              % (name, i + 1, t, sc, a, b), None)
                break
            # the object's other entry points, where it has any (Match.matches / Match.verify, Spec.glom, Fill.fill, Iter.first ...): asking
            # them is a read-only use as well
            for entry in ('matches', 'verify', 'fill'):
                fn = getattr(persistent, entry, None)
                if callable(fn):
                    call(fn, dict(t))
                    col.count('calls_in_history')
            if snapshot(persistent) != snap:
                col.violation('C06/spec-modified:%s' % name.split('(')[0], '%s: the spec object changed during evaluation #%d: %s'
                              % (name, i + 1, first_diff(snap, snapshot(persistent))), None)
                break
            col.count('outcomes_equal_to_cold_baseline')


def run(ctx):
    col, rng = ctx.col, ctx.rng
    P = pool()
    col.require('cold_baselines', len(P))
    col.require('calls_in_history', 1000)
    col.require('outcomes_equal_to_cold_baseline', 1000)
    col.require('cache_overflows', 1)
    col.require('path_star_toggles', 1)
    col.require('cache_invariant_checks', 2)
    baselines = compute_baselines(col, P)
    if col.want_sample('pool'):
        col.sample({'pool_pairs': [p[0] for p in P]}, 'pool')
        col.sample({'pair': 'group', 'cold_baseline': baselines.get((P.index(next(p for p in P if p[0] == 'group')), 1))}, 'pool')
    contract = RegistryContract()
    contract.install()
    saved_star = gcore.PATH_STAR
    try:
        spec_glom_history(col, rng)
        spec_glom_star_toggles(col)
        string_paths_under_both_settings(col)
        registration_before_and_after_first_use(col)
        related_registration_history(col, rng)
        exact_registration_after_lookups(col, rng)
        one_spec_object_on_different_targets(col)
        ephemeral_star_expressions(col, rng)
        for h in range(ctx.n(3, 4)):
            history(col, rng, P, baselines, ctx.n(500, 3000), contract)
        cache_invariants(col, rng, full=True)
        col.count('handler_lookups_checked', contract.lookups)
    finally:
        gcore.PATH_STAR = saved_star
        contract.uninstall()


if __name__ == '__main__':
    if len(sys.argv) >= 4 and sys.argv[1] == '--baseline':
        baseline_child(int(sys.argv[2]), int(sys.argv[3]))
