"""C10 - M, And, Or, Not, Switch and Check decide like the boolean expressions denoted.

Oracle: boolean denotation of the check's own tree description, evaluated for ALL
2^n truth assignments of the atoms (targets are tuples whose coordinate i decides
atom i).  Monitors: instrumented predicates log every invocation, so the order and
the set of children actually evaluated (short circuit) is observed and compared
with the denotation's evaluation order.
"""
import itertools
import functools
import operator

import enum
import numbers
import collections.abc
from .. import env
from ..util import call
from ..report import short
from ..gen import Fn

glom = env.bind()
from glom import (T, M, And, Or, Not, Match, MatchError, Switch, Check, CheckError, Val, GlomError, Call,  # noqa: E402
                  glom as G)

META = {
    'level': 'exploration',
    'exhaustive': True,
    'rule': ('combinator trees to depth 3 over atoms {M(T[i]) op c for the six operators, M(T[i]) truthiness, M op c on the '
             'whole target, type, tuple pattern with a literal, instrumented predicate, always-true Val(tag), failing T access} '
             'built with constructors and (where Python allows) with & | ~, with and without default=; every tree is '
             'evaluated on ALL 2^n assignments of its n <= 4 deciding coordinates, under Match(...) and, for pure-M trees, '
             'bare. Switch with list and dict cases, default, no match. Check: every keyword combination of type, '
             'instance_of, equal_to | one_of, validate (1-2 predicates), default, with and without a sub-spec x a target '
             'pool. Non-trivial: depth >= 2 or >= 2 atoms; distinct by (tree shape, atom kinds, construction style, '
             'assignment).'),
    'assumptions': [
        'M comparisons are generated between mutually comparable values only',
        'Check validators are total; besides real booleans they return other falsy values (None, 0, empty string), which pass: a validator fails a Check by returning False or raising; defaults are opaque sentinels',
        'a rejection decided by a failing T access inside a combinator is any GlomError, otherwise MatchError',
    ],
}

SENT = 'DEFAULT-SENTINEL'
LISTDEFAULT = 'DEFAULT-LIST-WITH-T'     # stands for default=['dflt', T, {'t': T}]: evaluated against the target in argument mode


FAILDEFAULT = 'DEFAULT-THAT-CANNOT-BE-EVALUATED'      # stands for default=T['zz_fallback'], which fails on every target generated here
# ('DEFAULT-LOGGED', tag) stands for default=Call(fn, args=(T,)): a computed default whose evaluation is seen in the predicate log - a default is
# consulted after a rejection, and only then


def _mk_default(d, log=None):
    if d == LISTDEFAULT:
        return ['dflt', T, {'t': T}]
    if d == FAILDEFAULT:
        return T['zz_fallback']
    if isinstance(d, tuple) and d[0] == 'DEFAULT-LOGGED':
        return Call(Fn(d[1], behaviour=lambda t, tag=d[1]: ('computed-default', tag), log=log), args=(T,))
    return d


def _default_value(d, target):
    if isinstance(d, tuple) and d and d[0] == 'DEFAULT-LOGGED':
        return ('computed-default', d[1])
    return ['dflt', target, {'t': target}] if d == LISTDEFAULT else d


_PointNT = collections.namedtuple('_PointNT', 'x y')


class _Pair2(tuple):
    def __new__(cls, a, b):
        return tuple.__new__(cls, (a, b))


class _Bag(frozenset):
    def __new__(cls, *items):
        return frozenset.__new__(cls, items)


CONSTANT_CONTAINER_DEFAULTS = [_PointNT(0, 'origin'), _Pair2('a', 'b'), _Bag(1, 2), collections.OrderedDict(a=1), collections.Counter('aab')]


def _pick_default(rng, counter):
    r = rng.random()
    if r < 0.4:
        return SENT
    if r < 0.6:
        return LISTDEFAULT
    if r < 0.8:
        return FAILDEFAULT
    if r < 0.87:
        # an instance of a container SUBCLASS is a constant (only plain list / dict / tuple / set literals are rebuilt)
        return rng.choice(CONSTANT_CONTAINER_DEFAULTS)
    counter[0] += 1
    return ('DEFAULT-LOGGED', 'd%d' % counter[0])
OPS = {'==': operator.eq, '!=': operator.ne, '>': operator.gt, '<': operator.lt, '>=': operator.ge, '<=': operator.le}


class _Meta(type):
    pass


class _MetaTuple(tuple, metaclass=_Meta):
    pass


class _MetaOther(metaclass=_Meta):
    pass


class _Colour(enum.Enum):
    RED = 1


class NoNamePred:
    """a predicate that is a callable *instance*: it has no __name__"""
    def __init__(self, tag, i, log):
        self.tag, self.i, self.log = tag, i, log

    def __call__(self, t):
        self.log.append(self.tag)
        return bool(t[self.i])

    def __repr__(self):
        return '<%s>' % self.tag


def _partial_pred(tag, i, log, t):
    log.append(tag)
    return bool(t[i])


def m_op(lhs, op, c):
    return {'==': lambda: lhs == c, '!=': lambda: lhs != c, '>': lambda: lhs > c, '<': lambda: lhs < c,
            '>=': lambda: lhs >= c, '<=': lambda: lhs <= c}[op]()


# ---------------------------------------------------------------------------
# atoms: dict(kind, i, truth(target), ret ('target' or tag), err, spec, pred, m_pure)

def gen_atom(rng, n, serial, log):
    i = rng.randrange(n)
    kind = rng.choice(['mexpr', 'mexpr', 'mexpr', 'mexpr2', 'mexpr-reflected', 'msub', 'mwhole', 'type', 'pattern', 'pred', 'pred',
                       'predobj', 'partial', 'val', 'badT', 'check'])
    a = {'kind': kind, 'i': i, 'ret': 'target', 'err': 'match', 'pred': None, 'm_pure': False, 'op_ok': False}
    if kind == 'mexpr':
        op = rng.choice(list(OPS))
        c = rng.choice([0, 1])
        a.update(name='M(T[%d])%s%d' % (i, op, c), truth=lambda t: OPS[op](t[i], c), spec=m_op(M(T[i]), op, c),
                 m_pure=True, op_ok=True)
    elif kind == 'mexpr2':
        # both operands are M(T-expression)s
        op = rng.choice(list(OPS))
        j = rng.randrange(n)
        a.update(name='M(T[%d])%sM(T[%d])' % (i, op, j), truth=lambda t: OPS[op](t[i], t[j]), spec=m_op(M(T[i]), op, M(T[j])),
                 m_pure=True, op_ok=True)
    elif kind == 'mexpr-reflected':
        # the constant on the left: Python evaluates the reflected comparison on the M(T-expression)
        op = rng.choice(list(OPS))
        c = rng.choice([0, 1])
        a.update(name='%d%sM(T[%d])' % (c, op, i), truth=lambda t: OPS[op](c, t[i]), spec=m_op(c, op, M(T[i])), m_pure=True, op_ok=True)
    elif kind == 'msub':
        a.update(name='M(T[%d])' % i, truth=lambda t: bool(t[i]), spec=M(T[i]), m_pure=True)
    elif kind == 'mwhole':
        op = rng.choice(list(OPS))
        c = tuple(rng.choice([0, 1]) for _ in range(n))
        a.update(name='M%s%r' % (op, c), truth=lambda t: OPS[op](t, c), spec=m_op(M, op, c), m_pure=True, op_ok=True)
    elif kind == 'type':
        # (classes with a metaclass of their own - ABCs, a user metaclass, an Enum - are type atoms like any other class)
        ty = rng.choice([tuple, list, object, int, collections.abc.Sequence, collections.abc.Mapping, collections.abc.Sized, numbers.Number,
                         collections.abc.Hashable, _MetaTuple, _MetaOther, _Colour])
        a.update(name=ty.__name__, truth=lambda t: isinstance(t, ty), spec=ty)
    elif kind == 'pattern':
        pat = tuple(1 if j == i else object for j in range(n))
        a.update(name='pattern[%d]==1' % i, truth=lambda t: t[i] == 1, spec=pat)
    elif kind == 'pred':
        tag = 'p%d' % serial
        fn = Fn(tag, behaviour=lambda t: bool(t[i]), log=log)
        a.update(name='<%s:t[%d]>' % (tag, i), truth=lambda t: bool(t[i]), spec=fn, pred=tag)
    elif kind == 'predobj':
        tag = 'q%d' % serial
        a.update(name='<%s:callable object t[%d]>' % (tag, i), truth=lambda t: bool(t[i]), spec=NoNamePred(tag, i, log), pred=tag)
    elif kind == 'partial':
        tag = 'r%d' % serial
        a.update(name='<%s:partial t[%d]>' % (tag, i), truth=lambda t: bool(t[i]),
                 spec=functools.partial(_partial_pred, tag, i, log), pred=tag)
    elif kind == 'check':
        # a Check without default as an operand: it yields the target or is a rejection (a CheckError: a GlomError, not a MatchError)
        c = rng.choice([0, 1])
        how = rng.choice(['equal_to', 'one_of', 'validate'])
        chk = {'equal_to': lambda: Check(T[i], equal_to=c), 'one_of': lambda: Check(T[i], one_of=(c, 'zz')),
               'validate': lambda: Check(T[i], validate=lambda v: v == c)}[how]()
        a.update(name='Check(T[%d], %s %d)' % (i, how, c), truth=lambda t: t[i] == c, spec=chk, err='glom')
    elif kind == 'val':
        tag = 'tag%d' % serial
        a.update(name='Val(%s)' % tag, truth=lambda t: True, spec=Val(tag), ret=tag, m_pure=True)
    else:
        a.update(name='M(T[9])==1', truth=lambda t: False, spec=(M(T[9]) == 1), err='glom', m_pure=True, op_ok=True)
    return ('atom', a)


def gen_tree(rng, n, depth, counter, log):
    if depth == 0 or rng.random() < 0.25:
        counter[0] += 1
        return gen_atom(rng, n, counter[0], log)
    kind = rng.choice(['and', 'and', 'or', 'or', 'not'])
    if kind == 'not':
        return ('not', gen_tree(rng, n, depth - 1, counter, log))
    kids = [gen_tree(rng, n, depth - 1, counter, log) for _ in range(rng.randint(1, 3))]
    default = _pick_default(rng, counter) if rng.random() < 0.25 else None
    return (kind, kids, default)


def supports_ops(spec):
    return hasattr(type(spec), '__and__') and hasattr(type(spec), '__or__') and hasattr(type(spec), '__invert__')


def build(node, rng, style, log=None):
    """-> glom spec; style 'ops' uses & | ~ wherever the operands allow"""
    kind = node[0]
    if kind == 'atom':
        return node[1]['spec']
    if kind == 'not':
        child = build(node[1], rng, style, log)
        if style == 'ops' and supports_ops(child):
            return ~child
        return Not(child)
    kids = [build(k, rng, style, log) for k in node[1]]
    default = node[2]
    cls = And if kind == 'and' else Or
    if style == 'ops' and default is None and len(kids) >= 2 and supports_ops(kids[0]):
        # a & b & c flattens into And(a, b, c): the same denotation
        out = kids[0]
        for k in kids[1:]:
            out = (out & k) if kind == 'and' else (out | k)
        if type(out) is cls and len(out.children) >= len(kids):
            return out
    if default is None:
        return cls(*kids)
    return cls(*kids, default=_mk_default(default, log))


def denote(node, target, log):
    """('pass', value) | ('fail', err kind); value 'TARGET' stands for the target itself"""
    kind = node[0]
    if kind == 'atom':
        a = node[1]
        if a['pred']:
            log.append(a['pred'])
        if a['truth'](target):
            return ('pass', 'TARGET' if a['ret'] == 'target' else a['ret'])
        return ('fail', a['err'])
    if kind == 'not':
        r = denote(node[1], target, log)
        return ('fail', 'match') if r[0] == 'pass' else ('pass', 'TARGET')
    kids, default = node[1], node[2]
    if kind == 'and':
        res = ('pass', 'TARGET')
        for k in kids:
            res = denote(k, target, log)
            if res[0] == 'fail':
                break
    else:
        for k in kids:
            res = denote(k, target, log)
            if res[0] == 'pass':
                break
    if res[0] == 'fail' and default is not None:
        if default == FAILDEFAULT:
            return ('fail', 'glom')           # the rejection stands, as the error of the default that could not be evaluated
        if isinstance(default, tuple) and default[0] == 'DEFAULT-LOGGED':
            log.append(default[1])
        return ('pass', default)
    return res


def describe(node):
    kind = node[0]
    if kind == 'atom':
        return node[1]['name']
    if kind == 'not':
        return 'Not(%s)' % describe(node[1])
    d = ', default' if node[2] is not None else ''
    return '%s(%s%s)' % (kind.capitalize(), ', '.join(describe(k) for k in node[1]), d)


def shape(node):
    kind = node[0]
    if kind == 'atom':
        return node[1]['kind']
    if kind == 'not':
        return ('not', shape(node[1]))
    return (kind, node[2] is not None) + tuple(shape(k) for k in node[1])


def atoms(node):
    if node[0] == 'atom':
        return [node[1]]
    if node[0] == 'not':
        return atoms(node[1])
    return [a for k in node[1] for a in atoms(k)]


def depth_of(node):
    if node[0] == 'atom':
        return 0
    if node[0] == 'not':
        return 1 + depth_of(node[1])
    return 1 + max(depth_of(k) for k in node[1])


def compare(col, desc, got, want, target, got_log, want_log, ctxname, wit):
    """got: util.Outcome; want: denotation"""
    col.count('assignments_evaluated')
    if want[0] == 'pass':
        expect = target if want[1] == 'TARGET' else _default_value(want[1], target)
        if not got.ok:
            return col.violation('C10/rejects-where-denotation-passes:' + ctxname,
                                 '%s on %r: denotation passes with %r, glom raised %r' % (desc, target, expect, got.exc), wit)
        if got.value != expect or type(got.value) is not type(expect):
            return col.violation('C10/wrong-result-value:' + ctxname,
                                 '%s on %r: expected result %r, glom returned %r' % (desc, target, expect, got.value), wit)
    else:
        if got.ok:
            return col.violation('C10/passes-where-denotation-rejects:' + ctxname,
                                 '%s on %r: denotation rejects, glom returned %r' % (desc, target, got.value), wit)
        want_cls = MatchError if want[1] == 'match' else GlomError
        if not isinstance(got.exc, want_cls):
            return col.violation('C10/rejection-not-%s:%s' % (want_cls.__name__, ctxname),
                                 '%s on %r: rejection raised %r (%s), expected a %s'
                                 % (desc, target, got.exc, type(got.exc).__name__, want_cls.__name__), wit)
    got_log = [e[0] if isinstance(e, tuple) else e for e in got_log]
    if got_log != want_log:
        return col.violation('C10/short-circuit-order:' + ctxname,
                             '%s on %r: predicates invoked %s, denotation evaluates %s' % (desc, target, got_log, want_log), wit)
    col.count('predicate_calls_observed', len(got_log))


def tree_case(col, rng, n=None, depth=None):
    n = n or rng.randint(1, 4)
    log = []
    counter = [0]
    node = gen_tree(rng, n, depth if depth is not None else rng.randint(1, 3), counter, log)
    desc = describe(node)
    ats = atoms(node)
    pure = all(a['m_pure'] for a in ats)
    style = rng.choice(['ctor', 'ops'])
    spec = build(node, rng, style, log)
    nontrivial = depth_of(node) >= 2 or len(ats) >= 2
    wit = {'tree': desc, 'spec': short(spec), 'style': style}
    if col.want_sample('tree'):
        col.sample({'tree': desc, 'spec_repr': short(spec), 'style': style, 'coordinates': n}, 'tree')
    trees = [(node, spec, desc, pure, '')]
    if supports_ops(spec) and rng.random() < 0.5:
        # the spec is used as an operand of further & | ~ expressions (twice with |: two different extensions of one base).
        # Each derived spec denotes its own expression and the base keeps denoting the original one.
        for kind in ('or', 'and', 'or'):
            counter[0] += 1
            extra = gen_atom(rng, n, counter[0], log)
            dnode = (kind, [node, extra], None)
            dspec = (spec | extra[1]['spec']) if kind == 'or' else (spec & extra[1]['spec'])
            trees.append((dnode, dspec, describe(dnode), pure and extra[1]['m_pure'], ':derived-with-operator'))
        trees.append((('not', node), ~spec, 'Not(%s)' % desc, pure, ':derived-with-operator'))
        trees.append((node, spec, desc, pure, ':base-after-deriving'))
        del trees[0]
        col.count('operator_derivations_from_a_shared_base', 4)
    if pure and 'DEFAULT-LOGGED' not in repr(node) and rng.random() < 0.3:
        # copies of a tree made of M expressions only (copy, deepcopy, a pickle round trip - specs kept in configuration get copied):
        # a copy decides like the original
        import copy
        import pickle
        for how, mk in (('copy.copy', copy.copy), ('copy.deepcopy', copy.deepcopy), ('pickle', lambda x: pickle.loads(pickle.dumps(x)))):
            made = call(mk, spec)
            col.count('copies_of_m_expressions')
            if made.ok:
                trees.append((node, made.value, desc, True, ':' + how))
            else:
                col.count('m_expressions_that_could_not_be_copied')      # (that a combinator can be pickled is not claimed)
    for node, spec, desc, pure, suffix in trees:
        wit = {'tree': desc, 'spec': short(spec), 'style': style, 'role': suffix}
        for bits in itertools.product([0, 1], repeat=n):
            target = tuple(bits)
            col.case((shape(node), style, bits), nontrivial)
            want_log = []
            want = denote(node, target, want_log)
            del log[:]
            got = call(G, target, Match(spec))
            compare(col, desc, got, want, target, list(log), want_log, 'Match' + suffix, wit)
            if pure:
                del log[:]
                got = call(G, target, spec)
                compare(col, desc, got, want, target, list(log), want_log, 'bare' + suffix, wit)


_REJECT_GLOM = object()
_REJECT_MATCH = object()


def switch_case(col, rng):
    n = rng.randint(1, 3)
    log, counter = [], [0]
    cases = []
    for _ in range(rng.randint(1, 4)):
        key = gen_tree(rng, n, rng.randint(0, 2), counter, log)
        counter[0] += 1
        r = rng.random()
        if r < 0.12:
            # the value spec of the selected case itself fails: that failure is the Switch's outcome (no other case, no default)
            val = (T[9], _REJECT_GLOM, None)
        elif r < 0.24:
            val = ((M == 'never-equal'), _REJECT_MATCH, None)
        elif r < 0.7:
            vtag = 'v%d' % counter[0]
            val = (Val(vtag), lambda t, vtag=vtag: vtag, None)
        elif rng.random() < 0.5:
            i = rng.randrange(n)
            val = (T[i], lambda t, i=i: t[i], None)
        else:
            ptag = 'vp%d' % counter[0]
            fn = Fn(ptag, behaviour=lambda t: True, log=log)
            val = (fn, lambda t: t, ptag)     # a predicate as value spec, evaluated in match mode: returns the target
        cases.append((key, val))
    default = _pick_default(rng, counter) if rng.random() < 0.35 else None
    as_dict = rng.random() < 0.4
    built = [(build(k, rng, 'ctor', log), v[0]) for k, v in cases]
    if as_dict:
        try:
            d = dict(built)
            if len(d) != len(built):
                as_dict = False
        except TypeError:
            as_dict = False
    kw = {} if default is None else {'default': _mk_default(default, log)}
    spec = Switch(dict(built) if as_dict else built, **kw)
    desc = 'Switch(%s%s)' % (', '.join('%s: %s' % (describe(k), short(v[0], 30)) for k, v in cases), ', default' if default else '')
    wit = {'switch': desc}
    if col.want_sample('switch'):
        col.sample({'switch': desc, 'dict_form': as_dict}, 'switch')
    for bits in itertools.product([0, 1], repeat=n):
        target = tuple(bits)
        col.case(('switch', tuple(shape(k) for k, _ in cases), as_dict, default is not None, bits), len(cases) >= 2)
        want_log = []
        want = None
        for key, val in cases:
            r = denote(key, target, want_log)
            if r[0] == 'pass':
                if val[2]:
                    want_log.append(val[2])
                want = ('fail', 'glom' if val[1] is _REJECT_GLOM else 'match') if val[1] in (_REJECT_GLOM, _REJECT_MATCH) \
                    else ('pass', val[1](target))
                if want[0] == 'fail':
                    col.count('switch_value_spec_failures')
                break
        if want is None:
            want = ('pass', default) if default is not None else ('fail', 'match')
            if default == FAILDEFAULT:
                want = ('fail', 'glom')
            elif isinstance(default, tuple) and default[0] == 'DEFAULT-LOGGED':
                want_log.append(default[1])
        del log[:]
        got = call(G, target, Match(spec))
        if want[0] == 'pass' and want[1] is target:
            want = ('pass', 'TARGET')
        compare(col, desc, got, want, target, list(log), want_log, 'Switch', wit)


# ---------------------------------------------------------------------------
# Check: exhaustive keyword combinations

def pos(x):
    return isinstance(x, (int, float)) and not isinstance(x, bool) and x > 0


def is_short(x):
    return not hasattr(x, '__len__') or len(x) < 2


def falsy_unless_false(x):
    return ('' if isinstance(x, str) else 0 if isinstance(x, (int, float)) else None) if is_short(x) else False


def returns_none(x):
    return None


def raises_unless_short(x):
    # a validator fails a Check by returning False OR by raising
    if not is_short(x):
        raise ValueError('too long: %r' % (x,))
    return True


COMPUTED_DEFAULT = Val(('computed', 'default'))


def _in(t, choices):
    """the `in` of the reference: == against each choice (never hashing)"""
    return any(t is c or t == c for c in choices)


def check_cases(col):
    targets = [1, 0, -1, 'a', '', 'ab', 1.0, True, None, (1,), [1], {'a': 1}, []]
    types = [None, int, str, (int, str), bool]
    insts = [None, int, (int, float), str, object]
    vals = [None, ('equal_to', 1), ('equal_to', 'a'), ('one_of', (1, 2)), ('one_of', ['a', 'ab']), ('equal_to', None),
            ('equal_to', [1]), ('one_of', ([1], {'a': 1}))]
    # (falsy_unless_false / returns_none: a validator fails the Check by returning False or by raising - a result that is merely
    # falsy, like the None of an assertion-style validator, the 0 of validate=int or an empty string, passes)
    validators = [None, pos, [pos, is_short], is_short, falsy_unless_false, [returns_none, pos], raises_unless_short]
    # (a default is handed out the same way whichever condition failed: evaluated in argument position - Val(x) gives x)
    defaults = [None, SENT, COMPUTED_DEFAULT]
    specs = [None, T['x']]
    n = 0
    for ty, inst, val, vd, dflt, sp in itertools.product(types, insts, vals, validators, defaults, specs):
        kw = {}
        if ty is not None:
            kw['type'] = ty
        if inst is not None:
            kw['instance_of'] = inst
        if val is not None:
            kw[val[0]] = val[1]
        if vd is not None:
            kw['validate'] = vd
        if dflt is not None:
            kw['default'] = dflt
        args = (sp,) if sp is not None else ()
        built = call(Check, *args, **kw)
        if not built.ok:
            col.violation('C10/check-constructor', 'Check(%s) raised %r' % (short(kw), built.exc), None)
            continue
        chk = built.value
        conds = [k for k in kw if k != 'default']
        for t in targets:
            n += 1
            col.case(('check', tuple(sorted(conds)), dflt is not None, sp is not None, type(t).__name__), len(conds) >= 2)
            target = {'x': t} if sp is not None else t
            ok = True
            if ty is not None:
                ok = ok and type(t) in (ty if isinstance(ty, tuple) else (ty,))
            if inst is not None:
                ok = ok and isinstance(t, inst)
            if val is not None:
                ok = ok and _in(t, (val[1],) if val[0] == 'equal_to' else val[1])
            vlist = [] if vd is None else (vd if isinstance(vd, list) else [vd])
            if not conds:
                vlist = [bool]   # a bare Check is a truthiness check
            for v in vlist:
                res = call(v, t)
                ok = ok and res.ok and (res.value is not False)
            got = call(G, target, chk)
            col.count('check_evaluations')
            wit = {'check': short(chk), 'target': short(target)}
            if ok:
                if not got.ok or got.value is not target:
                    col.violation('C10/check-rejects-valid', '%s on %r: all conditions hold, got %r' % (short(chk), target, got), wit)
            elif dflt is COMPUTED_DEFAULT:
                if not got.ok or got.value != ('computed', 'default'):
                    col.violation('C10/check-default-not-returned:computed-default', '%s on %r: a condition fails, expected the value of the default, got %r'
                                  % (short(chk), target, got), wit)
            elif dflt is not None:
                if not got.ok or got.value is not dflt:
                    col.violation('C10/check-default-not-returned', '%s on %r: a condition fails, expected the default, got %r'
                                  % (short(chk), target, got), wit)
            else:
                if got.ok or not isinstance(got.exc, CheckError):
                    col.violation('C10/check-accepts-invalid' if got.ok else 'C10/check-error-class',
                                  '%s on %r: a condition fails, expected CheckError, got %r' % (short(chk), target, got), wit)
    col.sample({'check_combinations_enumerated': n}, 'check')
    # the conditions may be given as any container of types / values: one-element sets and frozensets, lists, dicts (their keys)
    hashable_targets = [1, 0, 'a', 'ab', 1.0, True, None, (1,)]
    kinds = [('type', {int}, lambda t: type(t) is int), ('type', [int, str], lambda t: type(t) in (int, str)), ('type', frozenset([str]), lambda t: type(t) is str),
             ('instance_of', {int}, lambda t: isinstance(t, int)), ('instance_of', [int, str], lambda t: isinstance(t, (int, str))),
             ('instance_of', frozenset([str, float]), lambda t: isinstance(t, (str, float))),
             ('one_of', {1}, lambda t: t in {1}), ('one_of', frozenset(['a']), lambda t: t in {'a'}), ('one_of', {1: 'x'}, lambda t: t in {1: 'x'}),
             ('one_of', [None], lambda t: t in [None]), ('one_of', {'a', 'ab'}, lambda t: t in {'a', 'ab'}), ('one_of', 'abc', lambda t: isinstance(t, str) and t in 'abc')]
    for name, container, holds in kinds:
        for dflt in (None, SENT):
            kw = {name: container}
            if dflt is not None:
                kw['default'] = dflt
            built = call(Check, **kw)
            if not built.ok:
                col.violation('C10/check-constructor', 'Check(%s) raised %r' % (short(kw), built.exc), None)
                continue
            for t in hashable_targets:
                if name == 'one_of' and container == 'abc' and not isinstance(t, str):
                    continue
                want_ok = holds(t)
                got = call(G, t, built.value)
                col.count('check_evaluations')
                col.case(('check-container-kinds', name, type(container).__name__, len(container), dflt is not None, type(t).__name__), True)
                good = (got.ok and got.value is t) if want_ok else ((got.ok and got.value is dflt) if dflt is not None else (not got.ok and isinstance(got.exc, CheckError)))
                if not good:
                    col.violation('C10/check-condition-given-as-%s' % type(container).__name__, 'Check(%s) on %r: the condition %s, got %r'
                                  % (short(kw), t, 'holds' if want_ok else 'fails (expected %s)' % ('the default' if dflt is not None else 'a CheckError'), got), None)


def check_with_default_stops_at_the_first_failed_condition(col):
    """a Check with a default hands out the default as soon as a condition fails: later conditions are not tried on a value that already
    failed (a type= guard in front of a set-valued one_of= and an unhashable target; validators that would raise or be costly)"""
    log = []

    def logged(v):
        log.append(v)
        return True
    cases = [
        ('type guard before a set one_of, list target', lambda d: Check(type=str, one_of={'a', 'b'}, default=d), ['a']),
        ('type guard before a set one_of, dict target', lambda d: Check(type=str, one_of={'a', 'b'}, default=d), {'k': 1}),
        ('type guard before a frozenset one_of, set target', lambda d: Check(type=(str, int), one_of=frozenset([1, 'a']), default=d), {1}),
        ('type guard before a dict one_of', lambda d: Check(type=str, one_of={'a': 1}, default=d), [1]),
        ('type guard before a validator', lambda d: Check(type=int, validate=logged, default=d), 'a'),
        ('equal_to before a validator', lambda d: Check(equal_to=1, validate=logged, default=d), 2),
        ('below a path', lambda d: Check('v', type=str, one_of={'a'}, default=d), {'v': ['a']}),
        ('as a filter key', lambda d: [Check(type=str, one_of={'a', 'b'}, default=d)], [['a'], 'a', {'x': 1}]),
    ]
    for desc, mk, target in cases:
        del log[:]
        got = call(G, target, mk(SENT))
        col.case(('check-default-first-failure', desc), True)
        col.count('check_evaluations')
        want_ok = (got.ok and got.value is SENT) if desc != 'as a filter key' else (got.ok and got.value == [SENT, 'a', SENT] and got.value[0] is SENT)
        if not want_ok or log:
            col.violation('C10/check-default-not-returned:later-condition-tried-after-the-first-failure', '%s: %s on %r: %r%s ; expected the default'
                          % (desc, short(mk('D')), target, got, (' ; the validator was called with %r' % log) if log else ''), None)


def reflected_operands(col, rng):
    """`x & m` where only the RIGHT operand is an M expression / combinator (x is a type, a Val, a predicate, a tuple pattern: Python
    falls back to the right operand's reflected method): wherever Python allows the expression, it denotes And(x, m) - x is
    evaluated first and the result is m's, exactly as for the constructor"""
    n = 2
    for rep in range(60):
        log, counter = [], [0]
        lefts, rights = [], []
        while len(lefts) < 4:
            counter[0] += 1
            a = gen_atom(rng, n, counter[0], log)
            if not supports_ops(a[1]['spec']):
                lefts.append(a)
        while len(rights) < 3:
            counter[0] += 1
            a = gen_atom(rng, n, counter[0], log)
            if supports_ops(a[1]['spec']):
                rights.append(a)
        rights.append(('and', [rights[0], rights[1]], None))
        rights.append(('not', rights[2]))
        for left in lefts:
            for right in rights:
                rspec = build(right, rng, 'ctor', log)
                built = call(lambda: left[1]['spec'] & rspec)
                if not built.ok:
                    continue        # (Python does not allow this pair)
                col.count('reflected_operand_expressions')
                node = ('and', [left, right], None)
                desc = '%s & %s' % (describe(left), describe(right))
                wit = {'tree': desc, 'spec': short(built.value), 'style': 'reflected-operand'}
                for bits in itertools.product([0, 1], repeat=n):
                    target = tuple(bits)
                    col.case(('reflected', shape(node), bits), True)
                    want_log = []
                    want = denote(node, target, want_log)
                    del log[:]
                    got = call(G, target, Match(built.value))
                    compare(col, desc, got, want, target, list(log), want_log, 'Match:reflected-operand', wit)


def handwritten(col, rng):
    """the documented idioms, plus single-operator trees for every comparison operator"""
    for op in OPS:
        for c in [0, 1, 2]:
            for t in [0, 1, 2, 3]:
                spec = m_op(M, op, c)
                want = ('pass', 'TARGET') if OPS[op](t, c) else ('fail', 'match')
                col.case(('single', op, c, t), True)
                compare(col, 'M %s %d' % (op, c), call(G, t, spec), want, t, [], [], 'bare', None)
                compare(col, 'M %s %d (rhs)' % (op, c), call(G, t, Match(m_op(M, op, c))), want, t, [], [], 'Match', None)
                # Not / double Not / ~ on every operator
                for nm, sp, w in [('Not', Not(spec), not OPS[op](t, c)), ('~', ~spec, not OPS[op](t, c)),
                                  ('~~', ~~spec, OPS[op](t, c))]:
                    compare(col, '%s(M %s %d)' % (nm, op, c), call(G, t, sp),
                            ('pass', 'TARGET') if w else ('fail', 'match'), t, [], [], 'bare', None)
    # the operand is the very object that is compared (a value that is not equal to itself, or equal to everything): the
    # comparison decides, not the identity
    nan = float('nan')

    class Always:
        def __eq__(self, other):
            return True

        def __ne__(self, other):
            return True         # (perverse but legal: both == and != are true)

        __hash__ = None
    alw = Always()
    for desc, target, spec, passes in (
            ('M == nan on nan', nan, M == nan, nan == nan), ('M != nan on nan', nan, M != nan, nan != nan),
            ('M >= nan on nan', nan, M >= nan, nan >= nan), ('M <= nan on nan', nan, M <= nan, nan <= nan),
            ("M(T['x']) == nan on {'x': nan}", {'x': nan}, M(T['x']) == nan, nan == nan),
            ("M(T['x']) != M(T['x'])", {'x': nan}, M(T['x']) != M(T['x']), nan != nan),
            ('~(M == nan) on nan', nan, ~(M == nan), not (nan == nan)), ('Or(M == nan, M != nan)', nan, Or(M == nan, M != nan), True),
            ('M != always-equal on itself', alw, M != alw, alw != alw), ('M == always-equal on itself', alw, M == alw, alw == alw)):
        got = call(G, target, spec)
        col.case(('same-object-operand', desc), True)
        col.count('assignments_evaluated')
        if got.ok != bool(passes) or (got.ok and got.value is not target) or (not got.ok and not isinstance(got.exc, MatchError)):
            col.violation('C10/comparison-with-the-same-object-not-decided-by-python', '%s: %r, Python says %s' % (desc, got, bool(passes)), None)
    for t in [0, 1, '', 'x', None, [], [0]]:
        col.case(('truthy', repr(t)), True)
        compare(col, 'M', call(G, t, M), ('pass', 'TARGET') if t else ('fail', 'match'), t, [], [], 'bare', None)
        compare(col, '~M', call(G, t, ~M), ('fail', 'match') if t else ('pass', 'TARGET'), t, [], [], 'bare', None)
        compare(col, 'Not(M)', call(G, t, Not(M)), ('fail', 'match') if t else ('pass', 'TARGET'), t, [], [], 'bare', None)
        compare(col, 'M | Val(None)', call(G, t, M | Val(None)), ('pass', 'TARGET') if t else ('pass', None), t, [], [], 'bare', None)


def target_is_the_atom_itself(col):
    """atoms decide by what they denote - isinstance for a type, the call for a predicate, == for a literal - also when the target is
    the very object the atom was written with"""
    nan = float('nan')
    never = lambda t: False
    always = lambda t: True
    log = []

    def counted(t):
        log.append(t)
        return False

    class Meta(type):
        pass
    K = Meta('K', (), {})
    rows = [
        # (description, target, spec factory, passes?, value when it passes)
        ('type atom int on int', int, lambda: Match(int), isinstance(int, int)),
        ('type atom type on type', type, lambda: Match(type), isinstance(type, type)),
        ('type atom K on K (metaclass)', K, lambda: Match(K), isinstance(K, K)),
        ('Or(int, str) on int', int, lambda: Match(Or(int, str)), isinstance(int, (int, str))),
        ('And(type, int) on int', int, lambda: Match(And(type, int)), isinstance(int, type) and isinstance(int, int)),
        ('Not(int) on int', int, lambda: Match(Not(int)), not isinstance(int, int)),
        ('predicate never on itself', never, lambda: Match(never), False),
        ('predicate always on itself', always, lambda: Match(always), True),
        ('counted predicate on itself', counted, lambda: Match(counted), False),
        ('Or(never, always) on never', never, lambda: Match(Or(never, always)), True),
        ('And(always, never) on always', always, lambda: Match(And(always, never)), False),
        ('literal nan on the same nan', nan, lambda: Match(nan), nan == nan),
        ('Or(nan, 1) on the same nan', nan, lambda: Match(Or(nan, 1)), nan == nan),
        ('Not(nan) on the same nan', nan, lambda: Match(Not(nan)), not (nan == nan)),
        ('list of type atoms on [int, 1]', [int, 1], lambda: Match([int]), False),
        ('dict value type atom on the type', {'k': str}, lambda: Match({'k': str}), False),
    ]
    for desc, target, mk, passes in rows:
        del log[:]
        got = call(G, target, mk())
        col.case(('target-is-atom', desc), True)
        col.count('assignments_evaluated')
        ok = (got.ok and got.value is target) if passes else (not got.ok and isinstance(got.exc, MatchError))
        if 'counted' in desc and log != [target]:
            ok = False
        if not ok:
            col.violation('C10/atom-decides-by-identity-when-the-target-is-the-atom', '%s: %r, the denotation says %s%s'
                          % (desc, got, 'pass' if passes else 'reject', ' (predicate calls: %d)' % len(log) if 'counted' in desc else ''), None)
    # Switch: the case whose key really passes is taken
    got = call(G, int, Match(Switch([(int, Val('an int')), (type, Val('a type'))], default='none')))
    col.count('assignments_evaluated')
    if not got.ok or got.value != 'a type':
        col.violation('C10/atom-decides-by-identity-when-the-target-is-the-atom', 'Switch([(int, ..), (type, ..)]) on int: %r, expected the type case' % (got,), None)
    got = call(G, never, Match(Switch([(never, Val('wrong'))], default='dflt')))
    col.count('assignments_evaluated')
    if not got.ok or got.value != 'dflt':
        col.violation('C10/atom-decides-by-identity-when-the-target-is-the-atom', 'Switch([(never, ..)], default=) on the predicate itself: %r, expected the default' % (got,), None)


class _Touch:
    def __init__(self):
        self.n = 0

    def touch(self):
        self.n += 1
        return 'touched'


def combinators_under_fill(col):
    """the combinators keep their meaning in whatever mode their children are interpreted: under Fill a plain constant is a child
    that passes and yields itself, so Or stops there, And goes on, Not rejects, Switch takes that case"""
    from glom import Fill
    rows = [
        ('Or of two constants', lambda t: Fill(Or('first', 'second')), ('value', 'first'), 0),
        ('Or(constant, T call)', lambda t: Fill(Or('first', T.touch())), ('value', 'first'), 0),
        ('Or(constant, failing T)', lambda t: Fill(Or('first', T['missing'])), ('value', 'first'), 0),
        ('Or(constant, constant, default)', lambda t: Fill(Or(1, 2, default='dflt')), ('value', 1), 0),
        ('built with |', lambda t: Fill(Or(0, 'x') | T.touch()), ('value', 0), 0),
        ('And of constants and a T call', lambda t: Fill(And('a', T.touch(), 'c')), ('value', 'c'), 1),
        ('And(constant, failing T)', lambda t: Fill(And('a', T['missing'], default='dflt')), ('value', 'dflt'), 0),
        ('Not(Or(constant, M))', lambda t: Fill(Not(Or(1, M == 2))), ('reject',), 0),
        ('Not(And(constant, failing T))', lambda t: Fill(Not(And(1, T['missing']))), ('target',), 0),
        ('Switch keyed by an Or of constants', lambda t: Fill(Switch([(Or('x', 'y'), Val('hit')), (T, Val('later'))], default='dflt')), ('value', 'hit'), 0),
        ('Or inside a filled dict', lambda t: Fill({'k': Or('first', T.touch()), 'n': T.touch()}), ('value', {'k': 'first', 'n': 'touched'}), 1),
        ('Or inside a filled list', lambda t: Fill([Or('first', 'second'), Or(T.touch(), 'z')]), ('value', ['first', 'touched']), 1),
    ]
    for desc, mk, want, want_touches in rows:
        t = _Touch()
        got = call(G, t, mk(t))
        col.case(('under-fill', desc), True)
        col.count('assignments_evaluated')
        if want[0] == 'value':
            ok = got.ok and got.value == want[1]
        elif want[0] == 'target':
            ok = got.ok and got.value is t
        else:
            ok = not got.ok and isinstance(got.exc, MatchError)
        if not ok or t.n != want_touches:
            col.violation('C10/combinator-under-fill-differs-from-denotation', '%s: %r with %d call(s) of the later child; expected %s with %d'
                          % (desc, got, t.n, want, want_touches), None)


def run(ctx):
    col, rng = ctx.col, ctx.rng
    col.require('assignments_evaluated', 2000)
    col.require('predicate_calls_observed', 200)
    if ctx.shard == 0:
        handwritten(col, rng)
        target_is_the_atom_itself(col)
        combinators_under_fill(col)
        reflected_operands(col, rng)
        check_cases(col)
        check_with_default_stops_at_the_first_failed_condition(col)
        col.require('check_evaluations', 1000)
        # every tree of depth 1 over two atoms of each kind is covered by the random part below; make
        # sure small shapes are dense: many depth-1 trees
        for _ in range(400):
            tree_case(col, rng, n=2, depth=1)
    for i in range(ctx.n(2500, 25000)):
        tree_case(col, rng)
    for i in range(ctx.n(1200, 12000)):
        switch_case(col, rng)
