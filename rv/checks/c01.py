"""C01 - path access returns the addressed object or pinpoints the failing segment.

Oracle: a plain-Python segment walk (dict -> key, list/tuple -> int(index), else
getattr; T steps: '.' -> getattr, '[' -> item).  Result compared with `is`.
Monitor: logging containers inside the target record every element access made by
the reference walk and by glom; the two logs must be equal, which shows that no
segment is touched twice and nothing is touched after the failing segment.
"""
from .. import env, gen
from ..util import call
from ..report import short

glom = env.bind()
from glom import T, S, Path, PathAccessError, GlomError, Glommer, glom as G  # noqa: E402

# "with the access registered for each intermediate value's type": a private Glommer whose `get` handlers for dict,
# OrderedDict, list, tuple and object are logging wrappers of the default accesses.  Every plain segment must go
# through the handler registered for the value's type (also for plain dicts and lists, which cannot log by themselves).
HLOG = []


def _logged(kind, fn):
    def handler(t, k):
        HLOG.append((id(t), k))
        return fn(t, k)
    handler.__name__ = 'logged_get_' + kind
    return handler


GL = Glommer()
from glom.core import TargetRegistry as _TR  # noqa: E402
for _tp, _fn in list(GL.scope[_TR]._op_type_map['get'].items()):
    # every type the default registry knows for `get` (dict, list, tuple, OrderedDict, object and the two duck types),
    # re-registered with a logging wrapper of its own default access
    if _fn:
        GL.register(_tp, get=_logged(_tp.__name__, _fn))

META = {
    'level': 'exploration',
    'rule': ('random nested targets (dict, OrderedDict, dict/list subclasses, list, tuple, namedtuple, '
             '__dict__ and slot-only objects, scalars, None, empty containers, shared sub-objects; depth <= 5) '
             'x every valid path obtained by walking the target x every position k at which a bad segment of each '
             'applicable kind is planted (missing key/attribute, out-of-range index, non-integer index, any segment '
             'on a scalar/None/str), followed by 0-2 further segments x spellings (dotted string, Path(...), nested '
             'Path(Path(..), ..), mixtures with T steps, pure T). Non-trivial: path length >= 2 or k >= 1; distinct '
             'by (type sequence along the path, spelling, fault kind, k).'),
    'assumptions': [
        'targets with side-effecting __getitem__ (defaultdict) or properties raising non-lookup errors are not generated',
        'for T steps only the native lookup error classes are expected to be wrapped (AttributeError for ., KeyError/IndexError/TypeError for [])',
    ],
}

BAD = 'zz9'


class LabelStr(str):
    """a str subclass whose str() is not its text (like class Field(str, Enum): str(Field.NAME) == 'Field.NAME')"""
    def __str__(self):
        return 'LabelStr.%s' % str.__str__(self).upper()


def ref_step(cur, style, arg):
    if style == 'P':
        if isinstance(cur, dict):
            return cur[arg]
        if isinstance(cur, (list, tuple)):
            return cur[int(arg)]
        return getattr(cur, arg)
    if style == '.':
        return getattr(cur, arg)
    return cur[arg]


WRAPPED = {'P': (Exception,), '.': (AttributeError,), '[': (KeyError, IndexError, TypeError)}


def ref_walk(target, steps, hlog=None):
    """('ok', obj) | ('pae', k, exc) | ('raw', k, exc)"""
    cur = target
    for k, (style, arg) in enumerate(steps):
        if style == 'P' and hlog is not None:
            hlog.append((id(cur), arg))
        try:
            cur = ref_step(cur, style, arg)
        except Exception as e:
            if isinstance(e, WRAPPED[style]):
                return ('pae', k, e)
            return ('raw', k, e)
    return ('ok', cur)


def type_tag(o):
    return type(o).__name__


def enumerate_paths(target, rng, max_paths):
    """valid paths as lists of (raw segment, node before the segment); includes the empty path"""
    out = [([], [target])]
    stack = [([], [target])]
    while stack and len(out) < 400:
        segs, nodes = stack.pop()
        if len(segs) >= 6:
            continue
        for seg, child in gen.children(nodes[-1]):
            item = (segs + [seg], nodes + [child])
            out.append(item)
            stack.append(item)
    if len(out) > max_paths:
        out = [out[0]] + rng.sample(out[1:], max_paths - 1)
    return out


def spell_segment(rng, seg, node, mode):
    """-> (style, arg) for one raw segment at `node` in the given spelling mode
    ('P' plain part or 'T' T-step); None if that spelling is impossible"""
    if mode == 'P':
        if isinstance(node, (list, tuple)) and isinstance(seg, int) and not isinstance(seg, bool) and rng.random() < 0.5:
            return ('P', str(seg))
        return ('P', seg)
    # T step
    if isinstance(node, dict) or isinstance(node, (list, tuple)):
        if isinstance(node, gen.NT) and isinstance(seg, int) and rng.random() < 0.5:
            return ('.', gen.NT._fields[seg]) if 0 <= seg < 2 else ('[', seg)
        return ('[', seg)
    if isinstance(seg, str) and seg.isidentifier() and not seg.startswith('__'):
        return ('.', seg)
    return ('[', seg)


def stringable(steps):
    return all(style == 'P' and isinstance(arg, str) and '.' not in arg and arg not in ('*', '**')
               for style, arg in steps)


def make_spec(rng, steps, spelling):
    """build the glom spec for already spelled steps"""
    def part(style, arg):
        if style == 'P':
            return arg
        return getattr(T, arg) if style == '.' else T[arg]
    if spelling == 'string':
        text = '.'.join(arg for _, arg in steps)
        # (a fifth of the dotted strings are instances of a str SUBCLASS whose str() says something else, as the members of a
        # str-mixin Enum do: the spec is the string's characters, not what str() makes of it)
        return LabelStr(text) if rng.random() < 0.2 else text
    if spelling == 'T':
        t = T
        for style, arg in steps:
            t = getattr(t, arg) if style == '.' else t[arg]
        return t
    parts = [part(s, a) for s, a in steps]
    if spelling == 'nested' and len(parts) >= 2:
        # a Path nested in a Path, in first, last or middle position (its T steps keep their access style)
        cut = rng.randint(1, len(parts) - 1)
        form = rng.choice(['first', 'last', 'middle', 'both'])
        try:
            if form == 'first':
                return Path(Path(*parts[:cut]), *parts[cut:])
            if form == 'last':
                return Path(*(parts[:cut] + [Path(*parts[cut:])]))
            if form == 'both':
                return Path(Path(*parts[:cut]), Path(*parts[cut:]))
            cut2 = rng.randint(cut, len(parts))
            return Path(*(parts[:cut] + [Path(*parts[cut:cut2])] + parts[cut2:]))
        except Exception:
            return Path(*parts)
    return Path(*parts)


def bad_segments(node):
    """[(fault kind, raw segment)] that cannot be accessed on node"""
    if isinstance(node, dict):
        return [('missing-key', BAD), ('missing-key-int', 99), ('unhashable-key', [BAD])]
    if isinstance(node, (list, tuple)):
        n = len(node)
        return [('index-out-of-range', 99), ('unhashable-index', [0]), ('index-out-of-range-neg', -99), ('non-integer-index', 'x9'),
                ('index-just-past-end', n), ('index-just-before-start', -n - 1), ('index-minus-2len', -2 * n if n else -1)]
    if isinstance(node, (gen.PlainObj, gen.LogObj, gen.SlotObj)):
        return [('missing-attribute', BAD)]
    if node is None:
        return [('segment-on-None', BAD), ('segment-on-None', 0)]
    return [('segment-on-scalar', BAD), ('segment-on-scalar', 0)]


def run_case(col, target, log, steps, spelling, rng, fault, k_planted, types):
    try:
        spec = make_spec(rng, steps, spelling)
    except Exception as e:
        col.case((types, spelling, fault, k_planted), True)
        col.violation('C01/spec-cannot-be-written:' + spelling, 'building the %s spelling of %s raised %r' % (spelling, short(steps), e),
                      {'steps': short(steps)})
        return
    del log[:]
    want = ref_walk(target, steps)
    ref_log = list(log)
    del log[:]
    got = call(G, target, spec)
    got_log = list(log)
    del log[:]
    n = len(steps)
    col.case((types, spelling, fault, k_planted), n >= 2 or (k_planted or 0) >= 1)
    col.count('accesses_logged', len(got_log))
    wit = {'spec': short(spec), 'target': short(target, 400), 'steps': short(steps)}
    kind = 'valid' if fault is None else 'planted'
    if col.want_sample(kind):
        col.sample({'spec': short(spec), 'target': short(target, 160), 'spelling': spelling,
                    'expected': 'object reached' if want[0] == 'ok' else
                    'PathAccessError(part_idx=%d, %r)' % (want[1], want[2])}, kind)
    sp = 'T-steps' if spelling in ('T', 'mixed') else 'path'
    if want[0] == 'ok':
        col.count('valid_paths')
        if not got.ok:
            col.violation('C01/valid-path-raises:' + sp, '%s on %s: reference reaches %s, glom raised %r'
                          % (short(spec), short(target), short(want[1]), got.exc), wit)
        elif got.value is not want[1]:
            col.violation('C01/result-not-the-addressed-object:' + sp,
                          '%s on %s: reference reaches %s (id %x), glom returned %s (id %x)'
                          % (short(spec), short(target), short(want[1]), id(want[1]), short(got.value), id(got.value)), wit)
    elif want[0] == 'pae':
        col.count('failing_paths')
        _, k, e = want
        if got.ok:
            col.violation('C01/bad-segment-swallowed:' + sp, '%s on %s: segment %d fails with %r, glom returned %s'
                          % (short(spec), short(target), k, e, short(got.value)), wit)
        else:
            exc = got.exc
            if not isinstance(exc, PathAccessError):
                col.violation('C01/not-a-PathAccessError:' + sp, '%s: segment %d fails with %r, glom raised %r'
                              % (short(spec), k, e, exc), wit)
            else:
                for base in (GlomError, KeyError, IndexError, AttributeError):
                    try:
                        raise exc
                    except base:
                        pass
                    except Exception:
                        col.violation('C01/not-catchable-as:' + base.__name__, '%r is not caught by except %s'
                                      % (exc, base.__name__), wit)
                if exc.part_idx != k:
                    col.violation('C01/wrong-part-index:' + sp, '%s on %s: first bad segment is %d, part_idx = %r'
                                  % (short(spec), short(target), k, exc.part_idx), wit)
                if type(exc.exc) is not type(e) or exc.exc.args != e.args:
                    col.violation('C01/wrong-underlying-exception:' + sp, '%s: underlying %r, PathAccessError.exc = %r'
                                  % (short(spec), e, exc.exc), wit)
                try:
                    vals = Path(exc.path).values()
                    ok = len(vals) == n and all(v is a or v == a for v, (_, a) in zip(vals, steps))
                except Exception:
                    ok = False
                if not ok:
                    col.violation('C01/wrong-path-on-error:' + sp, '%s: PathAccessError.path = %r' % (short(spec), exc.path), wit)
    else:
        col.count('raw_expected')
        _, k, e = want
        if got.ok or not isinstance(got.exc, type(e)):
            col.violation('C01/non-lookup-error-class-lost', '%s: step %d raises %r, glom gave %r' % (short(spec), k, e, got), wit)
    if rng.random() < 0.5:
        # the same evaluation through the private Glommer: same outcome, and every plain segment went through the
        # handler registered for the type of the value it was applied to
        want_h = []
        ref_walk(target, steps, want_h)
        del log[:]
        del HLOG[:]
        got2 = call(GL.glom, target, spec)
        got_h = list(HLOG)
        del log[:]
        col.count('glommer_runs_with_logging_handlers')
        col.count('handler_invocations_logged', len(got_h))
        same = (got2.ok and got.ok and got2.value is got.value) or \
               (not got2.ok and not got.ok and type(got2.exc) is type(got.exc) and str(got2.exc) == str(got.exc))
        if not same:
            col.violation('C01/glommer-with-equivalent-handlers-differs:' + sp,
                          '%s on %s: glom() gives %r, a Glommer whose get handlers wrap the default accesses gives %r'
                          % (short(spec), short(target), got, got2), wit)
        if got_h != want_h:
            col.violation('C01/registered-get-handler-not-used:' + sp,
                          '%s on %s: plain segments applied to (type, segment) %s, registered handlers saw %s'
                          % (short(spec), short(target), [k for _, k in want_h], [k for _, k in got_h]), wit)
    if got_log != ref_log:
        extra = 'touched-after-failure' if want[0] != 'ok' and len(got_log) > len(ref_log) else 'access-log-differs'
        col.violation('C01/' + extra + ':' + sp,
                      '%s on %s: reference accesses %s, glom accesses %s'
                      % (short(spec), short(target), _fmt_log(ref_log), _fmt_log(got_log)), wit)


def _fmt_log(log):
    return [(op, k) for op, _, k in log]


SPELLINGS = ['string', 'path', 'nested', 'mixed', 'T']


def spell(rng, segs, nodes, spelling, path_only):
    """spell raw segments; returns list of (style, arg) or None"""
    steps = []
    for seg, node in zip(segs, nodes):
        if spelling in ('string', 'path'):
            mode = 'P'
        elif spelling == 'nested':
            mode = rng.choice(['P', 'P', 'T'])
        elif spelling == 'T':
            mode = 'T'
        else:
            mode = rng.choice(['P', 'T'])
        st = spell_segment(rng, seg, node, mode)
        if spelling == 'string':
            # dotted strings can only say strings: list indexes are written as digits
            if isinstance(node, (list, tuple)) and isinstance(seg, int) and not isinstance(seg, bool):
                st = ('P', str(seg))
            elif not isinstance(seg, str):
                return None
            elif isinstance(node, dict):
                st = ('P', seg)
        steps.append(st)
    if spelling == 'string' and (not steps or not stringable(steps)):
        return None  # ('' is the one-segment path [''], not the empty path)
    return steps


def one_target(col, rng, n_paths):
    path_only = rng.random() < 0.5
    shared = []
    recipe = gen.gen_recipe(rng, rng.randint(1, 5), path_only_keys=path_only, width=3, shared=shared)
    target = gen.build(recipe, {}, shared)
    log = []
    gen.attach_log(target, log)
    for segs, nodes in enumerate_paths(target, rng, n_paths):
        types = tuple(type_tag(x) for x in nodes)
        # valid path in every spelling
        for spelling in SPELLINGS:
            steps = spell(rng, segs, nodes, spelling, path_only)
            if steps is None:
                continue
            run_case(col, target, log, steps, spelling, rng, None, None, types)
        # a bad segment planted at each position k (k == len: one step past the end)
        for k in range(len(segs) + 1):
            node = nodes[k]
            for fault, badseg in bad_segments(node):
                if rng.random() < 0.6 and len(segs) > 1:
                    continue
                tail = [rng.choice(['a', 0, BAD, 'k']) for _ in range(rng.randint(0, 2))]
                fsegs = segs[:k] + [badseg] + tail
                fnodes = nodes[:k + 1] + [None] * len(tail)
                spelling = rng.choice(SPELLINGS)
                steps = spell(rng, fsegs, fnodes, spelling, path_only)
                if steps is None:
                    spelling = 'path'
                    steps = spell(rng, fsegs, fnodes, spelling, path_only)
                run_case(col, target, log, steps, spelling, rng, fault, k, types[:k + 1])


def systematic(col, rng):
    from collections import OrderedDict
    shared_leaf = {'s': [1, 2]}
    target = {'a': {'b': {'c': 'd'}, 'l': [10, [20, 21], shared_leaf], 't': (1, (2, 3))},
              'o': gen.PlainObj(x=gen.SlotObj(p={'k': None}), y=None),
              'od': OrderedDict([('first', gen.NT(1, {'z': 0}))]), '': {'': 'empty-keys'},
              'sh': shared_leaf, 'e': {}, 'el': [], 'n': None, '0': 'digit-key'}
    log = []
    cases = [
        ['a', 'b', 'c'], ['a', 'l', 1, 0], ['a', 'l', 2, 's', 1], ['a', 't', 1, 0], ['o', 'x', 'p', 'k'],
        ['od', 'first', 1, 'z'], ['', ''], ['sh', 's'], ['e'], ['el'], ['n'], ['0'], [],
    ]
    for segs in cases:
        nodes = [target]
        for s in segs:
            nodes.append(dict(gen.children(nodes[-1]))[s] if not isinstance(nodes[-1], (list, tuple)) else nodes[-1][s])
        types = tuple(type_tag(x) for x in nodes)
        for spelling in SPELLINGS:
            steps = spell(rng, segs, nodes, spelling, False)
            if steps is not None:
                run_case(col, target, log, steps, spelling, rng, None, None, types)
        for k in range(len(segs) + 1):
            for fault, badseg in bad_segments(nodes[k]):
                for spelling in SPELLINGS:
                    for tail in ([], ['a'], [0, 'b']):
                        fsegs = segs[:k] + [badseg] + tail
                        steps = spell(rng, fsegs, nodes[:k + 1] + [None] * len(tail), spelling, False)
                        if steps is not None:
                            run_case(col, target, log, steps, spelling, rng, fault, k, types[:k + 1])


def virtual_types(col):
    """the access registered for an ABC applies to its virtual subclasses (MappingProxyType is a Mapping, range a Sequence)
    along a path, and a type registered with exact=True does not cover its subclasses"""
    import collections.abc
    import operator
    import types
    g = Glommer()
    g.register(collections.abc.Mapping, get=operator.getitem)
    g.register(collections.abc.Sequence, get=lambda s, i: s[int(i)])

    class ExactOnly(dict):
        pass

    class SubOfExact(ExactOnly):
        pass
    g.register(ExactOnly, get=lambda o, k: ('exact-handler', k), exact=True)
    target = {'cfg': types.MappingProxyType({'db': types.MappingProxyType({'host': 'h'}), 'items': 'an-entry'}), 'r': range(5),
              'e': ExactOnly(k=1), 's': SubOfExact(k=2)}
    cases = [('cfg.db.host', ('ok', 'h')), ('cfg.items', ('ok', 'an-entry')), ('cfg.nope.x', ('pae', 1, KeyError)), ('r.2', ('ok', 2)),
             ('r.9', ('pae', 1, IndexError)), ('e.k', ('ok', ('exact-handler', 'k'))), ('s.k', ('ok', 2))]
    for spec, want in cases:
        for form in (spec, Path(*spec.split('.'))):
            got = call(g.glom, target, form)
            col.case(('virtual-types', spec, type(form).__name__), True)
            col.count('valid_paths' if want[0] == 'ok' else 'failing_paths')
            if want[0] == 'ok':
                ok = got.ok and got.value == want[1]
            else:
                ok = (not got.ok) and isinstance(got.exc, PathAccessError) and got.exc.part_idx == want[1] and isinstance(got.exc.exc, want[2])
            if not ok:
                col.violation('C01/virtual-or-exact-registration-not-honoured-along-a-path', 'Glommer with Mapping / Sequence / an exact=True type registered, '
                              '%r: %r, expected %r' % (form, got, want), None)


def dynamic_step_arguments(col, rng):
    """T steps whose argument is itself a spec (`T[T['k0']]`, `T[S['rvk']]`): the argument is evaluated against the
    call's target when - and only when - the walk reaches that step.  The root is a logging dict that holds the tree
    and the keys, so the order of reads (tree segments and key lookups alike) is observable."""
    def tree():
        return gen.LogDict({'a': gen.LogDict({'b': gen.LogList([10, gen.LogDict({'c': 'deep'}), 12]), 'n': None}),
                            'o': gen.LogObj(x=gen.LogDict({'p': 'q'}), y=gen.LogList(['y0', 'y1']))})
    keys = {'k_b': 'b', 'k_c': 'c', 'k_p': 'p', 'i1': 1, 'im': -1, 'k_missing': BAD, 'i_far': 99}
    # steps: ('P', seg) plain, ('[', arg) literal item, ('.', name), ('D', keyname) item whose key is T[keyname] of the root,
    # ('DS', keyname) item whose key is S['rvk_<keyname>'] of the caller's scope
    walks = [
        [('P', 't'), ('P', 'a'), ('D', 'k_b'), ('D', 'i1'), ('D', 'k_c')],
        [('P', 't'), ('P', 'a'), ('D', 'k_b'), ('D', 'im')],
        [('P', 't'), ('P', 'o'), ('.', 'x'), ('D', 'k_p')],
        [('P', 't'), ('P', 'o'), ('P', 'y'), ('D', 'i1')],
        [('[', 't'), ('[', 'a'), ('D', 'k_b'), ('[', 1), ('D', 'k_c')],
        [('P', 't'), ('P', 'a'), ('DS', 'k_b'), ('DS', 'i1'), ('D', 'k_c')],
        # the dynamic key / index itself addresses nothing: that step is the failing one
        [('P', 't'), ('P', 'a'), ('D', 'k_missing'), ('D', 'k_c')],
        [('P', 't'), ('P', 'a'), ('D', 'k_b'), ('D', 'i_far'), ('D', 'k_c')],
        # an earlier segment fails: the arguments of the later steps are never evaluated
        [('P', 't'), ('P', BAD), ('D', 'k_b')],
        [('P', 't'), ('P', 'a'), ('P', BAD), ('D', 'k_b'), ('D', 'i1')],
        [('P', 't'), ('P', 'a'), ('P', 'n'), ('D', 'k_b')],
        [('P', 't'), ('P', 'o'), ('.', BAD), ('D', 'k_p')],
        [('P', 't'), ('P', 'o'), ('P', 'y'), ('P', '7'), ('D', 'k_c')],
        [('[', 't'), ('[', BAD), ('D', 'k_b'), ('D', 'i1')],
        [('P', 't'), ('P', 'a'), ('D', 'k_b'), ('P', '5'), ('D', 'k_c')],
        [('P', BAD), ('D', 'k_b')],
        [('P', 't'), ('P', BAD), ('DS', 'k_b'), ('D', 'i1')],
    ]
    scope = {'rvk_' + k: v for k, v in keys.items()}

    def ref(root, steps):
        cur = root
        for k, (style, arg) in enumerate(steps):
            try:
                if style == 'D':
                    arg = root[arg]
                elif style == 'DS':
                    arg = scope['rvk_' + arg]
                if style == 'P':
                    cur = ref_step(cur, 'P', arg)
                elif style == '.':
                    cur = getattr(cur, arg)
                else:
                    cur = cur[arg]
            except (KeyError, IndexError, AttributeError, TypeError, ValueError) as e:
                return ('pae', k, e)
        return ('ok', cur)

    def part(style, arg):
        if style == 'P':
            return arg
        if style == '.':
            return getattr(T, arg)
        if style == 'D':
            return T[T[arg]]
        if style == 'DS':
            return T[S['rvk_' + arg]]
        return T[arg]

    def spellings(steps):
        parts = [part(s, a) for s, a in steps]
        yield 'path', Path(*parts)
        if len(parts) > 2:
            yield 'nested', Path(Path(*parts[:2]), *parts[2:])
            yield 'nested-last', Path(*(parts[:2] + [Path(*parts[2:])]))
        t = T
        for (s, a), p in zip(steps, parts):
            if s == 'P':
                if isinstance(a, str) and a.isdigit():
                    return                       # a digit segment on a list is a plain-segment coercion, T would not coerce
                t = t[a]
            elif s == '.':
                t = getattr(t, a)
            elif s == 'D':
                t = t[T[a]]
            elif s == 'DS':
                t = t[S['rvk_' + a]]
            else:
                t = t[a]
        yield 'T', t

    for steps in walks:
        for sp, spec in spellings(steps):
            for runner_name, runner in (('glom', G), ('Glommer', GL.glom)):
                root = gen.LogDict(dict(keys, t=tree()))
                log = []
                gen.attach_log(root, log)
                if sp == 'T':
                    # in a pure T expression every step is an item / attribute access as written
                    want_steps = [('[' if s == 'P' else s, a) for s, a in steps]
                else:
                    want_steps = steps
                want = ref(root, want_steps)
                ref_log = list(log)
                del log[:]
                uses_scope = any(s == 'DS' for s, _ in steps)
                if uses_scope and runner_name == 'Glommer':
                    continue                     # (Glommer.glom takes no scope= of the caller's)
                got = call(runner, root, spec, scope=dict(scope)) if uses_scope else call(runner, root, spec)
                got_log = list(log)
                col.case(('dynamic-arguments', tuple(s for s, _ in steps), sp, runner_name, want[0]), True)
                col.count('dynamic_argument_cases')
                col.count('accesses_logged', len(got_log))
                col.count('valid_paths' if want[0] == 'ok' else 'failing_paths')
                wit = {'spec': short(spec), 'target': short(root, 400), 'through': runner_name}
                tag = ':dynamic-step-argument'
                if want[0] == 'ok':
                    if not got.ok:
                        col.violation('C01/valid-path-raises' + tag, '%s on %s: reference reaches %s, %s raised %r'
                                      % (short(spec), short(root), short(want[1]), runner_name, got.exc), wit)
                    elif got.value is not want[1]:
                        col.violation('C01/result-not-the-addressed-object' + tag, '%s on %s: reference reaches %s, %s returned %s'
                                      % (short(spec), short(root), short(want[1]), runner_name, short(got.value)), wit)
                else:
                    _, k, e = want
                    if got.ok:
                        col.violation('C01/bad-segment-swallowed' + tag, '%s on %s: segment %d fails with %r, %s returned %s'
                                      % (short(spec), short(root), k, e, runner_name, short(got.value)), wit)
                    elif not isinstance(got.exc, PathAccessError):
                        col.violation('C01/not-a-PathAccessError' + tag, '%s: segment %d fails with %r, %s raised %r'
                                      % (short(spec), k, e, runner_name, got.exc), wit)
                    else:
                        if got.exc.part_idx != k:
                            col.violation('C01/wrong-part-index' + tag, '%s on %s: first bad segment is %d (%r), part_idx = %r (%r)'
                                          % (short(spec), short(root), k, e, got.exc.part_idx, got.exc), wit)
                        if type(got.exc.exc) is not type(e) or got.exc.exc.args != e.args:
                            col.violation('C01/wrong-underlying-exception' + tag, '%s: underlying %r, PathAccessError.exc = %r'
                                          % (short(spec), e, got.exc.exc), wit)
                if got_log != ref_log:
                    extra = 'touched-after-failure' if want[0] != 'ok' and len(got_log) > len(ref_log) else 'access-log-differs'
                    col.violation('C01/' + extra + tag, '%s on %s through %s: reference accesses %s, glom accesses %s'
                                  % (short(spec), short(root), runner_name, _fmt_log(ref_log), _fmt_log(got_log)), wit)


def registries_are_separate_along_a_path(col):
    """"the access registered for each intermediate value's type" is the one of the registry in force: a type registered
    on one Glommer is an ordinary attribute object for every other Glommer (idle, busy, or created afterwards) and for
    glom() itself"""
    class Node:
        def __init__(self, name, **kids):
            self.name = name
            self.kids = kids
            self.__dict__.update(kids)

    class SubNode(Node):
        pass

    def mk():
        return {'tree': Node('root', kid=SubNode('k1', x=Node('leaf'))), 'nodes': [Node('n0'), SubNode('n1', x=[5, 6])]}

    def tagged(o, k):
        return ('custom', getattr(o, k))
    cases = [('tree.name', ('ok', 'root')), ('tree.kid.x.name', ('ok', 'leaf')), (Path('nodes', -1, 'x', 0), ('ok', 5)),
             ('tree.kid.nope', ('pae', 2)), (Path('nodes', 1, 'name', 'nope'), ('pae', 3)), ('tree.zz.x', ('pae', 1))]
    busy, idle, custom = Glommer(), Glommer(), Glommer()
    for spec, _ in cases:
        call(busy.glom, mk(), spec)
    custom.register(Node, get=tagged)
    fresh = Glommer()
    got_custom = call(custom.glom, mk(), 'tree.name')
    col.case(('registries-separate', 'custom-sees-its-own'), True)
    if not (got_custom.ok and got_custom.value == ('custom', 'root')):
        col.violation('C01/registered-get-handler-not-used:own-registration', 'Glommer with Node registered: %r' % (got_custom,), None)
    # the access registered for a type applies from the registration on - also to instances of its subclasses that the same
    # registry walked before (with whatever applied then)
    warm = Glommer()
    sub_target = lambda: {'r': SubNode('sub', x=Node('leaf'))}
    before = call(warm.glom, sub_target(), 'r.name')
    warm.register(Node, get=tagged)
    for spec, want in (('r.name', ('ok', ('custom', 'sub'))), (Path('r', 'x'), ('ok', ('custom', sub_target()['r'].x))), ('r.nope.q', ('pae', 1))):
        got = call(warm.glom, sub_target(), spec)
        col.case(('registries-separate', 'registered-after-a-walk', short(spec)), True)
        col.count('valid_paths' if want[0] == 'ok' else 'failing_paths')
        if want[0] == 'ok':
            ok = got.ok and isinstance(got.value, tuple) and got.value[0] == 'custom'
        else:
            ok = (not got.ok) and isinstance(got.exc, PathAccessError) and got.exc.part_idx == want[1]
        if not ok or not (before.ok and before.value == 'sub'):
            col.violation('C01/registered-get-handler-not-used:registered-after-an-earlier-walk', 'Glommer: %r on a SubNode gave %r, then register(Node, get=tagged), '
                          'then %r gives %r (expected the tagged access of the registered base class)' % ('r.name', before, spec, got), None)
    # ... and the same for an exact registration (which says nothing about subclasses): instances of exactly that type use it from
    # then on, instances of subclasses keep the plain attribute access
    warm2 = Glommer()
    ex_target = lambda: {'r': Node('exactly', x=SubNode('unused')), 's': SubNode('below')}
    before = [call(warm2.glom, ex_target(), sp) for sp in ('r.name', 's.name', 'r.nope.q')]
    warm2.register(Node, get=tagged, exact=True)
    for spec, want in (('r.name', ('custom', 'exactly')), (Path('r', 'name'), ('custom', 'exactly')), ('s.name', 'below'), ('r.nope.q', ('pae', 1)),
                       (Path('s', 'zz'), ('pae', 1))):
        got = call(warm2.glom, ex_target(), spec)
        col.case(('registries-separate', 'exact-registration-after-a-walk', short(spec)), True)
        if isinstance(want, tuple) and want[0] == 'pae':
            col.count('failing_paths')
            ok = (not got.ok) and isinstance(got.exc, PathAccessError) and got.exc.part_idx == want[1]
        elif isinstance(want, tuple):
            col.count('valid_paths')
            ok = got.ok and isinstance(got.value, tuple) and got.value[0] == 'custom' and got.value[1] == 'exactly'
        else:
            col.count('valid_paths')
            ok = got.ok and got.value == want
        if not ok:
            col.violation('C01/registered-get-handler-not-used:exact-registration-after-an-earlier-walk', 'Glommer: walks %r, then register(Node, get=tagged, '
                          'exact=True), then %r gives %r (expected %r)' % (before, spec, got, want), None)

    # the lookup of a segment may itself fail with a PathAccessError (an accessor that is written with glom): it is the failure of THAT
    # segment of THIS path like any other exception
    class Doc:
        def __init__(self, data):
            self._data = data

        @property
        def title(self):
            return G(self._data, 'meta.title')

        def __getattr__(self, k):
            if k.startswith('_'):
                raise AttributeError(k)
            return G(self._data, Path('fields', k))

    def via_glom(o, k):
        return G(o.kids, Path('by', 'name', k))
    gg = Glommer()
    gg.register(Node, get=via_glom)
    doc = lambda: {'docs': [Doc({'meta': {}, 'fields': {'n': 1}}), Doc({'meta': {'title': 't'}, 'fields': {}})], 'node': Node('x', by={'name': {'k': 7}})}
    for runner_name, runner, spec, want in (
            ('glom', G, 'docs.0.title', ('pae', 2)), ('glom', G, Path('docs', 0, 'title', 'x'), ('pae', 2)), ('glom', G, 'docs.1.title', 't'),
            ('glom', G, 'docs.0.n', 1), ('glom', G, 'docs.1.n.real', ('pae', 2)), ('glom', G, Path('docs', 1, 'zz'), ('pae', 2)),
            ('glom', G, Path(T['docs'][0], 'title'), ('pae', 2)), ('glom', G, Path('docs', T[0], 'title', 'q'), ('pae', 2)),
            ('glommer', gg.glom, 'node.k', 7), ('glommer', gg.glom, 'node.zz', ('pae', 1)), ('glommer', gg.glom, Path('node', 'zz', 'k'), ('pae', 1)),
            ('glommer', gg.glom, Path(T['node'], 'zz'), ('pae', 1))):
        got = call(runner, doc(), spec)
        col.case(('accessor-written-with-glom', runner_name, short(spec)), True)
        if isinstance(want, tuple):
            col.count('failing_paths')
            ok = (not got.ok) and isinstance(got.exc, PathAccessError) and got.exc.part_idx == want[1] and \
                isinstance(got.exc.exc, PathAccessError) and repr(got.exc.path) == repr(Path(spec) if not isinstance(spec, str) else Path.from_text(spec))
        else:
            col.count('valid_paths')
            ok = got.ok and got.value == want
        if not ok:
            col.violation('C01/failing-lookup-that-raises-a-PathAccessError-is-not-reported-for-its-own-segment',
                          '%s(%r): %r%s; expected %s' % (runner_name, spec, got, '' if got.ok or not isinstance(got.exc, PathAccessError) else
                                                       ' (part_idx %r, path %r, carried %r)' % (got.exc.part_idx, got.exc.path, got.exc.exc),
                                                       'the value %r' % (want,) if not isinstance(want, tuple) else
                                                       'a PathAccessError for part %d of this path carrying the PathAccessError of the accessor' % want[1]), None)
    # a lookup may fail with an exception object that is FALSY (an error class that is sized - "did you mean" candidates, none found -
    # or defines __bool__): the segment failed all the same
    class NoSuchField(AttributeError):
        def __init__(self, name, candidates=()):
            AttributeError.__init__(self, name)
            self.candidates = list(candidates)

        def __len__(self):
            return len(self.candidates)

    class NoSuchKey(KeyError):
        def __bool__(self):
            return False

    class Strict:
        def __init__(self, **kw):
            self.__dict__.update(kw)

        def __getattr__(self, name):
            raise NoSuchField(name)

    class StrictDict(dict):
        def __missing__(self, key):
            raise NoSuchKey(key)
    falsy_target = lambda: {'o': Strict(a=Strict(b=1), x=5), 'd': StrictDict(k=StrictDict(j=2), a={'b': 3})}
    for spec, want in (('o.a.b', 1), ('o.zz', ('pae', 1)), ('o.zz.b', ('pae', 1)), ('o.a.zz', ('pae', 2)), (Path('o', T.zz), ('pae', 1)), (Path('o', T.zz, 'x'), ('pae', 1)),
                       ('d.k.j', 2), ('d.zz', ('pae', 1)), ('d.zz.a', ('pae', 1)), ('d.k.zz.j', ('pae', 2)), (Path('d', T['zz']), ('pae', 1)), (Path('d', T['zz'], 'a', 'b'), ('pae', 1)),
                       (T['d']['zz']['a'], ('pae', 1)), (T['o'].zz.x, ('pae', 1))):
        got = call(G, falsy_target(), spec)
        col.case(('falsy-lookup-error', short(spec)), True)
        if isinstance(want, tuple):
            col.count('failing_paths')
            ok = (not got.ok) and isinstance(got.exc, PathAccessError) and got.exc.part_idx == want[1] and isinstance(got.exc.exc, (NoSuchField, NoSuchKey))
        else:
            col.count('valid_paths')
            ok = got.ok and got.value == want
        if not ok:
            col.violation('C01/failing-lookup-with-a-falsy-exception-not-reported', 'glom(.., %r): %r%s; expected %s' % (
                spec, got, '' if got.ok or not isinstance(got.exc, PathAccessError) else ' (part_idx %r)' % got.exc.part_idx,
                'the value %r' % (want,) if not isinstance(want, tuple) else 'a PathAccessError for part %d carrying the (falsy) error of the lookup' % want[1]), None)
    # a plain segment "cannot be accessed" whatever the class of the exception its lookup raises (a backend that is down, a lazy
    # field that fails to load): the error is pinpointed for that segment and carries the lookup's own exception
    class BackendDown(Exception):
        pass

    class Lazy:
        def __init__(self, **kw):
            self.__dict__.update(kw)

        @property
        def remote(self):
            raise OSError(5, 'backend down')

        @property
        def ratio(self):
            return 1 // 0

    class Remote(dict):
        def __missing__(self, key):
            raise BackendDown(key)
    odd_target = lambda: {'o': Lazy(a=Lazy(b=1), x=5), 'd': Remote(k=Remote(j=2), a={'b': 3}), 'l': [Lazy(b=2)]}
    for spec, want in (('o.a.b', 1), ('o.remote', ('pae', 1, OSError)), ('o.remote.b', ('pae', 1, OSError)), ('o.a.ratio', ('pae', 2, ZeroDivisionError)),
                       ('o.a.ratio.real', ('pae', 2, ZeroDivisionError)), (Path('o', 'a', 'remote', 'x'), ('pae', 2, OSError)), ('l.0.remote', ('pae', 2, OSError)),
                       ('d.k.j', 2), ('d.zz', ('pae', 1, BackendDown)), ('d.zz.a', ('pae', 1, BackendDown)), ('d.k.zz.j', ('pae', 2, BackendDown)),
                       (Path('d', 'k', 'zz'), ('pae', 2, BackendDown)), (Path(T['d'], 'zz', 'a'), ('pae', 1, BackendDown)), (Path(T['o'].a, 'ratio'), ('pae', 2, ZeroDivisionError))):
        got = call(G, odd_target(), spec)
        col.case(('lookup-error-of-an-unusual-class', short(spec)), True)
        if isinstance(want, tuple):
            col.count('failing_paths')
            ok = (not got.ok) and isinstance(got.exc, PathAccessError) and got.exc.part_idx == want[1] and isinstance(got.exc.exc, want[2])
        else:
            col.count('valid_paths')
            ok = got.ok and got.value == want
        if not ok:
            col.violation('C01/failing-lookup-with-an-unusual-exception-class-not-reported', 'glom(.., %r): %r%s; expected %s' % (
                spec, got, '' if got.ok or not isinstance(got.exc, PathAccessError) else ' (part_idx %r, carried %r)' % (got.exc.part_idx, got.exc.exc),
                'the value %r' % (want,) if not isinstance(want, tuple) else 'a PathAccessError for part %d carrying the %s of the lookup' % (want[1], want[2].__name__)), None)
    for name, runner in (('busy', busy.glom), ('idle', idle.glom), ('created-afterwards', fresh.glom), ('glom', G)):
        for spec, want in cases:
            got = call(runner, mk(), spec)
            col.case(('registries-separate', name, short(spec)), True)
            col.count('valid_paths' if want[0] == 'ok' else 'failing_paths')
            if want[0] == 'ok':
                ok = got.ok and got.value == want[1]
            else:
                ok = (not got.ok) and isinstance(got.exc, PathAccessError) and got.exc.part_idx == want[1]
            if not ok:
                col.violation('C01/registration-on-another-Glommer-changes-a-walk:' + name,
                              'after other_glommer.register(Node, get=...), %s of %r gives %r, expected %r' % (name, spec, got, want), None)


def short_lived_classes_along_paths(col):
    """values of classes that are created at run time, walked through once and dropped (namedtuple classes, dict / list subclasses made
    inside a function), followed by values of NEW classes of another access kind: each value is accessed the way its own type says,
    whatever happened to be at its class's address before (the walk is a function of the value's type, not of its history)"""
    import gc
    import collections

    def mk_class(kind, i):
        if kind == 'namedtuple':
            return collections.namedtuple('Rec%d' % i, ['x', 'y'])
        if kind == 'dict':
            return type('Bag%d' % i, (dict,), {})
        if kind == 'list':
            return type('Row%d' % i, (list,), {'__slots__': ()})
        return type('Node%d' % i, (), {'__init__': lambda self, **kw: self.__dict__.update(kw)})

    def mk_value(kind, cls, i):
        if kind == 'namedtuple':
            return cls(('x', i), {'y': i})
        if kind == 'dict':
            return cls(x=('x', i), y={'y': i})
        if kind == 'list':
            return cls([('x', i), {'y': i}])
        return cls(x=('x', i), y={'y': i})
    first_seg = {'namedtuple': '0', 'dict': 'x', 'list': '0', 'object': 'x'}
    kinds = ['namedtuple', 'object', 'dict', 'object', 'list', 'object', 'namedtuple', 'dict', 'list', 'object']
    for runner_name, runner in (('glom', G), ('Glommer', Glommer().glom)):
        for i in range(80):
            kind = kinds[i % len(kinds)]
            cls = mk_class(kind, i)
            v = mk_value(kind, cls, i)
            seg = first_seg[kind]
            cases = [('%s.%s' % ('n', seg), ('ok', ('x', i))), (Path('n', seg, 1), ('ok', i)), (Path('n', T[0] if kind in ('namedtuple', 'list') else (T['x'] if kind == 'dict' else T.x), '0'), ('ok', 'x')),
                     ('n.%s.zz.q' % seg, ('pae', 2))]
            for spec, want in cases:
                got = call(runner, {'n': v}, spec)
                col.case(('short-lived-class', kind, runner_name), True)
                col.count('valid_paths' if want[0] == 'ok' else 'failing_paths')
                col.count('walks_through_short_lived_classes')
                ok = (got.ok and got.value == want[1]) if want[0] == 'ok' else \
                    ((not got.ok) and isinstance(got.exc, PathAccessError) and got.exc.part_idx == want[1])
                if not ok:
                    col.violation('C01/access-of-another-type-used:short-lived-class:' + kind, 'round %d, %s: %r on {n: <instance of a new %s class>} gives %r, '
                                  'expected %r' % (i, runner_name, spec, kind, got, want), None)
                    return
            del v, cls
            gc.collect()


def run(ctx):
    col, rng = ctx.col, ctx.rng
    col.require('valid_paths', 200)
    col.require('failing_paths', 200)
    col.require('accesses_logged', 100)
    col.require('handler_invocations_logged', 200)
    if ctx.shard == 0:
        systematic(col, rng)
        virtual_types(col)
        dynamic_step_arguments(col, rng)
        registries_are_separate_along_a_path(col)
        short_lived_classes_along_paths(col)
    for i in range(ctx.n(500, 4000)):
        one_target(col, rng, 12)
