"""C19 - the CLI prints what the library computes; default-format specs never execute.

Oracle: json.dumps(glom(target, spec), indent=..., sort_keys=True) + newline and exit
status 0, computed with the library in the same process; GlomError -> status 1 and the
error's class name; malformed / unreadable target -> usage error, no result.
Monitors: sys.addaudithook (AuditWatch) records exec / os.system / subprocess / spawn
events raised while the CLI runs - hostile spec texts in the default and json formats
must produce none (and leave no canary file), while the same texts under
--spec-format python-full DO produce an exec event (the monitor is alive).
The bulk runs in-process through glom.cli.main(argv) with stdin/stdout replaced; a
sample of every input channel runs as a real `python -m glom` subprocess.
"""
import io
import os
import sys
import json
import shutil
import tempfile
import subprocess
import contextlib

from .. import env
from ..util import call
from ..report import short

glom = env.bind()
import glom as glom_pkg  # noqa: E402
from glom import GlomError, cli  # noqa: E402

META = {
    'level': 'exploration',
    'rule': ('random JSON-representable targets (nested dicts/lists, non-ASCII and empty strings, numbers, booleans, null) rendered as '
             'JSON, Python literal, YAML and TOML x literal specs (valid and invalid path strings, dicts, lists, tuples nested <= 3) x '
             'channels (argv, --target-file/--spec-file, stdin via - and implicit) x flags (--indent n, --scalar, --target-format, '
             '--spec-format json); malformed targets; 40 hostile spec texts (calls, attribute access, lambdas, comprehensions, dunder '
             'chains, __import__(os).system, f-strings) in default, json and python-full formats. Non-trivial: a structured spec or a '
             'non-default channel/format/flag; distinct by (spec shape, channel, target format, flags, outcome class).'),
    'assumptions': [
        'flags precede positional arguments (a rule of the argument parser); spec texts starting with - are not generated',
        'cases whose library result json.dumps cannot serialise (or sort) are skipped and counted',
        'TOML targets are restricted to what TOML can express (dict at top level, no nulls, homogeneous handling of floats)',
    ],
}

GLOM_PKG_DIR = os.path.dirname(os.path.abspath(glom_pkg.__file__))
AUDIT_EVENTS = ('exec', 'os.system', 'subprocess.Popen', 'os.exec', 'os.posix_spawn', 'os.spawn', 'os.fork')


class AuditWatch:
    _instance = None

    def __init__(self):
        self.events = []
        self.active = False
        sys.addaudithook(self._hook)

    @classmethod
    def get(cls):
        if cls._instance is None:
            cls._instance = cls()
        return cls._instance

    def _hook(self, event, args):
        if self.active and event in AUDIT_EVENTS:
            detail = ''
            if event == 'exec':
                code = args[0] if args else None
                detail = getattr(code, 'co_filename', '') or ''
                # attribute the event to the code under test only when exec()/eval() was CALLED from a frame of the glom
                # package (cli.py evaluating text it was given).  Library internals - namedtuple class creation during a
                # lazy import, the argument parser's generated dispatch functions - are called from stdlib / third-party frames.
                caller = sys._getframe(1)
                if not os.path.abspath(caller.f_code.co_filename).startswith(GLOM_PKG_DIR + os.sep):
                    return
            self.events.append((event, detail))

    @contextlib.contextmanager
    def watching(self):
        del self.events[:]
        self.active = True
        try:
            yield self.events
        finally:
            self.active = False


def run_cli(argv, stdin_text=None, stdin_bytes=None):
    """in-process CLI run -> (status, stdout, stderr)"""
    out, err = io.StringIO(), io.StringIO()
    old = sys.stdin, sys.stdout, sys.stderr
    # (a text stream over a byte stream, as the real standard input is: it has a .buffer)
    raw = stdin_bytes if stdin_bytes is not None else (stdin_text if stdin_text is not None else '').encode('utf-8')
    sys.stdin = io.TextIOWrapper(io.BytesIO(raw), encoding='utf-8', newline='')
    sys.stdout, sys.stderr = out, err
    try:
        try:
            status = cli.main(['glom'] + list(argv))
        except SystemExit as e:
            status = e.code if isinstance(e.code, int) else (0 if e.code is None else 1)
        except BaseException as e:      # anything else escaping main() is a crash of the CLI, not a usage error
            status = 'crash:%s' % type(e).__name__
            err.write('%s: %s' % (type(e).__name__, e))
    finally:
        sys.stdin, sys.stdout, sys.stderr = old
    return status, out.getvalue(), err.getvalue()


# ---------------------------------------------------------------------------
# generators

STRS = ['x', '', 'héllo wörld', 'line\nbreak', 'q"uote', "it's", '日本', 'a.b', ' sp ']
KEYS = ['a', 'b', 'c', 'key', 'n1', 'ü', 'None', 'True', '1', '1.5', '0x10', 'back\\slash', 'q"uote', "ap'os", 'C:\\temp', 'dir\\new', 'end\\']


def gen_value(rng, depth, toml=False):
    if depth <= 0 or rng.random() < 0.3:
        pool = [rng.randint(-5, 99), rng.choice(STRS), rng.choice([True, False]), 2.5, 0]
        if not toml:
            pool.append(None)
        return rng.choice(pool)
    if rng.random() < 0.55:
        return {k: gen_value(rng, depth - 1, toml) for k in rng.sample(KEYS, rng.randint(0, 3))}
    n = rng.randint(0, 3)
    if toml:
        proto = gen_value(rng, depth - 1, toml)
        return [proto if not isinstance(proto, (dict, list)) else gen_value(rng, depth - 1, toml) for _ in range(n)]
    return [gen_value(rng, depth - 1, toml) for _ in range(n)]


def _tuplify(v, rng):
    if isinstance(v, dict):
        return {k: _tuplify(x, rng) for k, x in v.items()}
    if isinstance(v, list):
        items = [_tuplify(x, rng) for x in v]
        return tuple(items) if rng.random() < 0.6 else items
    return v


def _listify(v):
    if isinstance(v, dict):
        return {k: _listify(x) for k, x in v.items()}
    if isinstance(v, (list, tuple)):
        return [_listify(x) for x in v]
    return v


def _follow_any(v, p):
    for seg in p:
        v = v[int(seg)] if isinstance(v, (list, tuple)) else v[seg]
    return v


def valid_paths(v, prefix=()):
    out = []
    if isinstance(v, dict):
        for k, x in v.items():
            if isinstance(k, str) and k and '.' not in k and k not in ('*', '**'):
                out.append(prefix + (k,))
                out.extend(valid_paths(x, prefix + (k,)))
    elif isinstance(v, list):
        for i, x in enumerate(v[:3]):
            out.append(prefix + (str(i),))
            out.extend(valid_paths(x, prefix + (str(i),)))
    return out


def gen_spec(rng, target, depth, nested=False):
    paths = ['.'.join(p) for p in valid_paths(target)]
    r = rng.random()
    if depth <= 0 or r < 0.35 or not paths:
        if rng.random() < 0.12:
            # wildcard segments in a (bare) path string mean what they mean to glom()
            base = rng.choice(paths) if paths and rng.random() < 0.6 else None
            return rng.choice(['*', '**'] if base is None else [base + '.*', base + '.**', '*.' + base.split('.')[-1], '**.' + base.split('.')[-1]])
        if paths and rng.random() < 0.8:
            return rng.choice(paths)
        if nested and rng.random() < 0.3:
            # a valid literal that is not a usable spec: the library answers with a GlomError that is also a TypeError
            return rng.choice([5, None, True, 1.5])
        return rng.choice(['nope', 'a.zz.q', '0.zz', 'key.x'])
    if r < 0.65:
        return {rng.choice(['out', 'x', 'y', 'z1']): gen_spec(rng, target, depth - 1, True) for _ in range(rng.randint(1, 3))}
    if r < 0.8:
        # chain: first step a valid path, then a spec for what it yields
        p = rng.choice(paths)
        sub = target
        for seg in p.split('.'):
            sub = sub[int(seg)] if isinstance(sub, list) else sub[seg]
        return (p, gen_spec(rng, sub, depth - 1, True))
    lists = [p for p in valid_paths(target) if isinstance(_follow(target, p), list)]
    if lists:
        p = rng.choice(lists)
        elems = _follow(target, p)
        return ('.'.join(p), [gen_spec(rng, elems[0] if elems else {}, depth - 1, True)])
    return [rng.choice(paths)] if isinstance(target, list) else rng.choice(paths)


def _follow(v, p):
    for seg in p:
        v = v[int(seg)] if isinstance(v, list) else v[seg]
    return v


def to_jsonable_spec(spec):
    """tuples have no JSON form: the json spec format uses lists... which mean iteration; only tuple-free specs qualify"""
    if isinstance(spec, tuple):
        return None
    if isinstance(spec, dict):
        out = {}
        for k, v in spec.items():
            j = to_jsonable_spec(v)
            if j is None:
                return None
            out[k] = j
        return out
    if isinstance(spec, list):
        j = [to_jsonable_spec(x) for x in spec]
        return None if any(x is None for x in j) else j
    return spec


def toml_dumps(d):
    def val(v):
        if isinstance(v, bool):
            return 'true' if v else 'false'
        if isinstance(v, (int, float)):
            return repr(v)
        if isinstance(v, str):
            return json.dumps(v, ensure_ascii=False)
        if isinstance(v, list):
            return '[' + ', '.join(val(x) for x in v) + ']'
        if isinstance(v, dict):
            return '{' + ', '.join('%s = %s' % (json.dumps(k, ensure_ascii=False), val(x)) for k, x in v.items()) + '}'
        raise TypeError(type(v))
    return '\n'.join('%s = %s' % (json.dumps(k, ensure_ascii=False), val(v)) for k, v in d.items()) + '\n'


def render_target(target, fmt):
    if fmt == 'json':
        return json.dumps(target, ensure_ascii=False)
    if fmt == 'python':
        return repr(target)
    if fmt == 'yaml':
        import yaml
        return yaml.safe_dump(target, allow_unicode=True)
    return toml_dumps(target)


def _load(fmt, text):
    if fmt == 'json':
        return json.loads(text)
    if fmt == 'python':
        import ast
        return ast.literal_eval(text)
    if fmt == 'yaml':
        import yaml
        return yaml.safe_load(text)
    try:
        import tomllib
    except ImportError:
        import tomli as tomllib
    return tomllib.loads(text)


def library_expectation(target, spec, indent, scalar):
    """(status, stdout) the CLI must produce, or None to skip"""
    o = call(glom_pkg.glom, target, spec)
    if not o.ok:
        if isinstance(o.exc, GlomError):
            return 1, type(o.exc).__name__
        return None
    from boltons.iterutils import is_scalar
    if scalar and is_scalar(o.value):
        return 0, str(o.value)
    try:
        return 0, json.dumps(o.value, indent=indent or None, sort_keys=True) + '\n'
    except (TypeError, ValueError):
        return None


def cli_case(col, rng, tmpdir, watch):
    fmt = rng.choice(['json', 'json', 'python', 'yaml', 'toml'])
    toml = fmt == 'toml'
    target = gen_value(rng, rng.randint(1, 3), toml)
    if toml and not isinstance(target, dict):
        target = {'a': target}
    if target is None or target == '':
        target = {'a': target}     # (empty target text means {} by design; a bare null / '' document is not a distinct target)
    spec = gen_spec(rng, target, rng.randint(0, 3))
    if rng.random() < 0.06:
        spec = rng.choice([{}, [], ''])     # falsy literal specs are specs like any other ({} -> {}, '' -> the key '')
    empty_spec = rng.random() < 0.12       # no spec text at all: the CLI prints the target itself
    indent = rng.choice([None, None, 0, 1, 4, -1, -2])
    scalar = rng.random() < 0.2
    spec_fmt = 'python'
    if rng.random() < 0.2 and to_jsonable_spec(spec) is not None:
        spec_fmt = 'json'
    spec_text = repr(spec) if spec_fmt == 'python' else json.dumps(spec)
    if isinstance(spec, str) and spec_fmt == 'python' and rng.random() < 0.6 and not spec.startswith(('-', '"', "'", '[', '{', '(')):
        spec_text = spec      # a bare path string
    if empty_spec:
        from glom import Path as _Path
        spec, spec_text, spec_fmt = _Path(), '', 'python'
    if spec_text.startswith('-') or (not spec_text and not empty_spec):
        return
    if fmt in ('python', 'yaml') and isinstance(target, dict) and rng.random() < 0.3:
        # mappings keyed by ints (only Python literals and YAML can say that): json.dumps sorts them as numbers and prints them as
        # JSON strings; a dict spec with int keys does the same to any target
        target = dict(target, nums={2: 'two', 10: 'ten', 100: 'hundred'})
        if not empty_spec and rng.random() < 0.6:
            spec = rng.choice(['nums', {'out': 'nums'}])
            spec_text, spec_fmt = (spec if isinstance(spec, str) else repr(spec)), 'python'
    if fmt == 'python' and rng.random() < 0.4:
        target = _tuplify(target, rng)        # (only Python literals can say tuple: the library result then holds tuples too)
        tuple_paths = ['.'.join(p) for p in valid_paths(_listify(target)) if isinstance(_follow_any(target, p), tuple)]
        if tuple_paths and not empty_spec and rng.random() < 0.5:
            # --scalar with a result that is a tuple: not a scalar, printed as JSON like any other container
            spec, spec_fmt, scalar = rng.choice(tuple_paths), 'python', True
            spec_text = spec if not spec.startswith(('-', '"', "'", '[', '{', '(')) else repr(spec)
    try:
        target_text = render_target(target, fmt)
    except Exception:
        return
    if not target_text.strip() or target_text.strip() == '-':
        return
    # surrounding whitespace that the loaders accept must not matter, whatever the channel: JSON / Python literals may be
    # padded, a YAML document may be uniformly indented
    pad = rng.random()
    if pad < 0.15 and fmt in ('json', 'python'):
        target_text = rng.choice(['  ', '\n', ' \n ']) + target_text + rng.choice(['', '\n\n', '  '])
        if fmt == 'python':
            target_text = target_text.lstrip()      # (a Python literal must not start with indentation)
    elif pad < 0.3 and fmt == 'yaml' and isinstance(target, dict) and target:
        target_text = ''.join('  ' + ln + '\n' for ln in target_text.splitlines())
    eff_indent = 2 if indent is None else indent
    # the library result is computed on the target as its loader reads the text (key order is the document's: yaml.safe_dump
    # and TOML tables do not keep the order of the dict they were rendered from, and wildcards enumerate in document order)
    try:
        loaded = _load(fmt, target_text)
    except Exception:
        return
    want = library_expectation(loaded, spec, eff_indent, scalar)
    if want is None:
        col.count('skipped_unserialisable')
        return
    channel = rng.choice(['argv', 'argv', 'target-file', 'spec-file', 'both-files', 'stdin-dash', 'stdin-implicit', 'stdin-target-file-dash'])
    if empty_spec:
        channel = rng.choice(['argv', 'target-file', 'stdin-dash', 'stdin-target-file-dash'])
    flags = []
    if indent is not None:
        flags += ['--indent', str(indent)]
    if scalar:
        flags += ['--scalar']
    if fmt != 'json' or rng.random() < 0.2:
        flags += ['--target-format', fmt if fmt != 'yaml' else rng.choice(['yaml', 'yml'])]
    if spec_fmt == 'json':
        flags += ['--spec-format', 'json']
    stdin_text = None
    # (the name of a file says nothing about its format: --target-format does, json when it is not given)
    tpath = os.path.join(tmpdir, 'target' + rng.choice(['.txt', '.json', '.yaml', '.yml', '.toml', '.py', '.dat', '', '.JSON', '.yaml.bak']))
    spath = os.path.join(tmpdir, 'spec' + rng.choice(['.txt', '.json', '.py', '.glom', '']))
    if channel in ('target-file', 'both-files'):
        with open(tpath, 'w', encoding='utf-8') as f:
            f.write(target_text)
    if channel in ('spec-file', 'both-files'):
        # (a text file ends with a newline, as editors and `echo` write it: that newline is not part of the spec)
        eol = rng.choice(['', '\n', '\n', '\r\n'])
        col.count('spec_files_ending_in_a_newline', 1 if eol else 0)
        with open(spath, 'w', encoding='utf-8', newline='') as f:
            f.write(spec_text + eol)
    if channel == 'argv':
        argv = flags + [spec_text, target_text]
    elif channel == 'target-file':
        argv = flags + ['--target-file', tpath, spec_text]
    elif channel == 'spec-file':
        argv = flags + ['--spec-file', spath]
        stdin_text = target_text     # with a spec file the single positional would be the spec: feed the target on stdin
    elif channel == 'both-files':
        argv = flags + ['--target-file', tpath, '--spec-file', spath]
    elif channel == 'stdin-dash':
        argv, stdin_text = flags + [spec_text, '-'], target_text
    elif channel == 'stdin-implicit':
        argv, stdin_text = flags + [spec_text], target_text
    else:
        argv, stdin_text = flags + ['--target-file', '-', spec_text], target_text
    with watch.watching() as events:
        status, out, err = run_cli(argv, stdin_text)
        evs = list(events)
    col.count('cli_runs')
    oc = 'ok' if want[0] == 0 else 'glomerror'
    col.case((_spec_shape(spec), channel, fmt, spec_fmt, indent, scalar, oc),
             not isinstance(spec, str) or channel != 'argv' or fmt != 'json' or bool(flags))
    wit = {'argv': argv, 'stdin': short(stdin_text), 'target': short(target), 'spec': short(spec)}
    if col.want_sample(channel):
        col.sample({'argv': [short(a, 80) for a in argv], 'stdin': short(stdin_text, 80), 'expected_status': want[0],
                    'expected_stdout': short(want[1], 120)}, channel)
    if evs:
        col.violation('C19/spec-or-target-text-executed:' + spec_fmt, 'audit events %s while running glom %s' % (evs, argv), wit)
    if want[0] == 0:
        if status != 0 or out != want[1]:
            col.violation('C19/output-differs-from-library:%s:%s' % (channel, fmt),
                          'glom %s (stdin %s): status %r stdout %r stderr %r ; library gives status 0 and %r'
                          % (argv, short(stdin_text), status, short(out, 400), short(err, 200), short(want[1], 400)), wit)
    else:
        if status != 1 or not out.startswith(want[1] + ':'):
            col.violation('C19/glomerror-not-status-1:%s' % channel,
                          'glom %s: the library raises %s; CLI status %r stdout %r' % (argv, want[1], status, short(out, 300)), wit)


def _spec_shape(spec, depth=0):
    if isinstance(spec, dict):
        return ('dict',) + tuple(_spec_shape(v, depth + 1) for v in spec.values())
    if isinstance(spec, (list, tuple)):
        return (type(spec).__name__,) + tuple(_spec_shape(v, depth + 1) for v in spec)
    return 'path'


def malformed_targets(col, tmpdir):
    bad = [('python', "{'a': [1, 2}"), ('python', "{'a': 1,, 'b': 2}"), ('python', "  {'a': 1}\n{'b': 2}"), ('python', '1 +'), ('python', "'unterminated"),
           ('python', '{"a": \x00}'), ('json', '{"a": 1} trailing'), ('yaml', 'a: b\n\tc: d'), ('toml', 'a = 1\na = 2'),
           ('json', '{"a": "line1\nline2"}'), ('json', '{"a": "tab\there"}'), ('json', '["nul\x00"]'),
           ('json', '{bad'), ('json', '[1, 2'), ('json', "{'a': 1}"), ('python', '{"a": '), ('python', '__import__("os")'),
           ('python', 'a + b'), ('yaml', 'a: [1, 2'), ('yaml', '{a: b: c}'), ('toml', 'a = '), ('toml', '[[['), ('toml', 'a = nul'),
           ('xml', '<a/>')]
    for fmt, text in bad:
        for channel in ('argv', 'stdin', 'file'):
            if channel == 'argv':
                argv, stdin = ['--target-format', fmt, 'a', text], None
            elif channel == 'stdin':
                argv, stdin = ['--target-format', fmt, 'a', '-'], text
            else:
                p = os.path.join(tmpdir, 'bad.txt')
                with open(p, 'w') as f:
                    f.write(text)
                argv, stdin = ['--target-format', fmt, '--target-file', p, 'a'], None
            status, out, err = run_cli(argv, stdin)
            col.case(('malformed', fmt, text, channel), True)
            col.count('malformed_target_runs')
            usage = (out + err).lstrip().startswith('error:') and 'could not load target data' in (out + err) or \
                (fmt == 'xml' and (out + err).lstrip().startswith('error:'))
            if status != 1 or not usage or out.strip().startswith(('{', '[', '"')):
                col.violation('C19/malformed-target-not-a-usage-error:' + fmt, 'glom %s (stdin %r): status %r stdout %r stderr %r'
                              % (argv, stdin, status, out, short(err)), None)
    # whitespace-only target text is not valid JSON: a usage error on every channel, not an (empty) result
    for channel, argv, stdin in (('argv', ['a', '  '], None), ('stdin', ['a', '-'], ' \n '), ('stdin-implicit', ['a'], '\n\n')):
        status, out, err = run_cli(argv, stdin)
        col.case(('whitespace-only', channel), True)
        col.count('malformed_target_runs')
        if status == 0:
            col.violation('C19/whitespace-only-target-not-a-usage-error:' + channel, 'glom %s (stdin %r): status %r stdout %r' % (argv, stdin, status, out), None)
    # unreadable files: missing, a directory, a path below a regular file, bytes that are not text (invalid UTF-8) - for the target
    # file and for the spec file: a usage error (status 1, "error: ..."), never a traceback and never a result
    regular = os.path.join(tmpdir, 'regular.json')
    with open(regular, 'w') as f:
        f.write('{"a": 1}')
    subdir = os.path.join(tmpdir, 'a-directory')
    os.makedirs(subdir, exist_ok=True)
    binary = os.path.join(tmpdir, 'not-text.json')
    with open(binary, 'wb') as f:
        f.write(b'{"a": "\xff\xfe"}')
    binary2 = os.path.join(tmpdir, 'not-text-2.txt')
    with open(binary2, 'wb') as f:
        f.write(b'\x80abc')
    unreadable = [
        ('missing-target-file', ['--target-file', os.path.join(tmpdir, 'does-not-exist'), 'a'], '{}'),
        ('missing-spec-file', ['--spec-file', os.path.join(tmpdir, 'nope')], '{}'),
        ('target-file-is-a-directory', ['--target-file', subdir, 'a'], None),
        ('spec-file-is-a-directory', ['--spec-file', subdir], '{"a": 1}'),
        ('target-file-below-a-regular-file', ['--target-file', os.path.join(regular, 'x.json'), 'a'], None),
        ('spec-file-below-a-regular-file', ['--spec-file', os.path.join(regular, 'spec.txt')], '{"a": 1}'),
        ('target-file-is-not-text', ['--target-file', binary, 'a'], None),
        ('target-file-is-not-text:python-format', ['--target-format', 'python', '--target-file', binary2, 'a'], None),
        ('target-file-is-not-text:yaml-format', ['--target-format', 'yaml', '--target-file', binary2, 'a'], None),
        ('spec-file-is-not-text', ['--spec-file', binary2], '{"a": 1}'),
    ]
    # the same bytes arriving on standard input (a UTF-8 stdin, as under any UTF-8 locale): unreadable there as well
    unreadable += [('stdin-is-not-text:dash', ['a', '-'], b'{"a": "\xff\xfe"}'), ('stdin-is-not-text:implicit', ['a'], b'{"a": "\xff\xfe"}'),
                   ('stdin-is-not-text:target-file-dash', ['--target-file', '-', 'a'], b'\x80abc'),
                   ('stdin-is-not-text:python-format', ['--target-format', 'python', 'a', '-'], b"{'a': '\xff'}"),
                   ('stdin-is-not-text:yaml-format', ['--target-format', 'yaml', 'a'], b'a: \xff\n')]
    for name, argv, stdin in unreadable:
        status, out, err = run_cli(argv, stdin) if not isinstance(stdin, bytes) else run_cli(argv, stdin_bytes=stdin)
        col.case(('unreadable', name), True)
        col.count('malformed_target_runs')
        col.count('unreadable_file_runs')
        produced_result = status == 0 or out.strip().startswith(('{', '[', '"'))
        if name.startswith('spec-file') or name == 'missing-spec-file':
            # (the statement speaks of the target; for an unreadable SPEC file only "no result" is demanded)
            bad = produced_result
        else:
            bad = status != 1 or not (out + err).lstrip().startswith('error:') or produced_result
        if bad:
            col.violation('C19/unreadable-file-not-a-usage-error:' + name.split(':')[0], 'glom %s: status %r stdout %r stderr %r' % (argv, status, out, short(err)), None)


def hostile_texts(canary):
    c = repr(canary)
    return [
        "__import__('os').system('touch %s')" % canary, "open(%s, 'w').write('x')" % c, "(lambda: open(%s, 'w'))()" % c,
        "[open(%s, 'w') for _ in range(1)]" % c, "{'a': open(%s, 'w')}" % c, "(open(%s,'w'),)" % c,
        "().__class__.__bases__[0].__subclasses__()", "T['a']", "Coalesce('a', default=open(%s, 'w'))" % c,
        "f'{open(%s, chr(119))}'" % c, "{'k': __import__('subprocess').Popen(['touch', %s])}" % c, "[].append(1)",
        "'a'.upper()", "{'a': 1}.get('a')", "dict(a=1)", "print(1)", "exec('1')", "eval('1')", "compile('1','x','exec')",
        "(1).__class__", "{**{'a': 'a'}}", "[*'ab']", "{'a': 'a' if 1 else 'b'}", "{'a': 'a' + 'b'}", "('a', len)",
        "{'a': (lambda t: t)}", "[x for x in 'ab']", "{x: x for x in 'ab'}", "globals()", "__builtins__", "Path('a')", "S.a",
        "{'a': Val(open(%s, 'w'))}" % c, "(Spec('a'),)", "{'a': 1 .real}", "{'a': ...}", "[T]", "{'x': T.a.b(open(%s, 'w'))}" % c,
        "(__import__('os').system('touch %s'),)" % canary, "{'a': os.system('touch %s')}" % canary,
    ]


def hostile(col, tmpdir, watch):
    canary = os.path.join(tmpdir, 'CANARY')
    target = '{"a": {"b": 1}}'
    for text in hostile_texts(canary):
        for sfmt in ('python', 'json'):
            argv = ['--spec-format', sfmt, text, target] if sfmt != 'python' or True else [text, target]
            if sfmt == 'python' and hash(text) % 2:
                argv = [text, target]          # default format, flag omitted
            if os.path.exists(canary):
                os.unlink(canary)
            with watch.watching() as events:
                res = call(run_cli, argv)
                evs = list(events)
            col.case(('hostile', sfmt, text), True)
            col.count('hostile_runs')
            if evs or os.path.exists(canary):
                col.violation('C19/hostile-spec-text-executed:' + sfmt,
                              'spec text %r in %s format: audit events %s, canary exists: %s' % (text, sfmt, evs, os.path.exists(canary)),
                              {'text': text, 'format': sfmt})
            if res.ok and res.value[0] == 0 and res.value[1].strip() not in ('', 'null'):
                # a result was printed: then the text must have been taken as a literal / path, i.e. equal to the library on the parsed literal
                pass
        # liveness of the monitor: the same text under python-full does execute (an exec event is seen)
        if 'Popen' in text:
            continue      # (would touch the canary asynchronously, i.e. during a later case)
        if os.path.exists(canary):
            os.unlink(canary)
        with watch.watching() as events:
            call(run_cli, ['--spec-format', 'python-full', text, target])
            evs = list(events)
        col.count('python_full_runs')
        if any(e[0] == 'exec' for e in evs):
            col.count('python_full_exec_events_seen')
    if os.path.exists(canary):
        os.unlink(canary)


def subprocess_samples(col, rng, tmpdir):
    """every channel once through a real interpreter: python -m glom"""
    target = {'a': {'b': [1, 2, {'c': 'héllo'}]}, 'n': None}
    spec = {'x': 'a.b.2.c', 'y': ('a.b', ['c']) if False else 'a.b.0'}
    want = json.dumps(glom_pkg.glom(target, spec), indent=2, sort_keys=True) + '\n'
    tt, st = json.dumps(target), repr(spec)
    tpath, spath = os.path.join(tmpdir, 'st.json'), os.path.join(tmpdir, 'ss.txt')
    with open(tpath, 'w') as f:
        f.write(tt)
    with open(spath, 'w') as f:
        f.write(st)
    runs = [
        ('argv', [st, tt], None), ('target-file', ['--target-file', tpath, st], None), ('both-files', ['--target-file', tpath, '--spec-file', spath], None),
        ('stdin-dash', [st, '-'], tt), ('stdin-implicit', [st], tt), ('python-target', ['--target-format', 'python', st, repr(target)], None),
        ('yaml-target', ['--target-format', 'yaml', st, json.dumps(target)], None),
        # every target format through every way of reading standard input
        ('stdin-dash-python-target', ['--target-format', 'python', st, '-'], repr(target)), ('stdin-implicit-python-target', ['--target-format', 'python', st], repr(target)),
        ('stdin-target-file-dash-python-target', ['--target-format', 'python', '--target-file', '-', st], repr(target)),
        ('stdin-dash-yaml-target', ['--target-format', 'yaml', st, '-'], json.dumps(target)), ('stdin-implicit-yaml-target', ['--target-format', 'yaml', st], json.dumps(target)),
        ('stdin-dash-toml-target', ['--target-format', 'toml', "{'x': 'a.b.2.c', 'y': 'a.b.0'}", '-'], 'n = 0\n[a]\nb = [1, 2, {c = "héllo"}]\n'),
        ('stdin-implicit-toml-target', ['--target-format', 'toml', "{'x': 'a.b.2.c', 'y': 'a.b.0'}"], 'n = 0\n[a]\nb = [1, 2, {c = "héllo"}]\n'),
        ('negative-indent', ['--indent', '-1', st, tt], None), ('zero-indent', ['--indent', '0', st, tt], None), ('indent-4', ['--indent', '4', st, tt], None),
    ]
    e = env.child_env({'PYTHONPATH': env.SRC + os.pathsep + env.VERIF_DIR, 'PYTHONIOENCODING': 'utf-8'})
    for name, argv, stdin in runs:
        try:
            p = subprocess.run([sys.executable, '-m', 'glom'] + argv, input=stdin if stdin is not None else '', env=e, cwd=tmpdir,
                               timeout=120, stdout=subprocess.PIPE, stderr=subprocess.PIPE, text=True, encoding='utf-8')
        except subprocess.TimeoutExpired:
            col.fail_inconclusive('python -m glom timed out (%s)' % name)
            continue
        col.case(('subprocess', name), True)
        col.count('subprocess_runs')
        if 'indent' in name:
            n_ind = int(argv[1])
            want_here = json.dumps(glom_pkg.glom(target, spec), indent=n_ind or None, sort_keys=True) + '\n'
        else:
            want_here = want
        if p.returncode != 0 or p.stdout != want_here:
            col.violation('C19/subprocess-output-differs:' + name, 'python -m glom %s: status %d stdout %r stderr %r ; expected %r'
                          % (argv, p.returncode, p.stdout, p.stderr[-300:], want_here), None)
    # a producer that starts writing LATE (the command is up and waiting before the first byte arrives) and writes in pieces:
    # standard input is read to its end, whenever the data comes
    import time
    for name, argv in (('stdin-implicit-slow-producer', [st]), ('stdin-dash-slow-producer', [st, '-'])):
        for delay in (0.6, 1.5):
            try:
                p = subprocess.Popen([sys.executable, '-m', 'glom'] + argv, env=e, cwd=tmpdir, stdin=subprocess.PIPE, stdout=subprocess.PIPE,
                                     stderr=subprocess.PIPE, text=True, encoding='utf-8')
                time.sleep(delay)
                half = len(tt) // 2
                p.stdin.write(tt[:half])
                p.stdin.flush()
                time.sleep(0.3)
                p.stdin.write(tt[half:])
                out, err = p.communicate(timeout=120)
            except (subprocess.TimeoutExpired, BrokenPipeError, OSError) as ex:
                try:
                    p.kill()
                    out, err = p.communicate(timeout=10)
                except Exception:
                    out, err = '', repr(ex)
                if isinstance(ex, subprocess.TimeoutExpired):
                    col.fail_inconclusive('python -m glom timed out (%s)' % name)
                    continue
            col.case(('subprocess', name, delay), True)
            col.count('subprocess_runs')
            col.count('slow_producer_runs')
            if p.returncode != 0 or out != want:
                col.violation('C19/subprocess-output-differs:' + name, 'python -m glom %s with the target written to stdin %.1f s after start, in two pieces: '
                              'status %r stdout %r stderr %r ; expected %r' % (argv, delay, p.returncode, out, err[-300:], want), None)
    # error status through the real process
    p = subprocess.run([sys.executable, '-m', 'glom', 'a.zz', tt], input='', env=e, cwd=tmpdir, timeout=120,
                       stdout=subprocess.PIPE, stderr=subprocess.PIPE, text=True)
    col.count('subprocess_runs')
    if p.returncode != 1 or not p.stdout.startswith('PathAccessError:'):
        col.violation('C19/subprocess-error-status', 'python -m glom a.zz: status %d stdout %r' % (p.returncode, p.stdout[:200]), None)


def run(ctx):
    col, rng = ctx.col, ctx.rng
    watch = AuditWatch.get()
    tmpdir = tempfile.mkdtemp(prefix='rv-c19-')
    col.require('cli_runs', 500)
    try:
        if ctx.shard == 0:
            col.require('hostile_runs', 60)
            col.require('python_full_exec_events_seen', 10)
            col.require('malformed_target_runs', 20)
            col.require('subprocess_runs', 5)
            malformed_targets(col, tmpdir)
            hostile(col, tmpdir, watch)
            subprocess_samples(col, rng, tmpdir)
        for i in range(ctx.n(2500, 20000)):
            cli_case(col, rng, tmpdir, watch)
    finally:
        shutil.rmtree(tmpdir, ignore_errors=True)
