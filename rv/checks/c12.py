"""C12 - delete removes exactly the addressed element, or nothing.  (fault enumeration)

Twin technique as in C11 with plain `del`: glom edits twin A, `mutmodel.ref_delete`
twin B.  Missing final element -> PathDeleteError, missing parent -> PathAccessError,
for every addressing style; ignore_missing=True silences both; in every failing case
A's structure+identity snapshot must be unchanged.
"""
from .. import env, gen
from ..util import call
from ..report import short
from ..snapshot import snapshot, isomorphic, first_diff
from ..mutmodel import ref_delete, RefError, FaultDict, FaultList, FaultObj, access, _UNASSIGNABLE
from . import c11

glom = env.bind()
from glom import T, Path, Delete, delete, PathAccessError, PathDeleteError, GlomError, glom as G  # noqa: E402

META = {
    'level': 'fault_enumeration',
    'rule': ('target recipes as in C11 x every element reachable by walking the target (present) and, at every position k, an absent '
             'key / out-of-range or non-integer index / absent attribute followed by 0-2 further segments (missing final, missing parent) '
             'x spellings (dotted string, Path, T[..], T.attr, mixtures) x ignore_missing in {False, True} x faults armed on the '
             'container holding the final element (raising __delitem__/__delattr__) and immutable containers (tuple, namedtuple, str, '
             'scalars). Non-trivial: path length >= 2; distinct by (type sequence, spelling, presence class, ignore_missing, fault kind).'),
    'assumptions': [
        'for injected faults and immutable containers only "target unchanged" (and, without ignore_missing, "raises") is demanded',
        '"missing" means KeyError/IndexError for [..], AttributeError for .attr and any lookup failure for plain path segments',
    ],
}

MISSING_CLASSES = {'P': (Exception,), '.': (AttributeError,), '[': (KeyError, IndexError)}


def arm_fault(obj, name):
    if isinstance(obj, FaultDict):
        obj.fail = (name,)
        return 'raising-delitem'
    if isinstance(obj, FaultList):
        try:
            obj.fail = (int(name),)
        except (TypeError, ValueError):
            return None
        return 'raising-delitem'
    if isinstance(obj, FaultObj):
        obj.__dict__['_fail'] = (name,)
        return 'raising-delattr'
    return None


def classify(B, steps):
    """what plain Python says about `del` at this path, evaluated on a pristine twin"""
    cur = B
    for k, (style, arg) in enumerate(steps[:-1]):
        try:
            cur = access(cur, style, arg)
        except Exception as e:
            return ('missing-parent', k) if isinstance(e, c11_wrapped(style)) else ('parent-other-error', k)
    style, arg = steps[-1]
    if isinstance(cur, _UNASSIGNABLE):
        # nothing can be deleted from it, present or not.  An ITEM that is there (plain `del` refuses with a TypeError, which is not
        # what a missing key or index looks like) is not a "missing final element": ignore_missing has nothing to ignore
        if style in ('[', 'P'):
            try:
                access(cur, style, arg)
                return ('immutable-holder-item-present', len(steps) - 1)
            except Exception:
                pass
        return ('immutable-holder', len(steps) - 1)
    try:
        access(cur, style, arg)
    except Exception as e:
        if isinstance(e, MISSING_CLASSES[style]):
            return ('missing-final', len(steps) - 1)
        return ('final-other-error', len(steps) - 1)
    return ('present', len(steps) - 1)


def c11_wrapped(style):
    return {'P': (Exception,), '.': (AttributeError,), '[': (KeyError, IndexError, TypeError)}[style]


def one_target(col, rng):
    shared = []
    recipe = gen.gen_recipe(rng, rng.randint(1, 4), width=3, shared=shared, faults=True)
    if recipe[0] in ('leaf', 'ref'):
        recipe = ('dict', [('a', recipe)])
    probe = gen.build(recipe, {}, shared)
    paths = []
    stack = [([], [probe])]
    while stack and len(paths) < 200:
        segs, nodes = stack.pop()
        if len(segs) >= 5:
            continue
        for seg, child in gen.children(nodes[-1]):
            item = (segs + [seg], nodes + [child])
            paths.append(item)
            stack.append(item)
    paths.append(([], [probe]))
    rng.shuffle(paths)
    for segs, nodes in paths[:8]:
        if segs:
            run_case(col, rng, recipe, shared, segs, len(segs), 'present')
        for k in range(len(segs) + 1):
            node = nodes[k]
            if isinstance(node, (list, tuple)):
                n = len(node)
                # (boundary values: just past either end, and the window a hand-rolled negative-index fix-up would map back in range)
                bad = rng.choice([n, n + 1, -n - 1, -n - 2, -2 * n, -2 * n - 1, 99, -99, 'x9'] if n else [0, -1, 1, 'x9'])
            else:
                bad = 'zz_absent'
            if rng.random() < 0.7:
                run_case(col, rng, recipe, shared, segs[:k] + [bad], k, 'absent-final')
            if rng.random() < 0.6:
                tail = [rng.choice(['m1', 0, 'm2']) for _ in range(rng.randint(1, 2))]
                run_case(col, rng, recipe, shared, segs[:k] + [bad] + tail, k, 'absent-parent')


def run_case(col, rng, recipe, shared, segs, k_exist, purpose):
    A = gen.build(recipe, {}, shared)
    B = gen.build(recipe, {}, shared)
    nodesA = [A]
    for s in segs[:k_exist]:
        try:
            nodesA.append(dict(gen.children(nodesA[-1]))[s] if not isinstance(nodesA[-1], (list, tuple)) else nodesA[-1][s])
        except (KeyError, IndexError, TypeError):
            return
    node_seq = nodesA[:len(segs)] + [None] * max(0, len(segs) - len(nodesA))
    spelling = rng.choice(['string', 'path', 'mixed', 'T'])
    if spelling == 'string' and not c11.stringable(segs):
        spelling = 'path'
    steps = c11.spell_steps(rng, segs, node_seq, spelling)
    if not steps:
        return
    path = c11.make_path(steps, spelling)
    ignore = rng.random() < 0.45
    fault = None
    if purpose == 'present' and rng.random() < 0.3:
        holderA = nodesA[len(segs) - 1]
        holderB = B
        for s in segs[:-1]:
            holderB = dict(gen.children(holderB))[s] if not isinstance(holderB, (list, tuple)) else holderB[s]
        fault = arm_fault(holderA, steps[-1][1])
        arm_fault(holderB, steps[-1][1])
    types = tuple(type(n).__name__ for n in nodesA)
    verdict = classify(gen.build(recipe, {}, shared), steps)
    try:
        ref_delete(B, steps)
        want_ok = True
        ref_err = None
    except RefError as e:
        want_ok, ref_err = False, e
    col.case((types, spelling, verdict[0], ignore, fault, steps[-1][0]), len(segs) >= 2)
    snapA = snapshot(A)
    if rng.random() < 0.5:
        got = call(delete, A, path, ignore_missing=ignore)
    else:
        got = call(G, A, Delete(path, ignore_missing=ignore))
    col.count('deletions_attempted')
    desc = 'delete(%s, %s%s)' % (short(gen.build(recipe, {}, shared), 200), short(path), ', ignore_missing=True' if ignore else '')
    wit = {'call': desc, 'steps': short(steps), 'plain_python': verdict[0], 'fault': fault}
    if col.want_sample(verdict[0] + (':ignore' if ignore else '')):
        col.sample({'call': desc, 'plain_python': verdict[0], 'fault': fault}, verdict[0] + (':ignore' if ignore else ''))
    style = {'P': 'path-segment', '[': 'T-item', '.': 'T-attr'}[steps[-1][0]]
    if want_ok:
        col.count('successful_deletions')
        if not got.ok:
            col.violation('C12/possible-deletion-raises:%s:%s' % (style, c11._dest_kind(nodesA, len(segs) - 1, segs)),
                          '%s: plain del works, glom raised %r' % (desc, got.exc), wit)
        elif got.value is not A:
            col.violation('C12/returns-other-object', '%s returned %s' % (desc, short(got.value)), wit)
        elif not isomorphic(A, B):
            col.violation('C12/effect-differs-from-del:%s:%s' % (style, c11._dest_kind(nodesA, len(segs) - 1, segs)),
                          '%s: after glom %s ; after plain del %s' % (desc, short(A, 400), short(B, 400)), wit)
        return
    col.count('failing_deletions')
    if fault:
        col.count('faults_injected')
    after = snapshot(A)
    if after != snapA:
        col.violation('C12/not-atomic:%s' % verdict[0], '%s (%r): target changed: %s' % (desc, got, first_diff(snapA, after)), wit)
        return
    kind = verdict[0]
    if kind == 'missing-final' and not fault:
        col.count('missing_final_cases')
        if ignore:
            if not got.ok or got.value is not A:
                col.violation('C12/ignore-missing-not-silent:final:' + style, '%s: the final element is absent, glom gave %r' % (desc, got), wit)
        elif got.ok or not isinstance(got.exc, PathDeleteError):
            col.violation('C12/missing-final-not-PathDeleteError:' + style, '%s: the final element is absent, glom gave %r' % (desc, got), wit)
    elif kind == 'missing-parent':
        col.count('missing_parent_cases')
        if ignore:
            if not got.ok or got.value is not A:
                col.violation('C12/ignore-missing-not-silent:parent:' + style, '%s: a parent is absent, glom gave %r' % (desc, got), wit)
        elif got.ok or not isinstance(got.exc, PathAccessError):
            col.violation('C12/missing-parent-not-PathAccessError:' + style, '%s: a parent is absent, glom gave %r' % (desc, got), wit)
    else:
        # injected fault / immutable container / exotic lookup error: must not claim success silently unless ignore_missing
        if got.ok and (not ignore or kind == 'immutable-holder-item-present'):
            col.violation('C12/impossible-deletion-succeeds:' + kind + (':ignore-missing' if ignore else ''), '%s: plain Python fails (%r), glom returned' % (desc, ref_err), wit)


def wildcard_deletes(col, rng):
    """through wildcards: deletion at EVERY match; with ignore_missing matches lacking the element are skipped, the others deleted"""
    import copy
    for _ in range(120):
        layers = rng.choice([1, 1, 2, 3])
        n = rng.randint(1, 4)
        final = rng.choice(['key', 'index', 'attr'])

        def entry():
            has = rng.random() < 0.7
            if final == 'key':
                return {'k': 1, 'o': 2} if has else {'o': 2}
            if final == 'index':
                return [1, 2, 3] if has else [1]
            return gen.PlainObj(k=1, o=2) if has else gen.PlainObj(o=2)
        if layers == 1:
            t1 = {'rows': [entry() for _ in range(n)]}
            holders = lambda t: list(t['rows'])
            base = 'rows.*'
        elif layers == 3:
            t1 = {'rows': [{'sub': [{'deep': [entry() for _ in range(rng.randint(0, 2))]} for _ in range(rng.randint(0, 2))]} for _ in range(n)]}
            holders = lambda t: [e for r in t['rows'] for x in r['sub'] for e in x['deep']]
            base = 'rows.*.sub.*.deep.*'
        else:
            t1 = {'rows': [{'sub': [entry() for _ in range(rng.randint(0, 3))]} for _ in range(n)]}
            holders = lambda t: [e for r in t['rows'] for e in r['sub']]
            base = 'rows.*.sub.*'
        t2 = copy.deepcopy(t1)
        seg = {'key': 'k', 'index': '2', 'attr': 'k'}[final]
        spelling = rng.choice(['string', 'path', 'T'])
        if spelling == 'string':
            path = base + '.' + seg
        else:
            parts = [T.__star__() if p == '*' else p for p in base.split('.')]
            if spelling == 'T':
                t = T
                for p in parts:
                    t = t.__star__() if p is not parts and not isinstance(p, str) else t[p]
                path = t[seg] if final == 'key' else t[2] if final == 'index' else getattr(t, seg)
            else:
                path = Path(*(parts + [seg if final != 'index' else 2]))
        missing_somewhere = False
        for h in holders(t2):
            try:
                if final == 'key':
                    del h['k']
                elif final == 'index':
                    del h[2]
                else:
                    del h.k
            except (KeyError, IndexError, AttributeError):
                missing_somewhere = True
        ignore = rng.random() < 0.6
        snap = snapshot(t1)
        got = call(delete, t1, path, ignore_missing=ignore)
        col.case(('wildcard', layers, final, spelling, ignore, missing_somewhere), True)
        col.count('deletions_attempted')
        desc = 'delete(%s, %s%s)' % (short(copy.deepcopy(t2) if False else '...', 10), short(path), ', ignore_missing=True' if ignore else '')
        if missing_somewhere and not ignore:
            if got.ok or not isinstance(got.exc, PathDeleteError):
                col.violation('C12/wildcard-missing-final-not-PathDeleteError', '%s with a match lacking the element: %r' % (desc, got), None)
            continue
        if not got.ok or got.value is not t1 or not isomorphic(t1, t2):
            col.violation('C12/wildcard-delete-misses-a-match:%s' % ('ignore-missing' if ignore else 'all-present'),
                          '%s: %r ; target now %s ; del at every match gives %s' % (desc, got if not got.ok else 'returned', short(t1, 300), short(t2, 300)), None)
        col.count('successful_deletions')


class AttrDict(dict):
    """dict subclass whose instances also carry attributes"""


class AttrList(list):
    """list subclass whose instances also carry attributes"""


class AttrDict2(AttrDict):
    """a subclass of a dict subclass (no registered type among its direct bases)"""


class AttrList2(AttrList):
    """a subclass of a list subclass"""


def _attr_holders():
    d = AttrDict({'x': 'item-x', 'y': 'item-y'})
    d.x, d.only_attr = 'attr-x', 'attr-only'
    l = AttrList(['e0', 'e1'])
    l.x, l.only_attr = 'attr-x', 'attr-only'
    return {'d': d, 'l': l, 'hs': [d, l]}


def _attr_state(t):
    return {k: (type(h).__name__, list(h.items()) if isinstance(h, dict) else list(h), sorted(h.__dict__.items()))
            for k, h in (('d', t['d']), ('l', t['l']))}


def attribute_vs_item_on_container_subclasses(col):
    """instances of dict / list subclasses that carry attributes as well as items: T.attr as the final step is `del obj.attr`,
    T[key] and plain path segments are `del obj[key]` - whatever the other namespace holds under the same name"""
    def expect(kind, holder, name):
        def edit(t):
            if kind == 'attr':
                delattr(t[holder], name)
            else:
                del t[holder][name]
        return edit
    cases = [
        # (description, spec factory, reference edit or None = the element is missing, class expected when missing)
        ('T.attr, same-named key exists', lambda: T['d'].x, expect('attr', 'd', 'x')),
        ('T.attr, attribute only', lambda: T['d'].only_attr, expect('attr', 'd', 'only_attr')),
        ('T.attr absent, same-named key exists', lambda: T['d'].y, None),
        ("T['key'], same-named attribute exists", lambda: T['d']['x'], expect('item', 'd', 'x')),
        ("T['key'] absent, same-named attribute exists", lambda: T['d']['only_attr'], None),
        ('plain segment on a dict subclass', lambda: 'd.x', expect('item', 'd', 'x')),
        ('Path segment on a dict subclass', lambda: Path('d', 'y'), expect('item', 'd', 'y')),
        ('T.attr on a list subclass', lambda: T['l'].x, expect('attr', 'l', 'x')),
        ('T.attr absent on a list subclass', lambda: T['l'].nope, None),
        ('T[index] on a list subclass', lambda: T['l'][0], expect('item', 'l', 0)),
        ('plain segment on a list subclass', lambda: 'l.1', expect('item', 'l', 1)),
        ('T.attr behind a star', lambda: T['hs'].__star__().x, lambda t: (delattr(t['d'], 'x'), delattr(t['l'], 'x'))),
    ]
    for desc, mk, edit in cases:
        for ignore in (False, True):
            t, twin = _attr_holders(), _attr_holders()
            if edit is not None:
                edit(twin)
            got = call(delete, t, mk(), ignore_missing=ignore)
            col.case(('attr-vs-item', desc, ignore), True)
            col.count('deletions_attempted')
            col.count('attribute_vs_item_cases')
            want = _attr_state(twin)
            if edit is None and not ignore:
                if got.ok or not isinstance(got.exc, PathDeleteError) or _attr_state(t) != want:
                    col.violation('C12/container-subclass-with-attributes:missing-not-PathDeleteError-or-modified',
                                  'delete(.., %s) [%s]: %r ; holders now %s, expected unchanged %s' % (short(mk()), desc, got, _attr_state(t), want), None)
                continue
            if not got.ok or _attr_state(t) != want:
                col.violation('C12/container-subclass-with-attributes:wrong-namespace',
                              'delete(.., %s%s) [%s]: %r ; holders now %s, plain Python gives %s'
                              % (short(mk()), ', ignore_missing=True' if ignore else '', desc, got if not got.ok else 'returned', _attr_state(t), want), None)


import collections as _coll  # noqa: E402


class _TaggedDeque(_coll.deque):
    pass


class Shelf:
    """a container class of the user's own (items AND attributes) that nobody registered: glom reads its plain segments with getattr,
    so a plain segment addresses the ATTRIBUTE - for delete exactly as for access - while T[key] addresses the item"""
    def __init__(self, label_, **items):
        self._items = dict(items)
        self.label = label_
        self.note = 'n'

    def __getitem__(self, k):
        return self._items[k]

    def __setitem__(self, k, v):
        self._items[k] = v

    def __delitem__(self, k):
        del self._items[k]


def _shelves():
    import collections
    s = Shelf('L', label='item-named-label', other='item-other')
    dq = _TaggedDeque([1, 2, 3])
    dq.label = 'dq-label'
    ud = collections.UserDict(label='ud-item')
    ud.label_attr = 'ud-attr'
    return {'s': s, 'dq': dq, 'ud': ud, 'hs': [s, Shelf('L2')]}


def _shelf_state(t):
    return {'s': (sorted(t['s']._items.items()), sorted(k for k in t['s'].__dict__ if k != '_items')),
            'dq': (list(t['dq']), sorted(t['dq'].__dict__)), 'ud': (sorted(t['ud'].data.items()), sorted(k for k in t['ud'].__dict__ if k != 'data')),
            'hs1': sorted(k for k in t['hs'][1].__dict__ if k != '_items')}


def unregistered_container_classes(col):
    import collections
    cases = [
        ('plain segment = attribute (an item of that name exists)', lambda: 's.label', lambda t: delattr(t['s'], 'label')),
        ('plain segment = attribute (no such item)', lambda: Path('s', 'note'), lambda t: delattr(t['s'], 'note')),
        ('plain segment, attribute absent but an item of that name exists', lambda: 's.other', None),
        ("T['key'] = item", lambda: T['s']['label'], lambda t: t['s'].__delitem__('label')),
        ('T.attr = attribute', lambda: T['s'].label, lambda t: delattr(t['s'], 'label')),
        ('plain segment on a deque subclass with an attribute', lambda: 'dq.label', lambda t: delattr(t['dq'], 'label')),
        ('T[index] on a deque subclass', lambda: T['dq'][0], lambda t: t['dq'].__delitem__(0)),
        ('plain segment on a UserDict: attribute', lambda: 'ud.label_attr', lambda t: delattr(t['ud'], 'label_attr')),
        ("T['key'] on a UserDict", lambda: T['ud']['label'], lambda t: t['ud'].__delitem__('label')),
        ('plain segment behind a star', lambda: 'hs.*.label', lambda t: (delattr(t['hs'][0], 'label'), delattr(t['hs'][1], 'label'))),
    ]
    for desc, mk, edit in cases:
        for ignore in (False, True):
            t, twin = _shelves(), _shelves()
            twin['hs'][0] = twin['s']
            t['hs'][0] = t['s']
            if edit is not None:
                edit(twin)
            got = call(delete, t, mk(), ignore_missing=ignore)
            col.case(('unregistered-container', desc, ignore), True)
            col.count('deletions_attempted')
            col.count('attribute_vs_item_cases')
            want = _shelf_state(twin)
            if edit is None and not ignore:
                if got.ok or not isinstance(got.exc, PathDeleteError) or _shelf_state(t) != want:
                    col.violation('C12/unregistered-container-class:missing-not-PathDeleteError-or-modified', 'delete(.., %s) [%s]: %r ; now %s, expected unchanged %s'
                                  % (short(mk()), desc, got, _shelf_state(t), want), None)
                continue
            if not got.ok or _shelf_state(t) != want:
                col.violation('C12/unregistered-container-class:wrong-namespace', 'delete(.., %s%s) [%s]: %r ; now %s, plain Python (the attribute / item that the '
                              'same path READS) gives %s' % (short(mk()), ', ignore_missing=True' if ignore else '', desc, got if not got.ok else 'returned', _shelf_state(t), want), None)


def _holders2():
    d2 = AttrDict2({'x': 'item-x', 'y': 'item-y'})
    d2.x, d2.only_attr = 'attr-x', 'attr-only'
    l2 = AttrList2(['e0', 'e1'])
    l2.x, l2.only_attr = 'attr-x', 'attr-only'
    import collections

    class Tally(collections.Counter):
        pass
    c = Tally(x=1, y=2)
    c.x = 'attr-x'
    return {'d': d2, 'l': l2, 'c': c}


def _state2(t):
    return {k: (type(h).__name__, list(h.items()) if isinstance(h, dict) else list(h), sorted(h.__dict__.items())) for k, h in t.items()}


_CASES2 = [
    # (description, path, (holder, key) deleted as an item | None = nothing there: PathDeleteError, unchanged)
    ('plain segment on a second-level dict subclass', 'd.x', ('d', 'x')),
    ('plain segment on a second-level dict subclass, attribute of that name absent', 'd.y', ('d', 'y')),
    ('plain segment naming only an attribute of a second-level dict subclass', 'd.only_attr', None),
    ('plain segment on a second-level list subclass', 'l.0', ('l', 0)),
    ('plain index past the end of a second-level list subclass', 'l.7', None),
    ('plain segment on a Counter subclass', 'c.x', ('c', 'x')),
]


def second_level_cases():
    out = []
    for desc, path, edit in _CASES2:
        t, twin = _holders2(), _holders2()
        if edit is not None:
            del twin[edit[0]][edit[1]]
        got = call(delete, t, path)
        ok = _state2(t) == _state2(twin) and (got.ok if edit is not None else (not got.ok and isinstance(got.exc, PathDeleteError)))
        out.append([desc, bool(ok), 'delete(.., %r): %r ; holders now %s, plain Python gives %s'
                    % (path, got if not got.ok else 'returned', _state2(t), _state2(twin))])
    return out


def _layout_child():
    import json
    print('RESULT ' + json.dumps({'cases': second_level_cases(), 'order': c11.registry_order('delete')}))


def second_level_container_subclasses(col, n_children):
    """subclasses of dict / list subclasses (no registered type among the direct bases) and of Counter, carrying attributes: plain
    segments delete ITEMS.  Asked here and in fresh interpreters with differently laid out heaps (the filing order of the handlers
    of the 'delete' operation follows a set of type objects, i.e. their addresses)"""
    for desc, ok, detail in second_level_cases():
        col.case(('attr-vs-item-2nd-level', desc), True)
        col.count('deletions_attempted')
        col.count('attribute_vs_item_cases')
        if not ok:
            col.violation('C12/container-subclass-with-attributes:wrong-namespace', '[%s] %s' % (desc, detail), None)
    c11.attribute_vs_item_in_fresh_processes(col, n_children, module='c12', prop='C12', counter='deletions_attempted', verb='delete')


class WithClassDefault:
    """`flag` is visible on every instance (class-level default) but is an instance attribute only after it was set"""
    flag = 'class-default'

    def __init__(self, own):
        if own:
            self.flag = 'own'


class ReadOnlyProp:
    @property
    def ro(self):
        return 1


def attributes_that_are_visible_but_not_deletable(col):
    """"missing" for a final T.attr step is what `del obj.attr` says (AttributeError), not what hasattr() says: a class-level
    default without instance attribute, a property without deleter"""
    cases = [('class-level default, no instance attribute', lambda: {'o': WithClassDefault(False)}, lambda: T['o'].flag, False),
             ('class-level default shadowed by an instance attribute', lambda: {'o': WithClassDefault(True)}, lambda: T['o'].flag, True),
             ('property without deleter', lambda: {'o': ReadOnlyProp()}, lambda: T['o'].ro, False),
             ('behind a star, second match lacks the instance attribute', lambda: {'os': [WithClassDefault(True), WithClassDefault(False), WithClassDefault(True)]},
              lambda: T['os'].__star__().flag, 'partial')]
    for desc, mk, spec, deletable in cases:
        for ignore in (False, True):
            t = mk()
            got = call(delete, t, spec(), ignore_missing=ignore)
            col.case(('visible-not-deletable', desc, ignore), True)
            col.count('deletions_attempted')
            objs = t['os'] if 'os' in t else [t['o']]
            own = ['flag' in getattr(o, '__dict__', {}) for o in objs]
            if deletable is True or (deletable == 'partial' and ignore):
                ok = got.ok and not any(own)
            elif ignore:
                ok = got.ok
            else:
                ok = not got.ok and isinstance(got.exc, PathDeleteError)
            if not ok:
                col.violation('C12/visible-but-undeletable-attribute:%s' % ('ignore-missing' if ignore else 'strict'),
                              'delete(.., %s%s) [%s]: %r ; instance attributes left: %s'
                              % (short(spec()), ', ignore_missing=True' if ignore else '', desc, got if not got.ok else 'returned', own), None)


def reused_delete_object(col, rng):
    """one Delete object applied to parents of different kinds, in every order, and one wildcard over mixed kinds"""
    import itertools
    for style in ('string', 'T-item'):
        kinds = {'dict': lambda: {'1': 'a', 'x': 0}, 'list': lambda: ['p', 'q', 'r'], 'obj': lambda: gen.PlainObj(**{'k': 1}), 'odict': lambda: __import__('collections').OrderedDict([('1', 'a')])}
        for order in itertools.permutations(['dict', 'list', 'odict'], 3):
            spec_obj = Delete('1') if style == 'string' else Delete(T['1']) if False else Delete(Path('1'))
            for kind in order:
                t = kinds[kind]()
                twin = kinds[kind]()
                if kind == 'list':
                    del twin[1]
                else:
                    del twin['1']
                got = call(G, t, spec_obj)
                col.case(('reused-delete', style, order, kind), True)
                col.count('deletions_attempted')
                if not got.ok or not isomorphic(t, twin):
                    col.violation('C12/reused-delete-object-uses-stale-handler', "one Delete('1') object applied to %s in turn: on the %s it gave %r, target %s, expected %s"
                                  % (order, kind, got if not got.ok else 'returned', short(t), short(twin)), None)
                    break
    mixed = lambda: [{'x': 1, 'y': 2}, gen.PlainObj(x=1, y=2), {'x': 3}]
    t, twin = mixed(), mixed()
    del twin[0]['x']; del twin[1].x; del twin[2]['x']
    got = call(delete, t, '*.x')
    col.count('deletions_attempted')
    if not got.ok or not isomorphic(t, twin):
        col.violation('C12/wildcard-over-mixed-kinds', "delete([dict, obj, dict], '*.x'): %r, target %s" % (got if not got.ok else 'returned', short(t)), None)


def reused_delete_with_a_computed_segment(col):
    """one Delete object whose final segment is computed (from the target, from the scope) deletes, at every use, the element THAT
    evaluation names - across calls, inside a list spec, with and without ignore_missing"""
    from glom import S
    mk_specs = [("Delete(T['d'][T['k']])", lambda **kw: Delete(T['d'][T['k']], **kw)), ("Delete(Path('d', T[T['k']]))", lambda **kw: Delete(Path('d', T[T['k']]), **kw)),
                ("Delete(T['d'][S['k']]) after S(k=T['k'])", lambda **kw: (S(k=T['k']), Delete(T['d'][S['k']], **kw))),
                ("Delete(T['lst'][T['i']])", lambda **kw: Delete(T['lst'][T['i']], **kw))]
    rows = lambda: [{'k': 'a', 'i': 0, 'd': {'a': 1, 'b': 2, 'c': 3}, 'lst': [10, 20, 30]}, {'k': 'b', 'i': 2, 'd': {'a': 1, 'b': 2, 'c': 3}, 'lst': [10, 20, 30]},
                    {'k': 'c', 'i': 1, 'd': {'a': 1, 'b': 2, 'c': 3}, 'lst': [10, 20, 30]}, {'k': 'a', 'i': 0, 'd': {'a': 1, 'b': 2, 'c': 3}, 'lst': [10, 20, 30]}]

    def py(row, name):
        if 'lst' in name:
            del row['lst'][row['i']]
        else:
            del row['d'][row['k']]
    for name, mk in mk_specs:
        for im in (False, True):
            for how in ('successive calls', 'inside a list spec'):
                spec = mk(ignore_missing=True) if im else mk()
                t, w = rows(), rows()
                for r in w:
                    py(r, name)
                if how == 'successive calls':
                    outs = [call(G, r, spec) for r in t]
                    ok = all(o.ok for o in outs)
                else:
                    outs = call(G, t, [spec])
                    ok = outs.ok
                col.case(('reused-delete-computed-segment', name, im, how), True)
                col.count('deletions_attempted', len(t))
                col.count('successful_deletions', len(t))
                if not ok or t != w:
                    col.violation('C12/reused-delete-object-keeps-an-evaluated-segment', 'one %s object%s, %s on 4 rows naming a, b, c, a / 0, 2, 1, 0: %s ; rows now %s, '
                                  'plain del gives %s' % (name, ' (ignore_missing)' if im else '', how, short(repr(outs), 200), short(t, 300), short(w, 300)), None)
    # keys of any hashable kind address their element - also instances of tuple / frozenset subclasses (a namedtuple key, ...)
    import collections
    Pt = collections.namedtuple('Pt', 'x y')

    class Pair(tuple):
        def __new__(cls, a, b):
            return tuple.__new__(cls, (a, b))

    class Tags(frozenset):
        def __new__(cls, *items):
            return frozenset.__new__(cls, items)
    for key in (Pt(1, 2), Pair('a', 'b'), Tags('u', 'v'), (1, 2), frozenset(['u'])):
        for desc, mk in (('T[key]', lambda: Delete(T['m'][key])), ('Path(.., key)', lambda: Delete(Path('m', key))), ('key names a parent', lambda: Delete(Path('m2', key, 'leaf'))),
                         ('delete() with a Path', None)):
            t = {'m': {key: 1, 'other': 2}, 'm2': {key: {'leaf': 1, 'stay': 2}}}
            w = {'m': {key: 1, 'other': 2}, 'm2': {key: {'leaf': 1, 'stay': 2}}}
            if desc == 'key names a parent':
                del w['m2'][key]['leaf']
            else:
                del w['m'][key]
            got = call(G, t, mk()) if mk else call(delete, t, Path('m', key))
            col.case(('subclass-keys', type(key).__name__, desc), True)
            col.count('deletions_attempted')
            col.count('successful_deletions')
            if not got.ok or t != w:
                col.violation('C12/key-of-a-tuple-or-frozenset-subclass-not-addressed', '%s with the key %r (%s): %r ; target now %r, plain del gives %r'
                              % (desc, key, type(key).__name__, got if not got.ok else 'returned', t, w), None)


def empty_segments_in_string_paths(col):
    """'' is a key like any other: an empty segment of a string path (leading or trailing dot, two dots in a row, the empty path) addresses
    it, exactly as Path(..., '', ...) and T[''] do"""
    import copy
    cases = [
        ("'.a'", {'': {'a': 1, 'b': 2}, 'a': 3}, '.a', Path('', 'a'), lambda t: t[''].__delitem__('a')),
        ("'a.'", {'a': {'': 1, 'x': 2}, '': 3}, 'a.', Path('a', ''), lambda t: t['a'].__delitem__('')),
        ("''", {'': 1, 'a': 2}, '', Path(''), lambda t: t.__delitem__('')),
        ("'a..b'", {'a': {'': {'b': 1, 'c': 2}, 'b': 3}}, 'a..b', Path('a', '', 'b'), lambda t: t['a'][''].__delitem__('b')),
        ("'.a' with the '' key missing", {'a': 3}, '.a', Path('', 'a'), None),
        ("'a.' with the '' key missing", {'a': {'x': 2}}, 'a.', Path('a', ''), None),
        ("'rows.*.'", {'rows': [{'': 1, 'k': 2}, {'': 3}]}, 'rows.*.', Path('rows', T.__star__(), ''), lambda t: [r.__delitem__('') for r in t['rows']]),
    ]
    for desc, target, text, path, py in cases:
        for im in (False, True):
            t_text, t_path, twin = copy.deepcopy(target), copy.deepcopy(target), copy.deepcopy(target)
            if py is not None:
                py(twin)
            got_text = call(delete, t_text, text, ignore_missing=im)
            got_path = call(delete, t_path, path, ignore_missing=im)
            col.case(('empty-segment', desc, im), True)
            col.count('deletions_attempted', 2)
            want_ok = py is not None or (im and 'with the' in desc and desc.startswith("'a.'"))
            same = got_text.ok == got_path.ok and t_text == t_path and (got_text.ok or type(got_text.exc) is type(got_path.exc))
            if not same or t_path != twin or (py is not None and not got_text.ok):
                col.violation('C12/empty-segment-of-a-string-path-does-not-address-the-empty-key', 'delete(.., %r%s): %r, target now %r ; the Path spelling %r: %r, target now %r ; '
                              'plain del gives %r' % (text, ', ignore_missing=True' if im else '', got_text if not got_text.ok else 'returned', t_text, path,
                                                      got_path if not got_path.ok else 'returned', t_path, twin), None)


class _Vault:
    """children reachable only through the get handler a Glommer registers for it (no attributes, no __getitem__)"""
    __slots__ = ('_cells',)

    def __init__(self, **cells):
        self._cells = cells


def _vault_get(v, k):
    return v._cells[k]


def delete_runs_in_the_context_of_the_call(col):
    """the parent of the addressed element is reached with everything the running call has: the registry of the Glommer the call
    goes through (a type whose children only its registered get handler reaches) and the scope (a segment taken from S)"""
    from glom import Glommer, S
    g = Glommer()
    g.register(_Vault, get=_vault_get)
    mk = lambda: {'v': _Vault(inner={'x': 1, 'y': 2}, lst=[10, 20, 30]), 'a': {'x': 1, 'y': 2}, 'b': {'x': 3}, 'keyname': 'x'}
    cases = [
        # (description, runner, spec, plain Python on a twin, expected error class when plain Python fails)
        ('Glommer, registered type on the parent path (string)', lambda t, sp: g.glom(t, sp), lambda: Delete('v.inner.x'), lambda t: t['v']._cells['inner'].__delitem__('x')),
        ('Glommer, registered type on the parent path (Path)', lambda t, sp: g.glom(t, sp), lambda: Delete(Path('v', 'lst', 1)), lambda t: t['v']._cells['lst'].__delitem__(1)),
        ('Glommer, registered type behind a star', lambda t, sp: g.glom(t, sp), lambda: Delete(Path(T.__star__(), 'inner', 'y'), ignore_missing=True), lambda t: t['v']._cells['inner'].__delitem__('y')),
        ('segment taken from the scope (S step before)', G, lambda: (S(which='a'), Delete(T[S['which']]['x'])), lambda t: t['a'].__delitem__('x')),
        ('segment taken from the caller scope', lambda t, sp: G(t, sp, scope={'which': 'b'}), lambda: Delete(T[S['which']]['x']), lambda t: t['b'].__delitem__('x')),
        ('the FINAL segment is computed from the target', G, lambda: Delete(T['a'][T['keyname']]), lambda t: t['a'].__delitem__(t['keyname'])),
        ('the final segment is computed from the scope', G, lambda: (S(which='y'), Delete(T['a'][S['which']])), lambda t: t['a'].__delitem__('y')),
        ('segment taken from the scope, inside a list spec', G, lambda: ('rows', [(S(k=T['k']), Delete(T['d'][S['k']]['x']))]), None),
    ]
    for desc, runner, mk_spec, py in cases:
        if py is None:
            t = {'rows': [{'k': 'p', 'd': {'p': {'x': 1, 'z': 0}, 'q': {'x': 2}}}, {'k': 'q', 'd': {'p': {'x': 3}, 'q': {'x': 4, 'z': 0}}}]}
            w = {'rows': [{'k': 'p', 'd': {'p': {'x': 1, 'z': 0}, 'q': {'x': 2}}}, {'k': 'q', 'd': {'p': {'x': 3}, 'q': {'x': 4, 'z': 0}}}]}
            del w['rows'][0]['d']['p']['x'], w['rows'][1]['d']['q']['x']
            read = lambda t: t
        else:
            t, w = mk(), mk()
            py(w)
            read = lambda t: {'v': t['v']._cells, 'a': t['a'], 'b': t['b'], 'n': len(t)}
        got = call(runner, t, mk_spec())
        col.case(('context-of-the-call', desc), True)
        col.count('successful_deletions')
        if not got.ok:
            col.violation('C12/delete-leaves-the-context-of-the-call:raises', '%s: %r (plain Python can do it)' % (desc, got.exc), None)
        elif read(t) != read(w):
            col.violation('C12/delete-leaves-the-context-of-the-call:effect-differs', '%s: target now %r, plain Python gives %r' % (desc, read(t), read(w)), None)


def run(ctx):
    col, rng = ctx.col, ctx.rng
    col.require('successful_deletions', 200)
    col.require('missing_final_cases', 200)
    col.require('missing_parent_cases', 200)
    col.require('faults_injected', 20)
    wildcard_deletes(col, rng)
    if ctx.shard == 0:
        attribute_vs_item_on_container_subclasses(col)
        second_level_container_subclasses(col, 24 if not ctx.thorough else 64)
        attributes_that_are_visible_but_not_deletable(col)
        unregistered_container_classes(col)
        delete_runs_in_the_context_of_the_call(col)
        reused_delete_object(col, rng)
        reused_delete_with_a_computed_segment(col)
        empty_segments_in_string_paths(col)
    for i in range(ctx.n(350, 3500)):
        one_target(col, rng)
