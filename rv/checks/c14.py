"""C14 - wildcards enumerate children / descendants once, tolerate misses, terminate.

Oracle: reference child enumeration (`star_children`) and breadth-first traversal with
expand-once-by-identity (`starstar`), later steps applied per entry with failing
entries dropped, one list level per wildcard; entries compared by identity.
Monitor: sys.monitoring PY_START on glom's child-expansion function counts logical
expansion steps; a budget derived from the graph size aborts the evaluation from
inside the callback - termination is decided on steps, never on wall-clock.
"""
import sys
from collections import OrderedDict

from .. import env, gen
from ..util import call
from ..report import short
from ..snapshot import isomorphic

glom = env.bind()
import glom.core as gcore  # noqa: E402
from glom import T, Path, PathAccessError, assign, delete, glom as G  # noqa: E402

META = {
    'level': 'exploration',
    'rule': ('random object graphs of <= 8 container nodes (dict, OrderedDict, list, tuple, set, attribute objects, generators, '
             'dicts whose element access raises for some keys, iterables raising mid-way) with random extra edges (shared nodes, '
             'back edges, self loops, edges to the root) and scalar/str leaves x paths with 0-3 wildcards (* and **) at every '
             'position among access steps that succeed on some entries only, spelled as dotted string, Path(.., T.__star__(), ..) '
             'and pure T; Assign / Delete through wildcards on graphs where every entry supports the edit. Non-trivial: a graph '
             'with sharing or a cycle, or >= 2 wildcards; distinct by (graph shape class, wildcard pattern, spelling).'),
    'assumptions': [
        'one list entry per edge (a shared child appears once per parent), expansion once per object (the root included)',
        'set iteration order is taken from iterating the same set object in the same process',
        'list/dict subclasses carrying a __dict__ are not used as graph nodes (handler choice for those is C13)',
    ],
}

TOOL = None


class Budget(Exception):
    pass


class StepCounter:
    """counts calls of glom.core._extend_children through sys.monitoring"""
    def __init__(self):
        self.count = 0
        self.limit = None
        self.ok = False
        self.missing_hook = False
        mon = getattr(sys, 'monitoring', None)
        if mon is None:
            return
        self.mon = mon
        self.tool = mon.PROFILER_ID
        try:
            mon.use_tool_id(self.tool, 'rv-c14')
        except ValueError:
            self.tool = mon.OPTIMIZER_ID
            mon.use_tool_id(self.tool, 'rv-c14')
        fn = getattr(gcore, '_extend_children', None)
        if fn is None:
            # the expansion helper this monitor hooks by name is gone (renamed / inlined): expansions cannot be counted on this tree
            self.missing_hook = True
            mon.free_tool_id(self.tool)
            return
        code = fn.__code__
        mon.register_callback(self.tool, mon.events.PY_START, self._cb)
        mon.set_local_events(self.tool, code, mon.events.PY_START)
        self.code = code
        self.ok = True

    def _cb(self, code, offset):
        if code is self.code:
            self.count += 1
            if self.limit is not None and self.count > self.limit:
                raise Budget('more than %d expansions' % self.limit)

    def close(self):
        if self.ok:
            self.mon.set_local_events(self.tool, self.code, 0)
            self.mon.register_callback(self.tool, self.mon.events.PY_START, None)
            self.mon.free_tool_id(self.tool)


class BadDict(dict):
    """element access raises for the key 'bad'"""
    __slots__ = ()

    def __getitem__(self, k):
        if k == 'bad':
            raise KeyError('bad')
        return dict.__getitem__(self, k)


class OsErrDict(dict):
    """element access raises an OSError for the key 'bad' (a failure outside the lookup-error families)"""
    __slots__ = ()

    def __getitem__(self, k):
        if k == 'bad':
            raise OSError(5, 'device not ready')
        return dict.__getitem__(self, k)


class Obj:
    def __init__(self):
        pass

    def __repr__(self):
        return 'Obj(%s)' % ', '.join(sorted(self.__dict__))


class FalsyObj(Obj):
    """an attribute object that is falsy (an empty tree node, a zero-length record): it has children all the same"""
    def __bool__(self):
        return False

    def __repr__(self):
        return 'FalsyObj(%s)' % ', '.join(sorted(self.__dict__))


class NotImplObj(Obj):
    """the attribute `bad` raises NotImplementedError"""
    @property
    def bad(self):
        raise NotImplementedError('computed lazily elsewhere')

    def __repr__(self):
        return 'NotImplObj(%s)' % ', '.join(sorted(self.__dict__))


class ZeroLenObj(Obj):
    def __len__(self):
        return 0

    def __repr__(self):
        return 'ZeroLenObj(%s)' % ', '.join(sorted(self.__dict__))


class Slot:
    __slots__ = ('a',)


class BrokenIter:
    """iterable that raises after yielding `items` (no __dict__: it is not an attribute object)"""
    __slots__ = ('items',)

    def __init__(self, items):
        self.items = items

    def __iter__(self):
        for x in self.items:
            yield x
        raise RuntimeError('iteration broke')


KEYS = ['a', 'b', 'c', 'k0', 'k1', 'bad', 'x', 'X']
LEAVES = [1, 2, 'leaf', '', None, 2.5, 'a']


# ---------------------------------------------------------------------------
# graph generation

def gen_graph(rng):
    """returns (root, nodes, n_edges, features)"""
    n = rng.randint(1, 8)
    kinds = [rng.choice(['dict', 'dict', 'odict', 'list', 'list', 'obj', 'baddict', 'falsyobj', 'zerolenobj', 'oserrdict', 'notimplobj']) for _ in range(n)]
    nodes = []
    for k in kinds:
        nodes.append({'dict': dict, 'odict': OrderedDict, 'list': list, 'obj': Obj, 'baddict': BadDict, 'falsyobj': FalsyObj,
                      'zerolenobj': ZeroLenObj, 'oserrdict': OsErrDict, 'notimplobj': NotImplObj}[k]())
    edges = 0
    feats = set()
    extra = []     # immutable / one-shot nodes built from existing ones

    def pick_child(i):
        r = rng.random()
        if r < 0.45:
            return rng.choice(LEAVES)
        if r < 0.55 and extra:
            return rng.choice(extra)
        j = rng.randrange(n)
        if j == i:
            feats.add('self-loop')
        elif j < i:
            feats.add('back-edge')
        if j == 0:
            feats.add('edge-to-root')
        return nodes[j]

    # immutable helpers that reference mutable nodes (tuples, sets of scalars, slot objects)
    for _ in range(rng.randint(0, 3)):
        c = rng.choice(['tuple', 'set', 'slot', 'str'])
        if c == 'tuple':
            extra.append(tuple(rng.choice(nodes + LEAVES) for _ in range(rng.randint(0, 3))))
        elif c == 'set':
            extra.append(set(rng.sample([1, 2, 3, 'x', 'y', (1, 2)], rng.randint(0, 3))))
        elif c == 'slot':
            s = Slot()
            s.a = rng.choice(nodes)
            extra.append(s)
        else:
            extra.append('string-node')
    seen_children = set()
    for i, node in enumerate(nodes):
        for _ in range(rng.randint(0, 4)):
            ch = pick_child(i)
            if id(ch) in seen_children and not isinstance(ch, (int, str, float, type(None))):
                feats.add('shared')
            seen_children.add(id(ch))
            edges += 1
            if isinstance(node, dict):
                key = rng.choice(KEYS)
                node[key] = ch
            elif isinstance(node, list):
                node.append(ch)
            else:
                setattr(node, rng.choice(KEYS[:5]), ch)
    total_nodes = n + len(extra)
    total_edges = edges + sum(len(e) for e in extra if isinstance(e, (tuple, set))) + 2
    return nodes[0], nodes, total_nodes, total_edges, feats


# ---------------------------------------------------------------------------
# reference semantics

def star_children(v):
    if isinstance(v, dict):
        out = []
        for k in dict.keys(v):
            try:
                out.append(v[k])
            except Exception:
                pass
        return out
    if hasattr(v, '__dict__') and not isinstance(v, type):
        out = []
        for k in list(v.__dict__.keys()):
            try:
                out.append(getattr(v, k))
            except Exception:
                pass
        return out
    if isinstance(v, (str, bytes)):
        return []
    if callable(getattr(type(v), '__iter__', None)):
        out = []
        try:
            for x in v:
                out.append(x)
        except Exception:
            pass
        return out
    return []


def starstar(v, start_counts_as_expanded=True):
    out = list(star_children(v))
    expanded = {id(v)} if start_counts_as_expanded else set()
    i = 0
    while i < len(out):
        item = out[i]
        if id(item) not in expanded:
            expanded.add(id(item))
            out.extend(star_children(item))
        i += 1
    return [v] + out


class RefMiss(Exception):
    pass


def access(cur, style, arg):
    try:
        if style == 'P':
            if isinstance(cur, dict):
                return cur[arg]
            if isinstance(cur, (list, tuple)):
                return cur[int(arg)]
            return getattr(cur, arg)
        if style == '.':
            try:
                return getattr(cur, arg)
            except AttributeError:
                raise RefMiss()
        try:
            return cur[arg]
        except (KeyError, IndexError, TypeError):
            raise RefMiss()
    except RefMiss:
        raise
    except Exception:
        if style == 'P':
            raise RefMiss()
        raise


def ref_eval(cur, steps, defect=False):
    """defect=True: model of the known wrong behaviour 'the start value of ** is expanded again when
    it is reached as its own descendant' (used only to classify a mismatch)"""
    for i, st in enumerate(steps):
        if st[0] in 'xX':
            kids = star_children(cur) if st[0] == 'x' else starstar(cur, not defect)
            out = []
            for kid in kids:
                try:
                    out.append(ref_eval(kid, steps[i + 1:], defect))
                except RefMiss:
                    pass
            return out
        cur = access(cur, st[0], st[1])
    return cur


def same_entries(got, want, levels):
    """structural comparison down to `levels` list levels, then identity"""
    if levels == 0:
        return got is want
    if type(got) is not list or type(want) is not list or len(got) != len(want):
        return False
    return all(same_entries(g, w, levels - 1) for g, w in zip(got, want))


def flat_ids(v, levels):
    if levels == 0:
        return [id(v)]
    if type(v) is not list:
        return ['?']
    out = []
    for x in v:
        out.extend(flat_ids(x, levels - 1))
    return out


# ---------------------------------------------------------------------------
# paths

def gen_steps(rng):
    n_star = rng.choice([0, 1, 1, 1, 2, 2, 3])
    n_named = rng.randint(0, 3)
    steps = [('x',) if rng.random() < 0.6 else ('X',) for _ in range(n_star)]
    for _ in range(n_named):
        seg = rng.choice(KEYS[:5] + [0, 1, 'bad'])     # ('bad': the element some nodes refuse with KeyError / OSError / NotImplementedError)
        steps.insert(rng.randint(0, len(steps)), ('seg', seg))
    return steps


def spell(steps, spelling, rng):
    """-> (spec, concrete steps with styles) or None"""
    conc = []
    if spelling == 'string':
        if not steps:
            return None
        parts = []
        for st in steps:
            if st[0] == 'x':
                parts.append('*'); conc.append(('x',))
            elif st[0] == 'X':
                parts.append('**'); conc.append(('X',))
            else:
                parts.append(str(st[1])); conc.append(('P', str(st[1])))
        return '.'.join(parts), conc
    if spelling == 'path':
        parts = []
        for st in steps:
            if st[0] == 'x':
                parts.append(T.__star__()); conc.append(('x',))
            elif st[0] == 'X':
                parts.append(T.__starstar__()); conc.append(('X',))
            else:
                parts.append(st[1]); conc.append(('P', st[1]))
        return Path(*parts), conc
    t = T
    for st in steps:
        if st[0] == 'x':
            t = t.__star__(); conc.append(('x',))
        elif st[0] == 'X':
            t = t.__starstar__(); conc.append(('X',))
        elif isinstance(st[1], str) and rng.random() < 0.5:
            t = getattr(t, st[1]); conc.append(('.', st[1]))
        else:
            t = t[st[1]]; conc.append(('[', st[1]))
    return t, conc


def eval_case(col, counter, rng):
    root, nodes, n_nodes, n_edges, feats = gen_graph(rng)
    steps = gen_steps(rng)
    n_star = sum(1 for s in steps if s[0] in 'xX')
    spelling = rng.choice(['string', 'path', 'T'])
    sp = spell(steps, spelling, rng)
    if sp is None:
        spelling = 'path'
        sp = spell(steps, spelling, rng)
    spec, conc = sp
    pattern = ''.join('*' if s[0] == 'x' else '**' if s[0] == 'X' else 's' for s in steps)
    gclass = tuple(sorted(feats))
    col.case((gclass, pattern, spelling), bool(feats) or n_star >= 2)
    try:
        want = ('ok', ref_eval(root, conc))
    except RefMiss:
        want = ('miss', None)
    except RecursionError:
        return
    except Exception:
        # (a T-style step met an element whose access raises something that is not a lookup error: it propagates, in glom too;
        # what that looks like belongs to C04)
        col.count('cases_with_a_propagating_non_lookup_error')
        return
    counter.count = 0
    counter.limit = 10 * (n_nodes + n_edges + 2) ** max(n_star, 1) + 100
    got = call(G, root, spec)
    counter.limit = None
    col.count('expansions_counted', counter.count)
    col.count('wildcard_evaluations')
    wit = {'spec': short(spec), 'graph': short(root, 300), 'features': list(gclass)}
    if col.want_sample('wild:' + spelling):
        col.sample({'spec': short(spec), 'graph': short(root, 200), 'features': list(gclass),
                    'entries_expected': len(flat_ids(want[1], n_star)) if want[0] == 'ok' else 'PathAccessError',
                    'expansions': counter.count}, 'wild:' + spelling)
    if not got.ok and isinstance(got.exc, Budget):
        col.violation('C14/does-not-terminate-within-step-budget:' + pattern,
                      '%s on a graph of %d nodes / %d edges (%s): %s' % (short(spec), n_nodes, n_edges, gclass, got.exc), wit)
        return
    if want[0] == 'miss':
        if got.ok or not isinstance(got.exc, PathAccessError):
            col.violation('C14/miss-before-wildcard', '%s: a step before the first wildcard fails, glom gave %r' % (short(spec), got), wit)
        return
    if not got.ok:
        col.violation('C14/wildcard-raises:' + pattern, '%s on %s raised %r (reference: %d entries)'
                      % (short(spec), short(root), got.exc, len(flat_ids(want[1], n_star))), wit)
        return
    if not same_entries(got.value, want[1], n_star):
        gi, wi = flat_ids(got.value, n_star), flat_ids(want[1], n_star)
        try:
            alt = ref_eval(root, conc, defect=True)
        except Exception:
            alt = None
        if '**' in pattern and alt is not None and same_entries(got.value, alt, n_star):
            mech = 'C14/starstar-expands-its-start-value-twice'
        else:
            mech = 'C14/entries-differ:' + ('starstar' if '**' in pattern else 'star')
        col.violation(mech, '%s on %s (%s): reference has %d entries, glom %d (nesting %d)%s'
                      % (short(spec), short(root, 400), gclass, len(wi), len(gi), n_star,
                         '; same multiset of objects' if sorted(map(str, gi)) == sorted(map(str, wi)) else ''), wit)


def special_iterables(col, counter):
    """generators, broken iterables, sets, strings, slot objects as current value of a wildcard"""
    def gen3():
        yield 'g1'
        yield 'g2'
    cases = [
        ('generator', lambda: gen3(), 2), ('broken-iter', lambda: BrokenIter(['b1', 'b2']), 2), ('string', lambda: 'abc', 0),
        ('bytes', lambda: b'ab', 0), ('int', lambda: 5, 0), ('none', lambda: None, 0), ('slot', lambda: Slot(), 0),
        ('empty-dict', lambda: {}, 0), ('set', lambda: {3}, 1), ('tuple', lambda: (1, 2), 2), ('range', lambda: range(3), 3),
        ('baddict', lambda: BadDict(a=1, bad=2, c=3), 2), ('odict', lambda: OrderedDict([('z', 1), ('a', 2)]), 2),
    ]
    for name, mk, n in cases:
        for spec, desc in ((T.__star__(), 'T.*'), ('*', "'*'"), (Path(T.__star__()), 'Path(*)')):
            got = call(G, mk(), spec)
            col.case(('special', name, desc), True)
            col.count('wildcard_evaluations')
            if not got.ok or type(got.value) is not list or len(got.value) != n:
                col.violation('C14/star-children:' + name, '%s on a %s: %r, expected %d entries' % (desc, name, got, n), None)
        got = call(G, {'w': mk()}, 'w.**')
        col.count('wildcard_evaluations')
        if not got.ok or len(got.value) != n + 1:
            col.violation('C14/starstar-children:' + name, "'w.**' with a %s: %r, expected %d entries" % (name, got, n + 1), None)
    # order of a set is whatever iterating it gives; mapping values in key order
    od = OrderedDict([('z', 'Z'), ('a', 'A'), ('m', 'M')])
    got = call(G, od, '*')
    if not got.ok or got.value != ['Z', 'A', 'M']:
        col.violation('C14/star-order', "'*' on %r gave %r" % (od, got), None)


class FreshTree:
    """a tree whose children do not exist until they are asked for: every iteration builds new child objects (a lazily loaded
    hierarchy, a DOM wrapper, a Box-style view)"""
    __slots__ = ('label', 'depth', 'width')

    def __init__(self, label, depth, width):
        self.label, self.depth, self.width = label, depth, width

    def __iter__(self):
        if self.depth <= 0:
            return iter(())
        return iter([FreshTree(self.label + (i,), self.depth - 1, self.width) for i in range(self.width)])


class FreshDict(dict):
    """a mapping that wraps nested dicts in a new view object on every access (attribute-style dict wrappers do this)"""
    def __getitem__(self, k):
        v = dict.__getitem__(self, k)
        return FreshDict(v) if type(v) is dict else v

    def values(self):
        return [self[k] for k in self]

    def keys(self):
        return list(dict.keys(self))


def children_created_on_access(col, counter):
    """targets that build their children when asked (each access yields NEW objects): ** reaches every descendant once, also when more
    steps follow the wildcard - an object that exists only while it is being visited must not be confused with a later one"""
    def bfs_labels(depth, width):
        out, level = [()], [()]
        for _ in range(depth):
            level = [lab + (i,) for lab in level for i in range(width)]
            out.extend(level)
        return out
    for depth, width in ((2, 2), (3, 3), (4, 3), (5, 2), (3, 5)):
        want = bfs_labels(depth, width)
        for desc, spec in (('T.**.label', T.__starstar__().label), ("'**.label'", '**.label'), ('Path(**, label)', Path(T.__starstar__(), 'label')),
                           ('T.**.label[:2]', T.__starstar__().label[:2]), ("'**' then labels", ('**', [T.label]))):
            got = counter.run(G, FreshTree((), depth, width), spec) if hasattr(counter, 'run') else call(G, FreshTree((), depth, width), spec)
            col.case(('fresh-children', 'tree', depth, width, desc), True)
            col.count('wildcard_evaluations')
            col.count('walks_over_children_created_on_access')
            w = [lab[:2] for lab in want] if '[:2]' in desc else want
            if not got.ok or list(got.value) != w:
                n = len(got.value) if got.ok and hasattr(got.value, '__len__') else None
                col.violation('C14/starstar-misses-descendants-created-on-access', '%s over a tree of depth %d, width %d whose nodes are created by '
                              'iteration: %s of %d descendants reached (%s)' % (desc, depth, width, n, len(want), short(got, 160)), None)
    for n in (3, 6):
        data = {'k%d' % i: {'j%d' % j: {'leaf': (i, j), 'sub': {'leaf': ('s', i, j)}} for j in range(n)} for i in range(n)}
        want = [v['leaf'] for v in _plain_bfs(data) if isinstance(v, dict) and 'leaf' in v]
        for desc, spec in (("'**.leaf'", '**.leaf'), ('T.**[leaf]', T.__starstar__()['leaf'])):
            got = call(G, FreshDict(data), spec)
            col.case(('fresh-children', 'dict', n, desc), True)
            col.count('wildcard_evaluations')
            col.count('walks_over_children_created_on_access')
            if not got.ok or got.value != want:
                col.violation('C14/starstar-misses-descendants-created-on-access', '%s over a mapping that wraps its nested dicts anew on every access: '
                              '%s of %d leaves (%s)' % (desc, len(got.value) if got.ok else None, len(want), short(got, 160)), None)


def _plain_bfs(v):
    out, queue = [], [v]
    while queue:
        cur = queue.pop(0)
        out.append(cur)
        if isinstance(cur, dict):
            queue.extend(cur.values())
    return out


class _Rows(list):
    """a list subclass of the everyday kind (instances have a __dict__)"""


class _Pair(tuple):
    pass


def sequence_subclasses_are_walked_by_their_items(col):
    """"one entry per child (... sequence or iterable items ...)": an instance of a list / tuple SUBCLASS is a sequence, its children
    are its items - for *, for **, for the steps that follow, and for Assign / Delete through the wildcard - exactly as for the
    plain list / tuple holding the same items"""
    from glom import assign, delete
    import collections
    NT = collections.namedtuple('NT', 'x y')
    mk = {'list-subclass': lambda items: _Rows(items), 'tuple-subclass': lambda items: _Pair(items), 'namedtuple': lambda items: NT(*items[:2]),
          'list-subclass-with-an-attribute': lambda items: _with_attr(_Rows(items))}
    for kind, wrap in mk.items():
        items = [{'k': 1, 's': [10]}, {'k': 2, 's': [20, 21]}]
        plain = list(items) if 'list' in kind else tuple(items)
        for desc, spec in (("'*'", '*'), ('T.*', T.__star__()), ("'*.k'", '*.k'), ("'**.k'", '**.k'), ("'*.s.*'", '*.s.*'), ("'rows.*.k' below a dict", None)):
            if spec is None:
                got, want = call(G, {'rows': wrap(items)}, 'rows.*.k'), call(G, {'rows': plain}, 'rows.*.k')
            else:
                got, want = call(G, wrap(items), spec), call(G, plain, spec)
            col.case(('sequence-subclass', kind, desc), True)
            col.count('wildcard_evaluations')
            col.count('walks_over_sequence_subclass_instances')
            if got.ok != want.ok or (got.ok and got.value != want.value):
                col.violation('C14/sequence-subclass-instance-not-walked-by-its-items:' + kind, '%s on a %s holding %r: %r ; on the plain sequence: %r'
                              % (desc, kind, items, got, want), None)
        if kind != 'namedtuple' and 'tuple' not in kind:
            t = {'rows': wrap([{'k': 1}, {'k': 2}])}
            got = call(assign, t, 'rows.*.k', 9)
            col.count('wildcard_mutations')
            if not got.ok or [r['k'] for r in t['rows']] != [9, 9]:
                col.violation('C14/sequence-subclass-instance-not-walked-by-its-items:assign', "assign(.., 'rows.*.k', 9) over a %s: %r ; rows now %r" % (kind, got, list(t['rows'])), None)
            got = call(delete, t, 'rows.*.k')
            col.count('wildcard_mutations')
            if not got.ok or any('k' in r for r in t['rows']):
                col.violation('C14/sequence-subclass-instance-not-walked-by-its-items:delete', "delete(.., 'rows.*.k') over a %s: %r ; rows now %r" % (kind, got, list(t['rows'])), None)


class _TagSet(set):
    pass


class _FrozenTags(frozenset):
    pass


class _Queue(__import__('collections').deque):
    pass


def iterable_subclasses_are_walked_by_their_items(col):
    """the same for instances of subclasses of the other builtin iterables - set, frozenset, deque: their children are their items, as for
    the plain set / frozenset / deque holding the same items"""
    import collections
    for kind, wrap, plain in (('set-subclass', _TagSet, set), ('frozenset-subclass', _FrozenTags, frozenset), ('deque-subclass', _Queue, collections.deque)):
        items = [3] if 'set' in kind else [{'k': 1}, {'k': 2}]
        for desc, spec in (("'*'", '*'), ('T.*', T.__star__()), ("'**'", '**'), ("'v.*' below a dict", None)):
            if spec is None:
                got, want = call(G, {'v': wrap(items)}, 'v.*'), call(G, {'v': plain(items)}, 'v.*')
            else:
                got, want = call(G, wrap(items), spec), call(G, plain(items), spec)
            col.case(('iterable-subclass', kind, desc), True)
            col.count('wildcard_evaluations')
            if got.ok != want.ok or (got.ok and repr(got.value).replace(wrap.__name__, plain.__name__) != repr(want.value)):
                col.violation('C14/iterable-subclass-instance-with-a-dict-not-walked-by-its-items', '%s on a %s holding %r: %r ; on the plain %s: %r'
                              % (desc, kind, items, got, plain.__name__, want), None)


def _with_attr(obj):
    obj.label = 'an attribute next to the items'
    return obj


def mutate_case(col, rng):
    """Assign / Delete through wildcards act on every entry"""
    def build():
        r = rng.random
        st = rng.getstate()
        return st
    state = rng.getstate()

    def mk():
        import random
        r = random.Random()
        r.setstate(state)
        kind = r.choice(['dict-of-dicts', 'list-of-dicts', 'list-of-objs', 'deep'])
        n = r.randint(0, 4)
        def entry():
            if kind == 'list-of-objs':
                return gen.PlainObj(k=r.randint(0, 9), other='o')
            d = {'k': r.randint(0, 9), 'other': 'o'}
            if kind == 'deep':
                return {'sub': [dict(d), dict(d, k=r.randint(10, 19))], 'k': 0}
            return d
        entries = [entry() for _ in range(n)]
        if kind == 'dict-of-dicts':
            return kind, {'a': OrderedDict(('e%d' % i, e) for i, e in enumerate(entries))}
        return kind, {'a': entries}
    for _ in range(40):
        rng.random()
    kind, t1 = mk()
    _, t2 = mk()
    # the name of the key in front of the wildcard: ordinary, or one of the letters glom uses internally as the op codes
    # of * and ** ('x', 'X') - a key is a key
    top = rng.choice(['a', 'a', 'x', 'X'])
    t1, t2 = {top: t1['a']}, {top: t2['a']}
    if kind == 'deep':
        path_s, levels = top + '.*.sub.*.k', 2
        parents = lambda t: [d for e in t[top] for d in e['sub']]
    else:
        path_s, levels = top + '.*.k', 1
        parents = lambda t: list(t[top].values()) if isinstance(t[top], dict) else list(t[top])
    spelling = rng.choice(['string', 'path', 'T'])
    if spelling == 'string':
        spec_path = path_s
    elif spelling == 'path':
        spec_path = Path(*[T.__star__() if p == '*' else p for p in path_s.split('.')])
    else:
        t = T
        for p in path_s.split('.'):
            t = t.__star__() if p == '*' else (getattr(t, p) if kind == 'list-of-objs' and p == 'k' else t[p])
        spec_path = t
    op = rng.choice(['assign', 'delete', 'delete-ignore'])
    col.case(('mutate', kind, op, spelling, top), True)
    col.count('wildcard_mutations')
    if op == 'assign':
        got = call(assign, t1, spec_path, 'NEW')
        for p in parents(t2):
            if isinstance(p, dict):
                p['k'] = 'NEW'
            else:
                p.k = 'NEW'
    else:
        # some entries lack the key when ignore_missing is set
        if op == 'delete-ignore':
            for t in (t1, t2):
                ps = parents(t)
                if ps:
                    p = ps[0]
                    if isinstance(p, dict):
                        p.pop('k', None)
                    else:
                        del p.k
        got = call(delete, t1, spec_path, ignore_missing=(op == 'delete-ignore'))
        for p in parents(t2):
            if isinstance(p, dict):
                p.pop('k', None)
            elif hasattr(p, 'k'):
                del p.k
    wit = {'op': op, 'path': short(spec_path), 'kind': kind}
    if not got.ok:
        col.violation('C14/wildcard-%s-raises' % op, '%s(%s) on %s raised %r' % (op, short(spec_path), kind, got.exc), wit)
    elif got.value is not t1:
        col.violation('C14/wildcard-%s-returns-other-object' % op, '%s(%s) did not return the target' % (op, short(spec_path)), wit)
    elif not isomorphic(t1, t2):
        col.violation('C14/wildcard-%s-misses-an-entry' % op, '%s(%s) on %s: target %s, plain Python %s'
                      % (op, short(spec_path), kind, short(t1, 300), short(t2, 300)), wit)


def after_path_cache_overflow(col, rng):
    """string-spelled wildcards whose text is parsed for the first time AFTER the text->Path memo has filled up (more than
    Path._MAX_CACHE distinct path strings earlier in the process) mean what they always mean"""
    filler = {'k': 1}
    base = rng.randint(0, 10 ** 6)
    for i in range(gcore.Path._MAX_CACHE + 60):
        call(G, filler, 'ovf%d_%d.k' % (base, i), default=None)
    col.count('path_cache_overflows')
    for i in range(30):
        name = 'fresh%d_%d' % (base, i)
        rows = lambda: {name: [{'k': 1, 'o': 2}, {'k': 3}, {'o': 4}]}
        for desc, spec, want in (('read *', name + '.*.k', [1, 3]), ('read **', name + '.**.k', [1, 3]),
                                 ('read * then more', name + '.*', rows()[name])):
            got = call(G, rows(), spec)
            col.case(('after-overflow', desc), True)
            col.count('wildcard_evaluations')
            if not got.ok or got.value != want:
                col.violation('C14/string-wildcard-after-path-cache-overflow:' + desc.split()[0],
                              'glom(.., %r) parsed after the path memo filled up: %r, expected %r' % (spec, got, want), None)
                return
        t = rows()
        got = call(assign, t, name + '.*.new', 'V')
        col.count('wildcard_mutations')
        if not got.ok or [r.get('new') for r in t[name]] != ['V', 'V', 'V']:
            col.violation('C14/string-wildcard-after-path-cache-overflow:assign', 'assign(.., %r, ..) after overflow: %r, target %s'
                          % (name + '.*.new', got if not got.ok else 'returned', short(t)), None)
            return
        t = rows()
        got = call(delete, t, name + '.*.k', ignore_missing=True)
        col.count('wildcard_mutations')
        if not got.ok or any('k' in r for r in t[name]):
            col.violation('C14/string-wildcard-after-path-cache-overflow:delete', 'delete(.., %r, ignore_missing=True) after overflow: %r, target %s'
                          % (name + '.*.k', got if not got.ok else 'returned', short(t)), None)
            return


class _Walked:
    __slots__ = ('items',)

    def __init__(self, items):
        self.items = items


def wildcards_follow_the_registry_in_force(col):
    """how * / ** walk an object is decided by the registry the call runs on, at the time of the call: a type first met
    while unregistered, then registered; two Glommers that walk one class differently; a registration on the module-level
    registry after a wildcard already met the type"""
    from glom import Glommer
    import glom as glom_pkg
    w = lambda: {'w': _Walked(['p', 'q'])}
    first = call(G, w(), 'w.*')                                  # unregistered slots object: nothing below it
    g1 = Glommer(); g1.register(_Walked, iterate=lambda o: iter(o.items))
    g2 = Glommer(); g2.register(_Walked, iterate=lambda o: iter([x.upper() for x in o.items]))
    seq = [('plain glom before any registration', first, []), ('Glommer #1 (iterate registered)', call(g1.glom, w(), 'w.*'), ['p', 'q']),
           ('Glommer #2 (another iterate)', call(g2.glom, w(), 'w.*'), ['P', 'Q']), ('Glommer #1 again', call(g1.glom, w(), 'w.**'), None),
           ('plain glom again', call(G, w(), 'w.*'), [])]
    for desc, got, want in seq:
        col.case(('registry-in-force', desc), True)
        col.count('wildcard_evaluations')
        if want is not None and (not got.ok or got.value != want):
            col.violation('C14/wildcard-ignores-the-registry-in-force', "%s: 'w.*' over a registered-by-some class gave %r, expected %r" % (desc, got, want), None)
            return
    glom_pkg.register(_Walked, iterate=lambda o: iter(o.items))
    got = call(G, w(), 'w.*')
    col.count('wildcard_evaluations')
    if not got.ok or got.value != ['p', 'q']:
        col.violation('C14/wildcard-ignores-the-registry-in-force', "after glom.register(_Walked, iterate=..): 'w.*' gave %r, expected ['p', 'q']" % (got,), None)


class _Tree:
    __slots__ = ('name', 'kids')

    def __init__(self, name, *kids):
        self.name, self.kids = name, list(kids)

    def __repr__(self):
        return '<%s>' % self.name


class _Rec:
    def __init__(self, **fields):
        self.fields = fields
        self.noise = 'an attribute that is not a field'


def registered_walks_at_every_depth(col):
    """a type whose walking is registered on a Glommer only is walked that way wherever '**' meets it - at the start value, one level
    down, three levels down, mixed with plain containers - and chained '*' agree with it"""
    from glom import Glommer
    g = Glommer()
    g.register(_Tree, iterate=lambda t: iter(t.kids))
    g.register(_Rec, keys=lambda r: list(r.fields), get=lambda r, k: r.fields[k], iterate=False)
    leafs = [_Tree('l%d' % i) for i in range(6)]
    t = _Tree('r', _Tree('a', _Tree('a1', leafs[0], leafs[1]), leafs[2]), _Tree('b', _Tree('b1', _Tree('b2', leafs[3]))), leafs[4])

    def bfs(root):
        out, queue = [], [root]
        while queue:
            n = queue.pop(0)
            out.append(n)
            if isinstance(n, _Tree):
                queue.extend(n.kids)
            elif isinstance(n, _Rec):
                queue.extend(n.fields.values())
            elif isinstance(n, dict):
                queue.extend(n.values())
            elif isinstance(n, (list, tuple)):
                queue.extend(n)
        return out
    rec = _Rec(conf=_Rec(x=1, deeper=_Rec(conf=_Rec(x=2))), other={'conf': _Rec(x=3)})
    mixed = {'top': [t, {'in': _Tree('m', _Tree('m1', {'k': _Tree('m2', leafs[5])}))}], 'rec': rec}
    cases = [('tree at the start value', t, '**', bfs(t)), ('tree below a dict', {'root': t}, 'root.**', bfs(t)), ('trees inside plain containers', mixed, '**', bfs(mixed)),
             ('names of all nodes', t, '**.name', [n.name for n in bfs(t)]), ('chained stars, three levels', t, '*.*.*', [[list(b.kids) for b in a.kids] for a in t.kids]),
             ('registered keys/get at depth', rec, '**', bfs(rec)), ('registered get below the walk', rec, '**.conf.x', [1, 3, 2]),
             ('T spelling', mixed, T.__starstar__(), bfs(mixed)), ('Path spelling', {'root': t}, Path('root', T.__starstar__(), 'name'), [n.name for n in bfs(t)])]
    for desc, target, spec, want in cases:
        got = call(g.glom, target, spec)
        col.case(('registered-walk-at-depth', desc), True)
        col.count('wildcard_evaluations')
        def same(a, b):
            if type(a) is list and type(b) is list:
                return len(a) == len(b) and all(same(x, y) for x, y in zip(a, b))
            return a is b or (type(a) in (int, str) and a == b)
        ok = got.ok and same(got.value, want)
        if not ok:
            col.violation('C14/wildcard-ignores-the-registry-in-force:below-the-first-level', '%s: Glommer.glom(.., %s) gave %s ; walking every value the way the '
                          'Glommer has registered for its type gives %s' % (desc, short(spec), short(repr(got), 300), short(repr(want), 300)), None)
    # ... and the mutations that go through the same enumeration
    from glom import Assign, Delete
    t2 = _Tree('r', _Tree('a', _Tree('a1')), _Tree('b'))
    marks = {}
    g.register(_Tree, iterate=lambda t: iter(t.kids), assign=lambda o, k, v: marks.__setitem__((o.name, k), v), delete=lambda o, k: marks.pop((o.name, k)))
    got = call(g.glom, t2, Assign('**.mark', 1))
    col.count('wildcard_evaluations')
    if not got.ok or marks != {(n, 'mark'): 1 for n in ('r', 'a', 'a1', 'b')}:
        col.violation('C14/wildcard-ignores-the-registry-in-force:below-the-first-level', "Assign('**.mark', 1) through the Glommer: %r, marked %r" % (got if not got.ok else 'returned', sorted(marks)), None)
    got = call(g.glom, t2, Delete('**.mark'))
    col.count('wildcard_evaluations')
    if not got.ok or marks:
        col.violation('C14/wildcard-ignores-the-registry-in-force:below-the-first-level', "Delete('**.mark') through the Glommer: %r, still marked %r" % (got if not got.ok else 'returned', sorted(marks)), None)


def nested_paths_and_container_arguments_after_wildcards(col):
    """(1) the Path spelling includes Paths built from Paths: a Path holding wildcard steps, given as a later part of another Path, keeps
    them.  (2) "steps after a wildcard are applied to each entry independently": a step whose argument is a list / dict / tuple literal
    (with T leaves or empty) gives every entry what the same step gives that entry alone"""
    from glom import Assign, Delete
    import copy
    target = {'a': [{'k': 1}, {'k': 2}], 'b': {'x': {'k': 3}, 'y': [{'k': 4}]}}
    star_k, starstar_k = Path(T.__star__(), 'k'), Path(T.__starstar__(), 'k')
    reads = [
        ("Path(Path('a'), Path.from_text('*.k'))", lambda: Path(Path('a'), Path.from_text('*.k')), [1, 2]),
        ("Path('a', Path(T.*, 'k'))", lambda: Path('a', star_k), [1, 2]), ("Path(Path('b'), Path(T.**, 'k'))", lambda: Path(Path('b'), starstar_k), [3, 4]),
        ("Path('b', Path.from_text('**'), 'k')", lambda: Path('b', Path.from_text('**'), 'k'), [3, 4]), ("Path(Path(Path('a'), Path(T.*)), 'k')", lambda: Path(Path(Path('a'), Path(T.__star__())), 'k'), [1, 2]),
        ("Path('a', Path(T.*), Path('k'))", lambda: Path('a', Path(T.__star__()), Path('k')), [1, 2]),
    ]
    for desc, mk, want in reads:
        got = call(G, copy.deepcopy(target), mk())
        col.case(('nested-path-spelling', desc), True)
        col.count('wildcard_evaluations')
        if not (got.ok and got.value == want):
            col.violation('C14/wildcard-step-lost-in-a-nested-path', 'glom(.., %s): %r, expected %r' % (desc, got, want), None)
    t = copy.deepcopy(target)
    got = call(G, t, Assign(Path('a', star_k), 9))
    col.count('wildcard_mutations')
    if not got.ok or [r['k'] for r in t['a']] != [9, 9]:
        col.violation('C14/wildcard-step-lost-in-a-nested-path', "Assign(Path('a', Path(T.*, 'k')), 9): %r ; rows now %r" % (got if not got.ok else 'returned', t['a']), None)
    got = call(G, t, Delete(Path(Path('a'), Path.from_text('*.k'))))
    col.count('wildcard_mutations')
    if not got.ok or any('k' in r for r in t['a']):
        col.violation('C14/wildcard-step-lost-in-a-nested-path', "Delete(Path(Path('a'), Path.from_text('*.k'))): %r ; rows now %r" % (got if not got.ok else 'returned', t['a']), None)

    rows = lambda: [{'k': 1, 'tags': ['x']}, {'k': 2}, {'z': 0}, {'k': 3}]
    steps = [
        ("get('missing', [T['k']])", lambda t: t.get('missing', [T['k']])), ("get('missing', {'v': T['k']})", lambda t: t.get('missing', {'v': T['k']})),
        ("get('missing', (T['k'], [T['k']]))", lambda t: t.get('missing', (T['k'], [T['k']]))), ("setdefault('tags', [])", lambda t: t.setdefault('tags', [])),
        ("get('missing', [])", lambda t: t.get('missing', [])), ("get('missing', {})", lambda t: t.get('missing', {})),
        ("get('missing', [[T['k']], {'n': [T['k']]}])", lambda t: t.get('missing', [[T['k']], {'n': [T['k']]}])),
    ]
    for desc, step in steps:
        for wname, wild, entries_of in (('*', lambda: T.__star__(), lambda t: list(t)), ("['rows'].*", lambda: T['rows'].__star__(), lambda t: list(t))):
            t1, t2 = rows(), rows()
            got = call(G, t1 if wname == '*' else {'rows': t1}, step(wild()))
            alone = [call(G, e, step(T)) for e in entries_of(t2)]
            want = [o.value for o in alone if o.ok]
            col.case(('container-argument-after-wildcard', desc, wname), True)
            col.count('wildcard_evaluations')
            ok = got.ok and got.value == want
            if ok and 'setdefault' in desc or ok and desc.endswith('[])') or ok and desc.endswith('{})'):
                # separate entries get separate containers
                fresh = [x for x in got.value if isinstance(x, (list, dict)) and not x]
                ok = len({id(x) for x in fresh}) == len(fresh)
            if not ok:
                col.violation('C14/entries-after-a-wildcard-not-independent:container-argument', 'T.%s.%s over %r: %r ; the step applied to each entry alone gives %r'
                              % (wname, desc, rows(), got, want), None)


def wildcard_mutation_over_mixed_kinds(col):
    """Assign / Delete through a wildcard act on EVERY entry with the operation of that entry's own kind (dict item, attribute,
    integer-coerced list index), in string, Path and T spelling"""
    def mixed():
        o = Obj(); o.k = 1; o.other = 2
        return {'rows': [{'k': 1, 'other': 2}, o, {'k': 3}]}

    def state(t):
        return [dict(r) if isinstance(r, dict) else dict(r.__dict__) for r in t['rows']]
    for spelling, path in (('string', 'rows.*.k'), ('path', Path('rows', T.__star__(), 'k'))):
        for op in ('delete', 'delete-ignore', 'assign'):
            t = mixed()
            if op == 'assign':
                got, want = call(assign, t, path, 'NEW'), [{'k': 'NEW', 'other': 2}, {'k': 'NEW', 'other': 2}, {'k': 'NEW'}]
            else:
                got, want = call(delete, t, path, ignore_missing=(op == 'delete-ignore')), [{'other': 2}, {'other': 2}, {}]
            col.case(('mixed-kinds', spelling, op), True)
            col.count('wildcard_mutations')
            if not got.ok or state(t) != want:
                col.violation('C14/wildcard-%s-over-mixed-kinds' % op.split('-')[0], '%s(.., %s) over [dict, object, dict]: %r ; rows now %s, expected %s'
                              % (op, short(path), got if not got.ok else 'returned', state(t), want), None)
    # a list and a dict addressed by the same digit segment
    t = {'rows': [['a', 'b'], {'0': 'zero', '1': 'one'}]}
    got = call(delete, t, 'rows.*.0')
    col.count('wildcard_mutations')
    if not got.ok or t != {'rows': [['b'], {'1': 'one'}]}:
        col.violation('C14/wildcard-delete-over-mixed-kinds', "delete(.., 'rows.*.0') over [list, dict]: %r ; now %r" % (got if not got.ok else 'returned', t), None)


def run(ctx):
    col, rng = ctx.col, ctx.rng
    counter = StepCounter()
    if not counter.ok and not counter.missing_hook:
        col.fail_inconclusive('sys.monitoring unavailable: expansion steps cannot be counted')
        return
    if counter.missing_hook:
        # the termination part (logical step budget) is inconclusive; the entry-by-entry comparisons need no hook and still run
        col.fail_inconclusive('glom.core._extend_children, which the step counter hooks, does not exist on this tree')
    else:
        col.require('expansions_counted', 1000)
    col.require('wildcard_evaluations', 1000)
    col.require('wildcard_mutations', 100)
    try:
        if ctx.shard == 0:
            special_iterables(col, counter)
            children_created_on_access(col, counter)
            sequence_subclasses_are_walked_by_their_items(col)
            iterable_subclasses_are_walked_by_their_items(col)
        for i in range(ctx.n(25000, 100000)):
            eval_case(col, counter, rng)
        for i in range(ctx.n(2500, 10000)):
            mutate_case(col, rng)
        if ctx.shard == 0:
            registered_walks_at_every_depth(col)
            nested_paths_and_container_arguments_after_wildcards(col)
            wildcards_follow_the_registry_in_force(col)
            wildcard_mutation_over_mixed_kinds(col)
            after_path_cache_overflow(col, rng)
            col.require('path_cache_overflows', 1)
    finally:
        counter.close()
