"""C05 - error messages carry a faithful target-spec trace down to the failing spec.
(fault enumeration)

Ground truth: the EXECUTED evaluation tree recorded by EvalTracer (wrapper around the
recursion function): which frames were open when the error was raised (`anc`), the
target each received, which frames exited by raising, and which of those lie inside a
frame that returned a value (recovered branches, "stale").
The message is parsed into (depth, marker, kind, text) lines and checked against that
tree: header, root target first, ancestors in order down to the failing spec, the target
the failing spec actually received, the original error last, every attempted branch of a
branching ancestor with the error that ended it, no error line from a recovered branch,
and no spec / target line that was never evaluated.  Rendering is compared
truncation-aware (a truncated line must be a prefix of the full repr).
Widths: the workload runs in child processes with ROWS/COLUMNS set so that the trace
width fixed at import is 50, 78 and 108.
"""
import re
from collections import OrderedDict
import sys
import json
import traceback
import subprocess

from .. import env
from ..util import call
from ..report import short, Collector
from ..monitors import EvalTracer

glom = env.bind()
import glom.core as gcore  # noqa: E402
from glom import (T, Path, Not, Flatten, Coalesce, Or, And, Switch, Match, Check, Val, Pipe, Spec, M, GlomError, Fill, Auto, Required, Optional,  # noqa: E402
                  glom as G)

META = {
    'level': 'fault_enumeration',
    'rule': ('spec shapes: linear nestings (dict in tuple in list ..., depth <= 6), chains, branching specs (Coalesce, Or, Switch, '
             'Match-list alternatives) inside chains inside branches (branching depth <= 3), with recovered branches before the failure '
             '(as earlier chain step, as dict sibling, as list element); one failure planted at every leaf position in turn, of each kind '
             '(missing path segment, failing T step, raising callable, type mismatch in Match, failed Check, exhausted Coalesce); targets '
             'with short reprs, long reprs (truncated) and non-ASCII strings; trace widths 50 / 78 / 108; re-entrant case: a callable '
             'that calls glom(), catches the inner error, optionally str()s it, and re-raises. Non-trivial: failing frame at depth >= 3 '
             'or >= 1 branching ancestor; distinct by (shape signature, failure position, failure kind, width, target style).'),
    'assumptions': [
        'completed earlier steps of a chain may appear between ancestors; the traceback excerpt before the last line is not constrained',
        'only single-line error messages are generated',
    ],
}

WIDTHS = {50: 52, 78: 80, 108: 110}      # TRACE_WIDTH -> COLUMNS


# ---------------------------------------------------------------------------
# parsing

class Line:
    __slots__ = ('depth', 'marker', 'kind', 'text', 'raw')

    def __init__(self, depth, marker, kind, text, raw):
        self.depth, self.marker, self.kind, self.text, self.raw = depth, marker, kind, text, raw

    def __repr__(self):
        return '%d%s %s: %s' % (self.depth, self.marker, self.kind, self.text[:50])


def parse_trace(msg):
    """-> (header ok?, [Line] of the target-spec trace, remaining lines after the trace)"""
    lines = msg.split('\n')
    header_ok = lines[:2] == ['error raised while processing, details below.', ' Target-spec trace (most recent last):']
    out = []
    i = 2
    while i < len(lines):
        raw = lines[i]
        m = re.match(r'^ (\|*)([-+\\X]) (.*)$', raw)
        if m:
            depth, marker, rest = len(m.group(1)), m.group(2), m.group(3)
        else:
            m = re.match(r'^ (\|+) (.*)$', raw)
            if not m:
                break
            depth, marker, rest = len(m.group(1)) - 1, '|', m.group(2)
        if rest.startswith('Target: '):
            kind, text = 'Target', rest[8:]
        elif rest.startswith('Spec: '):
            kind, text = 'Spec', rest[6:]
        else:
            kind, text = 'Error', rest
        out.append(Line(depth, marker, kind, text, raw))
        i += 1
    return header_ok, out, lines[i:]


def build_tree(tokens):
    """nested items: Line | ('branches', [block, ...]) where a block is a list of items"""
    def build(i, depth, stop_on_new_block):
        items = []
        first = True
        while i < len(tokens) and tokens[i].depth >= depth:
            t = tokens[i]
            if t.depth == depth:
                if stop_on_new_block and t.marker == '\\' and not first:
                    break
                items.append(t)
                i += 1
                first = False
            else:
                blocks = []
                while i < len(tokens) and tokens[i].depth > depth:
                    blk, i = build(i, depth + 1, True)
                    if not blk:
                        i += 1
                        continue
                    blocks.append(blk)
                items.append(('branches', blocks))
        return items, i
    items, _ = build(0, 0, False)
    return items


def followed_flow(items):
    """the lines of the flow that was followed to the end: depth-0 lines, then the last block of every branch group"""
    out = []
    for it in items:
        if isinstance(it, tuple):
            if it[1]:
                out.extend(followed_flow(it[1][-1]))
        else:
            out.append(it)
    return out


_TRUNC = re.compile(r'^(.*?)\.\.\.( \(len=\d+\))?$', re.S)


def fmt_full(value):
    try:
        return gcore.bbrepr(value).replace("\\'", "'")
    except Exception:
        return None


def matches(text, value):
    full = fmt_full(value)
    if full is None:
        return True
    if text == full:
        return True
    m = _TRUNC.match(text)
    return bool(m) and full.startswith(m.group(1)) and len(full) >= len(m.group(1))


def exc_line(e):
    return ''.join(traceback.format_exception_only(type(e), e)).rstrip('\n').split('\n')[-1]


# ---------------------------------------------------------------------------
# generation: a self-similar target, so that every non-failing step keeps the evaluation going

class Tag:
    def __init__(self):
        self.n = 0

    def __call__(self):
        self.n += 1
        return self.n


class OkFn:
    def __init__(self, tag):
        self.tag = tag
        self.__name__ = 'ok%d' % tag

    def __call__(self, t):
        return t

    def __repr__(self):
        return '<ok%d>' % self.tag


class ConvFn:
    """hands on an object that is EQUAL to its target but another object with another repr (dict <-> OrderedDict):
    the next level received a different target although `new == old`"""
    def __init__(self, tag):
        self.tag = tag
        self.__name__ = 'conv%d' % tag

    def __call__(self, t):
        if type(t) is dict:
            return OrderedDict(t)
        if type(t) is OrderedDict:
            return dict(t)
        return t

    def __repr__(self):
        return '<conv%d>' % self.tag


class LazyRows:
    """long repr, and a __len__ that fails the way a lazily evaluated collection does"""
    def __init__(self, tag):
        self.tag = tag

    def __len__(self):
        raise RuntimeError('row count is not known before the query ran')

    def __repr__(self):
        return '<LazyRows %d %s>' % (self.tag, 'pending ' * 30)


class KwOnlyTraceErr(GlomError):
    def __init__(self, *, code):
        super().__init__('quota %d exceeded' % code)
        self.code = code


class EmptyProblems(Exception):
    """an aggregate "collected problems" error whose instances are FALSY (it is sized, and raised with nothing collected yet)"""
    def __init__(self, code=0):
        Exception.__init__(self, 'problems of run %d' % code)
        self.code = code

    def __len__(self):
        return 0


class OwnStrError(Exception):
    """an error class that renders itself (its own __str__), like KeyError, OSError, a parser's error with a position"""
    def __init__(self, code=0):
        Exception.__init__(self, 'own-str failure %d' % code)
        self.code = code

    def __str__(self):
        return 'E%03d: %s (see the log)' % (self.code, self.args[0])


def _a_keyerror(code=0):
    return KeyError('key%d' % code)


def _an_oserror(code=0):
    return OSError(2, 'no such thing %d' % code)


def _a_decode_error(code=0):
    return UnicodeDecodeError('utf-8', b'ab\xff%d' % code, 2, 3, 'invalid start byte')


OWN_STR_ERRORS = [OwnStrError, _a_keyerror, _an_oserror, _a_decode_error]


class QuietGlomError(GlomError):
    def __init__(self, code=0):
        GlomError.__init__(self, 'quiet failure %d' % code)

    def __bool__(self):
        return False


class BoomFn:
    def __init__(self, tag, cls=None):
        self.tag = tag
        self.cls = cls
        self.__name__ = 'boom%d' % tag

    def __call__(self, t):
        if self.cls is not None:
            raise self.cls(code=self.tag)
        raise ValueError('boom%d' % self.tag)

    def __repr__(self):
        return '<boom%d>' % self.tag


def make_target(style):
    t = {'k': 1, 'a': {'b': [1, 2]}}
    if style == 'long':
        t['pad'] = 'x' * 70
        t['pad2'] = list(range(30))
    elif style == 'unicode':
        t['ü'] = 'héllo wörld 日本'
    elif style == 'deep':
        t['a']['b'] = [[[[[[[1, 2]]]]]]]       # nested deeper than a default-configured reprlib prints
    return t


def _plain(v, depth=0):
    if depth > 20:
        return False
    if type(v) in (dict, list, tuple):
        return all(_plain(x, depth + 1) for x in (list(v.keys()) + list(v.values()) if type(v) is dict else v))
    return type(v) in (str, int, float, bool, type(None))


FAIL_KINDS = ['missing-path', 'failing-T', 'raising-callable', 'match-type', 'check', 'exhausted-coalesce', 'missing-attr',
              'exhausted-coalesce-skip', 'list-segment', 'raises-after-recovered-child', 'exhausted-coalesce-of-T',
              'long-target-without-a-usable-len', 'user-glomerror-kwonly', 'raises-falsy-error', 'raises-falsy-glomerror', 'switch-default-fails',
              'raises-error-with-its-own-str']


class SpecGen:
    def __init__(self, rng, fail_slot, fail_kind):
        self.rng, self.fail_slot, self.fail_kind = rng, fail_slot, fail_kind
        self.tag = Tag()
        self.slot = 0
        self.shape = []
        self.planted = None

    def leaf(self):
        """a step mapping a t-like target to a t-like target, or the planted failure"""
        i = self.slot
        self.slot += 1
        n = self.tag()
        if i == self.fail_slot:
            k = self.fail_kind
            self.planted = k
            if k == 'missing-path':
                return 'a.zz%d.q' % n
            if k == 'failing-T':
                return T['a']['zz%d' % n]
            if k == 'list-segment':
                # a Path whose failing segment is a list (unhashable as a key): e.g. Path(['a', 'b']) written for Path('a', 'b')
                return Path('a', ['zz%d' % n])
            if k == 'missing-attr':
                return T['a'].attr_zz
            if k == 'raising-callable':
                return BoomFn(n)
            if k == 'user-glomerror-kwonly':
                # the error raised is a user's GlomError subclass that cannot be re-created from its args
                return BoomFn(n, KwOnlyTraceErr)
            if k == 'raises-falsy-error':
                return BoomFn(n, EmptyProblems)
            if k == 'raises-falsy-glomerror':
                return BoomFn(n, QuietGlomError)
            if k == 'raises-error-with-its-own-str':
                # the class of the error raised renders itself: KeyError (repr of the key), OSError ([Errno ..]), a decoding error,
                # a user's class with a __str__ of its own
                return BoomFn(n, self.rng.choice(OWN_STR_ERRORS))
            if k == 'switch-default-fails':
                # no case of the Switch applies and its default - a spec - fails: the failed keys are its attempted branches, the
                # default's failure is what is raised
                bad_default = self.rng.choice([T['zz%d' % n], T.zz_attr, (T['a'], T['yy%d' % n])])
                keys = [self.rng.choice([M == 'never-%d' % n, Match(str), Coalesce('zz%d' % n, T['xx%d' % n]), 'zz%d.q' % n]) for _ in range(self.rng.randint(1, 3))]
                return Switch([(k_, OkFn(self.tag())) for k_ in keys], default=bad_default)
            if k == 'match-type':
                return Match({'k': str, 'zz%d' % n: object})
            if k == 'check':
                return Check(T['k'], equal_to=-n)
            if k == 'raises-after-recovered-child':
                # a spec that evaluates a child and then raises ON ITS OWN, the child being a branching spec that recovered
                rec = self.rng.choice([lambda: Coalesce('zz%d' % n, T['yy%d' % n], T), lambda: Or('zz%d' % n, T),
                                       lambda: Coalesce('zz%d' % n, default=3.5), lambda: Coalesce('zz%d' % n, default_factory=list),
                                       lambda: Coalesce('zz%d' % n, T['yy%d' % n], default_factory=dict), lambda: Not('zz%d' % n),
                                       lambda: Not(('a', 'zz%d' % n)), lambda: Or('zz%d' % n, default=None),
                                       lambda: Coalesce(OkFn(self.tag()), 'zz%d' % n, skip=lambda v: True, default=3.5),
                                       lambda: Match('zz%d' % n, default=n), lambda: Check('zz%d' % n, default=n)])()
                return self.rng.choice([lambda: Check(rec, type=complex), lambda: Not(rec), lambda: Check(rec, equal_to=-n),
                                        lambda: Flatten(rec)])()
            if k == 'long-target-without-a-usable-len':
                # the failing step receives a value whose repr is long (so it is truncated) and whose len() raises something
                # other than TypeError: an astronomically long range, a lazy collection
                obj = self.rng.choice([lambda: range(10 ** 120), lambda: LazyRows(n)])()
                return (Val(obj), T.zz_attr if self.rng.random() < 0.5 else 'zz%d' % n)
            if k == 'exhausted-coalesce-of-T':
                # all (or all but one) alternatives are bare T expressions
                alts = [T['yy%d' % n], T.zz_attr, T['a']['xx%d' % n]]
                if self.rng.random() < 0.5:
                    alts.insert(self.rng.randint(0, 3), 'zz%d' % n)
                return Coalesce(*alts)
            if k == 'exhausted-coalesce-skip':
                # alternatives that SUCCEED but are rejected by skip=, mixed with raising ones (1 or 2), in any order
                alts = [OkFn(self.tag()) for _ in range(self.rng.randint(1, 2))] + \
                       [self.rng.choice(['zz%d' % n, T['yy%d' % n], (OkFn(self.tag()), OkFn(self.tag()), 'xx%d' % n)])
                        for _ in range(self.rng.randint(1, 2))]
                self.rng.shuffle(alts)
                return Coalesce(*alts, skip=lambda v: True)
            return Coalesce('zz%d' % n, T['yy%d' % n], ('a', 'xx%d' % n))
        # (ok steps hand the same target on, so that the evaluation reaches the planted failure)
        r = self.rng.random()
        if r < 0.12:
            return ConvFn(n)
        if r < 0.5:
            return OkFn(n)
        if r < 0.65:
            return T
        if r < 0.8:
            return Spec(OkFn(n))
        return Val(TARGETS[self.style])

    def failing_alt(self):
        """an alternative that fails with a GlomError (to be recovered from)"""
        n = self.tag()
        ok = lambda: OkFn(self.tag())
        return self.rng.choice([
            'nope%d' % n, T['nope%d' % n], ('a', 'nope%d.x' % n), Match(int), Coalesce('n1_%d' % n, 'n2_%d' % n),
            # chains of 3-5 links failing at the last / a middle link (tuple, Pipe, Switch as a middle link)
            (ok(), ok(), 'nope%d' % n), (ok(), ok(), ok(), T['nope%d' % n]), Pipe(ok(), ok(), 'nope%d' % n, ok()),
            (ok(), Switch([(ok(), ok())]), ok(), 'nope%d' % n), (ok(), (ok(), ok(), 'nope%d' % n)),
            Coalesce(ok(), 'nopeA%d' % n, skip=lambda v: True), Coalesce('nopeB%d' % n, ok(), ok(), skip=lambda v: True),
        ])

    def gen(self, depth, style):
        self.style = style
        return self._gen(depth)

    def _gen(self, depth):
        rng = self.rng
        if depth <= 0:
            return self.leaf()
        c = rng.choice(['chain', 'chain', 'pipe', 'dict', 'list', 'coalesce', 'coalesce', 'or', 'switch', 'switch', 'matchlist', 'matchdict', 'matchdict-plain-keys', 'leaf', 'recovered-then'])
        self.shape.append(c)
        if c == 'leaf':
            return self.leaf()
        if c in ('chain', 'pipe'):
            steps = [self._gen(depth - 1) for _ in range(rng.randint(2, 4))]
            return tuple(steps) if c == 'chain' else Pipe(*steps)
        if c == 'dict':
            n = self.tag()
            d = {}
            for i in range(rng.randint(1, 3)):
                d['k%d_%d' % (n, i)] = self._gen(depth - 1) if rng.random() < 0.7 else Coalesce(self.failing_alt(), T)
            # a dict result is not t-like: restore the target for whatever follows
            return Pipe(d, Val(TARGETS[self.style]))
        if c == 'list':
            return Pipe(Val([TARGETS[self.style], TARGETS[self.style]]), [self._gen(depth - 1)], Val(TARGETS[self.style]))
        if c == 'coalesce':
            alts = [self.failing_alt() for _ in range(rng.randint(0, 2))] + [self._gen(depth - 1)]
            if rng.random() < 0.3:
                alts.append(T)
            return Coalesce(*alts)
        if c == 'or':
            alts = [self.failing_alt() for _ in range(rng.randint(0, 2))] + [self._gen(depth - 1)]
            return Or(*alts)
        if c == 'switch':
            cases = [(self.failing_alt(), T) for _ in range(rng.randint(0, 2))]
            if rng.random() < 0.5:
                cases.append((self._gen(depth - 1), T))            # the planted failure may sit in a key spec
                cases.append((T['a'], self._gen(depth - 1)))
            elif rng.random() < 0.5:
                cases.append((OkFn(self.tag()), self._gen(depth - 1)))
            else:
                # the key is itself a branching spec that RECOVERS from failed alternatives; the failure sits in the value
                key = rng.choice([Coalesce, Or])(*([self.failing_alt() for _ in range(rng.randint(1, 2))] + [T]))
                cases.append((key, self._gen(depth - 1)))
            return Switch(cases)
        if c == 'matchlist':
            return Pipe(Val([TARGETS[self.style]]),
                        # (in match mode a plain class is an alternative like any other: rejected, it is an attempted branch with its error)
                        Match([Or(*([rng.choice([self.failing_alt, lambda: rng.choice([int, str, list, float, bool])])() for _ in range(rng.randint(0, 2))]
                                    + [Auto(self._gen(depth - 1))]))]),
                        Val(TARGETS[self.style]))
        if c == 'matchdict':
            # a Match-mode dict whose key pattern recovers from a rejected alternative; the failure sits in the value spec
            n = self.tag()
            return Pipe(Val({'a': TARGETS[self.style]}),
                        Match({Or(*(['nope%d' % n, M == 'nope%d' % self.tag()] + [rng.choice([int, float, list])] * rng.randint(0, 1) + [str])): Auto(self._gen(depth - 1))}),
                        Val(TARGETS[self.style]))
        if c == 'matchdict-plain-keys':
            # a Match-mode dict with plain string keys, the failure in the value spec of the second key
            n = self.tag()
            return Pipe(Val({'p': 1, 'q': TARGETS[self.style]}),
                        Match({'p': int, 'q': Auto(self._gen(depth - 1))}),
                        Val(TARGETS[self.style]))
        if c == 'recovered-then':
            return (Coalesce(self.failing_alt(), self.failing_alt(), T), self._gen(depth - 1))
        raise AssertionError(c)


TARGETS = {}


# ---------------------------------------------------------------------------
# the oracle

def _same(a, b):
    try:
        return type(a) is type(b) and bool(a == b)
    except Exception:
        return False


def all_frames(root):
    out, stack = [], [root]
    while stack:
        f = stack.pop()
        out.append(f)
        stack.extend(reversed(f.children))
    return out


def is_stale(f):
    """inside a frame that returned a value: its error was recovered from"""
    p = f.parent
    while p is not None:
        if p.outcome == 'value':
            return True
        p = p.parent
    return False


def failing_chain(root):
    anc = [root]
    cur = root
    while True:
        nxt = None
        for ch in cur.children:
            if ch.outcome == 'raise' and ch.exc is cur.exc:
                nxt = ch
        if nxt is None:
            return anc
        anc.append(nxt)
        cur = nxt


def check_message(col, msg, root, target, desc, key, width):
    """all structural checks of one error message against the executed tree"""
    wit = {'spec': desc, 'message': msg[-3000:], 'width': width}
    header_ok, tokens, rest = parse_trace(msg)
    if not header_ok:
        return col.violation('C05/header-missing', 'message does not start with the two header lines: %r' % msg[:200], wit)
    if not tokens:
        return col.violation('C05/no-trace-lines', 'no target-spec trace in: %r' % msg[:300], wit)
    col.count('trace_lines_parsed', len(tokens))
    first = tokens[0]
    if not (first.kind == 'Target' and first.depth == 0 and matches(first.text, target)):
        return col.violation('C05/trace-does-not-begin-with-root-target', 'first trace line is %r' % first.raw, wit)
    frames = all_frames(root)
    anc = failing_chain(root)
    failing = anc[-1]
    original = failing.exc
    tree = build_tree(tokens)
    flow = followed_flow(tree)
    flow_specs = [(i, ln) for i, ln in enumerate(flow) if ln.kind == 'Spec']
    # (3) ancestors in order, as a subsequence of the Spec lines of the followed flow.  Truncated lines can match several
    # specs with a common prefix, so the embedding is searched from the END (if any embedding exists this finds one, and it
    # places the failing spec as late as possible, which is the most lenient reading for the "nothing unrelated after it" rule)
    pos = len(flow_specs)
    positions = []
    for f in reversed(anc):
        nxt = next((j for j in range(pos - 1, -1, -1) if matches(flow_specs[j][1].text, f.spec)), None)
        if nxt is None:
            which = 'failing-spec' if f is failing else 'ancestor'
            return col.violation('C05/%s-missing-from-trace:depth-%d' % (which, min(f.depth, 6)),
                                 '%s: the %s %s (depth %d) is not listed (in order) among the followed Spec lines %s\n%s'
                                 % (desc, which, short(fmt_full(f.spec), 120), f.depth, [ln.text[:40] for _, ln in flow_specs], msg), wit)
        pos = nxt
        positions.append(nxt)
    pos = positions[0]          # position of the failing spec
    col.count('ancestors_located', len(anc))
    # a truncated line can stand for several specs of this evaluation (long specs sharing a prefix): when the line taken for the
    # failing spec is ambiguous in that way, the two ordering rules below cannot tell its true place and are not applied
    failing_text = flow_specs[pos][1].text
    ambiguous = '...' in failing_text and len({id(f.spec) for f in frames if matches(failing_text, f.spec)}) > 1
    if ambiguous:
        col.count('messages_with_an_ambiguously_truncated_failing_spec')
    # (3') what the followed flow lists BEFORE the failing spec, apart from its ancestors, are completed steps that an ancestor was
    # chained to: earlier steps of a chain; for a Switch the case key that selected the value; for a Match-mode dict the evaluation
    # of the item's KEY against a key pattern.  A completed evaluation of something else (the value of ANOTHER item, say) is not on
    # the way from the root spec to the failing one
    legit = list(anc)
    for a_, b_ in zip(anc, anc[1:]):
        before = a_.children[:a_.children.index(b_)]
        if type(a_.spec) is dict and isinstance(a_.target, dict):
            keypats = [k.key if type(k) in (Required, Optional) else k for k in a_.spec]
            before = [x for x in before if any(x.spec is k for k in keypats) and any(x.target is k or _same(x.target, k) for k in a_.target)]
        elif type(a_.spec) is Switch:
            before = [x for x in before if any(x.spec is k for k, _v in a_.spec.cases)]
        for x in before:
            legit.extend(all_frames(x))
    for j in range(pos if not ambiguous else 0):
        ln = flow_specs[j][1]
        col.count('flow_lines_before_the_failing_spec')
        if not any(matches(ln.text, f.spec) for f in legit):
            return col.violation('C05/spec-before-the-failing-spec-not-on-the-way-to-it',
                                 '%s: before the failing spec %s the trace lists %r, which is neither one of its ancestors nor a '
                                 'completed step one of them was chained to\n%s' % (desc, short(fmt_full(failing.spec), 100), ln.text, msg), wit)
    # nothing unrelated after the failing spec: later followed Spec lines belong to frames nested in the failing frame
    inside = all_frames(failing)
    for j in range(pos + 1, len(flow_specs) if not ambiguous else 0):
        ln = flow_specs[j][1]
        if not any(matches(ln.text, f.spec) for f in inside[1:]):
            return col.violation('C05/spec-after-the-failing-spec-not-nested-in-it',
                                 '%s: after the failing spec %s the trace lists %r, which was not evaluated inside it\n%s'
                                 % (desc, short(fmt_full(failing.spec), 100), ln.text, msg), wit)
    # ... and none of them belongs to a direct child of the failing spec that COMPLETED (returned a value): whatever failed inside
    # such a child was recovered from - the failing spec raised on its own account afterwards - and is not on the way to the failure
    raised_children = [f for ch in failing.children if ch.outcome == 'raise' for f in all_frames(ch)]
    for j in range(pos + 1, len(flow_specs) if not ambiguous else 0):
        ln = flow_specs[j][1]
        col.count('flow_lines_after_the_failing_spec')
        if not any(matches(ln.text, f.spec) for f in raised_children):
            return col.violation('C05/trace-continues-into-a-child-that-completed',
                                 '%s: the spec that failed is %s, but the trace goes on with %r: a sub-spec that returned a value (what failed '
                                 'inside it was recovered from)\n%s' % (desc, short(fmt_full(failing.spec), 100), ln.text, msg), wit)
    # (4) the target the failing spec received
    fi = flow_specs[pos][0]
    tline = next((flow[i] for i in range(fi, -1, -1) if flow[i].kind == 'Target'), None)
    if tline is None or not matches(tline.text, failing.target):
        return col.violation('C05/wrong-target-for-failing-spec',
                             '%s: the failing spec %s received %s but the nearest Target line says %r\n%s'
                             % (desc, short(fmt_full(failing.spec), 100), short(fmt_full(failing.target), 120), tline and tline.text, msg), wit)
    # (2') the trace respects the terminal width at every depth: no Target / Spec line is longer than the width
    for ln in tokens:
        if ln.kind in ('Target', 'Spec') and len(ln.raw) > width:
            return col.violation('C05/trace-line-wider-than-the-terminal:depth-%d' % min(ln.depth, 3),
                                 '%s: a %s line at depth %d is %d columns wide (width %d): %r' % (desc, ln.kind, ln.depth, len(ln.raw), width, ln.raw), wit)
    # (4') a value that fits on its line is shown as it is: no part of a plain value may be replaced by an ellipsis
    for ln, value in ((first, target), (tline, failing.target)):
        if _plain(value) and '...' in ln.text and '...' not in repr(value) and len(ln.raw) - len(ln.text) + len(repr(value)) <= width:
            return col.violation('C05/target-abbreviated-although-it-fits', '%s: the line %r stands for %s, which fits in the width of %d\n%s'
                                 % (desc, ln.raw, repr(value), width, msg), wit)
    # (4'') the same for every line of the trace: an abbreviated line stands for some evaluated value that does NOT fit
    for ln in tokens:
        if ln.kind not in ('Target', 'Spec') or '...' not in ln.text:
            continue
        cands = [v for v in ((f.target if ln.kind == 'Target' else f.spec) for f in frames) if matches(ln.text, v)]
        if cands and all(_plain(v) and '...' not in repr(v) and len(ln.raw) - len(ln.text) + len(repr(v)) <= width for v in cands):
            return col.violation('C05/target-abbreviated-although-it-fits' if ln.kind == 'Target' else 'C05/spec-abbreviated-although-it-fits',
                                 '%s: the line %r (depth %d) stands for %s, which fits in the width of %d\n%s'
                                 % (desc, ln.raw, ln.depth, short(repr(cands[0]), 200), width, msg), wit)
    # (4''') every Target line of the trace - at any depth, in followed and abandoned branches alike - renders a value that some spec
    # of this evaluation really received as its target
    for ln in tokens:
        if ln.kind == 'Target' and not any(matches(ln.text, f.target) for f in frames):
            return col.violation('C05/target-line-shows-a-value-no-spec-received',
                                 '%s: the line %r (depth %d) renders none of the %d targets received during the evaluation\n%s'
                                 % (desc, ln.raw, ln.depth, len(frames), msg), wit)
    col.count('target_lines_matched_to_received_targets', sum(1 for ln in tokens if ln.kind == 'Target'))
    # (5) ends with the type and message of the original error
    last = msg.rstrip('\n').split('\n')[-1]
    want_last = exc_line(original)
    if last != want_last:
        return col.violation('C05/last-line-is-not-the-original-error', '%s: last line %r, original error %r' % (desc, last, want_last), wit)
    if 'str() failed>' in last:
        # (both sides agree because the original error itself cannot be rendered: there is no "message of the original error")
        return col.violation('C05/original-error-has-no-renderable-message', '%s: last line %r\n%s' % (desc, last, msg), wit)
    for ln in tokens:
        if ln.kind == 'Spec' and re.match(r'^<\w+ instance at 0x[0-9a-f]+>$', ln.text) and any(
                type(f.spec).__module__.startswith('glom.') and matches(ln.text, f.spec) for f in frames):
            return col.violation('C05/spec-shown-as-repr-failure-placeholder', '%s: trace line %r stands for a spec of the library '
                                 'whose repr() raised\n%s' % (desc, ln.raw, msg), wit)
    # every line of the trace was really evaluated
    for ln in tokens:
        if ln.kind == 'Spec' and not any(matches(ln.text, f.spec) for f in frames):
            return col.violation('C05/spec-line-never-evaluated', '%s: trace line %r matches no evaluated spec\n%s' % (desc, ln.raw, msg), wit)
        if ln.kind == 'Target' and not any(matches(ln.text, f.target) for f in frames):
            return col.violation('C05/target-line-never-seen', '%s: trace line %r matches no target of any frame\n%s' % (desc, ln.raw, msg), wit)
    # (6a) attempted branches of branching ancestors, with the error that ended them, in order
    for f in anc:
        if type(f.spec) not in (Coalesce, Or, Switch):
            continue
        attempts = [ch for ch in f.children if ch.outcome == 'raise' and ch not in anc]
        idx = 0
        for ch in attempts:
            want_err = exc_line(ch.exc)
            found = None
            for i in range(idx, len(tokens)):
                if tokens[i].kind == 'Spec' and matches(tokens[i].text, ch.spec):
                    j = next((j for j in range(i + 1, len(tokens)) if tokens[j].kind == 'Error' and tokens[j].text == want_err), None)
                    if j is not None:
                        found = j
                        break
            col.count('attempted_branches_checked')
            if found is None:
                return col.violation('C05/attempted-branch-missing:%s' % type(f.spec).__name__,
                                     '%s: %s attempted %s, which ended with %r; the trace does not show that branch with its error\n%s'
                                     % (desc, type(f.spec).__name__, short(fmt_full(ch.spec), 100), want_err, msg), wit)
            idx = found
    # (6a') an exhausted Coalesce / Or attempted ALL its alternatives: one that left no frame at all (evaluated by some
    # shortcut that bypasses the recursion function) must still be listed
    for f in anc:
        alts = f.spec.subspecs if type(f.spec) is Coalesce else f.spec.children if type(f.spec) is Or else None
        if alts is None or f.outcome != 'raise':
            continue
        if f is not failing:
            # an ancestor of the failing spec: the alternatives BEFORE the one the failure lies in were attempted (and rejected)
            nxt = anc[anc.index(f) + 1] if anc.index(f) + 1 < len(anc) else None
            pos_in_alts = next((i for i, a_ in enumerate(alts) if nxt is not None and a_ is nxt.spec), None)
            if pos_in_alts is None:
                continue
            alts = alts[:pos_in_alts]
        for sub in alts:
            if any(ch.spec is sub for ch in f.children):
                continue
            col.count('frameless_alternatives_looked_up')
            if not any(ln.kind == 'Spec' and matches(ln.text, sub) for ln in tokens):
                return col.violation('C05/attempted-branch-missing:%s' % type(f.spec).__name__,
                                     '%s: the %s attempted %s (it left no evaluation level of its own); the trace does not list it\n%s'
                                     % (desc, type(f.spec).__name__, short(fmt_full(sub), 100), msg), wit)
    # (6b) no error line from a recovered (stale) branch
    live_errors = set()
    for f in frames:
        if f.outcome == 'raise' and not is_stale(f):
            live_errors.add(exc_line(f.exc))
    for ln in tokens:
        if ln.kind == 'Error':
            col.count('error_lines_checked')
            if ln.text not in live_errors:
                stale = [f for f in frames if f.outcome == 'raise' and is_stale(f) and exc_line(f.exc) == ln.text]
                return col.violation('C05/stale-branch-in-trace' if stale else 'C05/error-line-of-no-raising-frame',
                                     '%s: error line %r %s\n%s' % (desc, ln.text, 'belongs to a branch that was recovered from' if stale
                                                                   else 'matches no frame that raised', msg), wit)
    # (7) an error is printed where it was first raised, once: no error text twice among the lines of one block
    def blocks(items, acc):
        own = [it for it in items if not isinstance(it, tuple)]
        acc.append(own)
        for it in items:
            if isinstance(it, tuple):
                for blk in it[1]:
                    blocks(blk, acc)
        return acc
    for own in blocks(tree, []):
        errs = [ln.text for ln in own if ln.kind == 'Error']
        col.count('blocks_checked')
        if len(errs) != len(set(errs)):
            dup = next(e for e in errs if errs.count(e) > 1)
            return col.violation('C05/error-printed-twice-in-one-branch',
                                 '%s: the error %r is printed twice within one branch (it belongs after the spec that raised it, once)\n%s'
                                 % (desc, dup, msg), wit)
        # an error line inside a branch must follow the spec line of a frame that raised exactly that error
        for i, ln in enumerate(own):
            if ln.kind != 'Error':
                continue
            prev = next((own[j] for j in range(i - 1, -1, -1) if own[j].kind == 'Spec'), None)
            if prev is None:
                continue
            if not any(f.outcome == 'raise' and matches(prev.text, f.spec) and exc_line(f.exc) == ln.text for f in frames):
                return col.violation('C05/error-line-after-a-spec-that-did-not-raise-it',
                                     '%s: error line %r follows spec line %r, but no evaluation of that spec raised it\n%s'
                                     % (desc, ln.text, prev.text, msg), wit)
    col.count('messages_fully_checked')
    return True


def one_case(col, rng, tracer, width):
    style = rng.choice(['short', 'short', 'long', 'unicode', 'deep'])
    target = TARGETS[style]
    kind = rng.choice(FAIL_KINDS)
    depth = rng.randint(1, 4)
    # count the leaf slots of this shape first, then plant the failure at each slot in turn
    state = rng.getstate()
    probe = SpecGen(rng, -1, kind)
    probe.gen(depth, style)
    nslots = probe.slot
    for fail_slot in range(nslots):
        rng.setstate(state)
        sg = SpecGen(rng, fail_slot, kind)
        spec = sg.gen(depth, style)
        desc = short(spec, 400)
        tracer.reset()
        got = call(G, target, spec)
        col.count('evaluations')
        if got.ok or not isinstance(got.exc, GlomError):
            col.count('no_error_or_not_glomerror')
            continue
        roots = tracer.roots()
        root = roots[-1]
        anc = failing_chain(root)
        branching = sum(1 for f in anc if type(f.spec) in (Coalesce, Or, Switch))
        col.case((tuple(sg.shape), fail_slot, kind, width, style), len(anc) >= 3 or branching >= 1)
        col.count('error_messages_checked')
        if branching:
            col.count('with_branching_ancestor')
        rendered = call(str, got.exc)
        if not rendered.ok:
            col.violation('C05/message-cannot-be-rendered:' + type(rendered.exc).__name__,
                          '%s: str() of the error raised %r' % (desc, rendered.exc), {'spec': desc})
            continue
        msg = rendered.value
        ok = check_message(col, msg, root, target, desc, None, width)
        if ok is True and rng.random() < 0.15:
            w2 = max(50, width + rng.choice([-17, -6, 9, 31]))      # (the library clamps its own width to >= 50)
            msg2 = rerender(col, got.exc, msg, w2)
            if msg2 is not None:
                check_message(col, msg2, root, target, '%s rendered with width=%d (imported with %d)' % (desc, w2, width), None, w2)
        if ok is True and col.want_sample('trace-%s' % kind):
            col.sample({'spec': desc, 'width': width, 'failing_spec': short(fmt_full(anc[-1].spec), 80), 'ancestors': len(anc),
                        'message': msg[:1500]}, 'trace-%s' % kind)
    rng.setstate(state)
    SpecGen(rng, -1, kind).gen(depth, style)     # advance the generator identically


def reentrant_cases(col, tracer, width):
    """a callable that calls glom(), catches the inner error, optionally str()s it, and re-raises"""
    for with_str in (False, True):
        def inner(t, with_str=with_str):
            try:
                return G({'in': {'ner': 1}}, ('in', 'ner.zz'))
            except GlomError as e:
                if with_str:
                    str(e)
                raise
        inner.__name__ = 'inner'
        target = {'outer': {'root': 1}}
        spec = ('outer', inner)
        tracer.reset()
        got = call(G, target, spec)
        col.case(('reentrant', with_str, width), True)
        col.count('error_messages_checked')
        if got.ok:
            col.violation('C05/reentrant-no-error', 'no error raised', None)
            continue
        msg = str(got.exc)
        header_ok, tokens, rest = parse_trace(msg)
        if not (tokens and tokens[0].kind == 'Target' and matches(tokens[0].text, target)):
            col.violation('C05/reentrant-outer-trace-lost:%s' % ('after-str' if with_str else 'plain'),
                          'inner error re-raised through an outer glom()%s: the outer message does not begin with the outer root target:\n%s'
                          % (' after str()' if with_str else '', msg), {'message': msg})
            continue
        specs = [ln for ln in tokens if ln.kind == 'Spec']
        if not any(matches(ln.text, spec) for ln in specs) or not any(matches(ln.text, inner) for ln in specs):
            col.violation('C05/reentrant-outer-specs-missing', 'outer specs not listed:\n%s' % msg, {'message': msg})


def rerender(col, exc, msg, width2):
    """the same error rendered for another width through the width parameter of the trace renderer (the width is otherwise fixed
    when the library is imported); None when the pieces it needs are not there"""
    fn = getattr(gcore, 'format_target_spec_trace', None)
    scope = getattr(exc, '_scope', None)
    wrapped = getattr(exc, '_GlomError__wrapped', None)
    if fn is None or scope is None or wrapped is None:
        col.count('rerender_unavailable')
        return None
    try:
        text_default = fn(scope, wrapped)
        if text_default not in msg:
            col.count('rerender_unavailable')
            return None
        text2 = fn(scope, wrapped, width=width2)
    except TypeError:
        col.count('rerender_unavailable')
        return None
    col.count('messages_rendered_for_another_width')
    return msg.replace(text_default, text2, 1)


def exact_fit_boundaries(col, tracer, width):
    """values whose repr is a few columns shorter than, exactly as long as, and a few columns longer than the room on their line, as
    root target, as the target of a nested step, as failing spec, at depth 0 and inside branches (one column less room per depth);
    at the width the library was imported with and, through the renderer's width parameter, at a narrower and a wider one"""
    def run_one(desc, target, spec, w):
        tracer.reset()
        got = call(G, target, spec)
        col.count('evaluations')
        if got.ok or not isinstance(got.exc, GlomError):
            col.count('no_error_or_not_glomerror')
            return
        col.case(('exact-fit', desc, width, w), True)
        col.count('error_messages_checked')
        col.count('boundary_messages_checked')
        try:
            msg = str(got.exc)
        except Exception as e:
            col.violation('C05/str-of-error-raises', '%s: str() of the error raised %r' % (desc, e), None)
            return
        if w != width:
            msg = rerender(col, got.exc, msg, w)
            if msg is None:
                return
            desc = '%s rendered with width=%d (imported with %d)' % (desc, w, width)
        check_message(col, msg, tracer.roots()[-1], target, desc, ('exact-fit', desc), w)
    for w in sorted({width, max(50, width - 17), width + 31}):
        for n in range(w - 24, w + 3):
            s_ = 'x' * n
            run_one('root-target-str:%d' % (n - w), s_, 'nope', w)
            run_one('root-target-list:%d' % (n - w), [s_], 'nope', w)
            run_one('nested-target:%d' % (n - w), {'k': s_}, ('k', 'nope'), w)
            run_one('failing-spec:%d' % (n - w), {'k': 1}, 'n' * n, w)
            run_one('in-branch-depth-1:%d' % (n - w), {'k': s_}, Coalesce(('k', 'nope'), 'm' * n), w)
            run_one('in-branch-depth-2:%d' % (n - w), {'k': s_}, ('k', Coalesce(Or('q' * n, T['nope']), (T, 'zz'))), w)
            run_one('unicode:%d' % (n - w), '\u00e9' * n, 'nope', w)


class _RowsShortRepr(list):
    def __repr__(self):
        return '<Rows: %d rows>' % len(self)


class _TextShortRepr(str):
    def __repr__(self):
        return '<Text of %d characters>' % len(self)


class _PairsShortRepr(tuple):
    def __repr__(self):
        return '<Pairs x%d>' % len(self)


def long_values_are_rendered_from_their_whole_repr(col, tracer, width):
    """what a Target line shows is repr(value), cut where the line ends: a long instance of a list / str / tuple subclass with a
    short repr of its own is shown by that repr; long text whose only apostrophe (or double quote, backslash, non-ASCII character) lies
    beyond the cut keeps the quoting of its whole repr"""
    vals = [('list subclass with a short repr', _RowsShortRepr(range(500))), ('str subclass with a short repr', _TextShortRepr('y' * 400)),
            ('tuple subclass with a short repr', _PairsShortRepr(range(300))), ('text with a late apostrophe', 'a' * 200 + "'" + 'b' * 5),
            ('text with a late double quote', 'a' * 200 + '"'), ('text with both quotes late', 'a' * 200 + '\'"'), ('bytes with a late apostrophe', b'a' * 200 + b"'"),
            ('text with a late newline', 'a' * 200 + '\n'), ('list with a late long item', ['i'] * 150 + ['z' * 50]), ('list of lists', [[1, 2]] * 200),
            ('text exactly filling with a quote at the end', 'q' * (width - 14) + "'"), ('dict with many keys', {('k%d' % i): i for i in range(100)})]
    for desc, v in vals:
        for where, target, spec in (('root target', v, T.nope_attr), ('below a chain step', {'k': v}, ('k', T.nope_attr)),
                                    ('inside a Coalesce branch', {'k': v}, Coalesce(('k', T.nope_attr), ('k', T.other_attr))),
                                    ('as the only item of a list', [v], ([T.nope_attr],))):
            tracer.reset()
            got = call(G, target, spec)
            col.count('evaluations')
            if got.ok or not isinstance(got.exc, GlomError):
                col.count('no_error_or_not_glomerror')
                continue
            col.case(('long-values', desc, where, width), True)
            col.count('error_messages_checked')
            col.count('boundary_messages_checked')
            msg = str(got.exc)
            d = '%s, %s' % (desc, where)
            check_message(col, msg, tracer.roots()[-1], target, d, ('long-values', desc, where), width)
            # (the generic rule compares the visible prefix with repr(value); say it once more in the terms of this battery)
            full = fmt_full(v)
            lines = [ln for ln in msg.split('\n') if 'Target: ' in ln]
            if full is not None and not any(matches(ln.split('Target: ', 1)[1], v) for ln in lines):
                col.violation('C05/target-line-not-a-prefix-of-the-value-s-repr', '%s: no Target line renders the value whose repr starts %r:\n%s'
                              % (d, full[:60], msg), {'message': msg})


EQ_FAMILIES = [[1, True, 1.0], [0, False, 0.0, -0.0], [2, 2.0], ['x', b'x'], [(1,), (True,), (1.0,)], [10 ** 3, 1e3]]


def equal_values_of_different_types(col, tracer, width):
    """values that compare equal but are different objects with different reprs (1 / True / 1.0, 0 / False / -0.0, 'x' / b'x') as
    root target of successive calls, as targets of sibling branches of one trace, as consecutive targets of a chain, and as literal
    specs: every line shows the value that was really there"""
    for fam in EQ_FAMILIES:
        for order in (fam, fam[::-1]):
            # successive calls, same spec object
            spec = ('nope',)
            nested = ('k', T.nope)
            for v in order:
                for desc, target, sp in (('root', v, spec), ('nested', {'k': v}, nested), ('in-list', [v], (T[0], T.nope))):
                    tracer.reset()
                    got = call(G, target, sp)
                    col.count('evaluations')
                    if got.ok or not isinstance(got.exc, GlomError):
                        col.count('no_error_or_not_glomerror')
                        continue
                    col.case(('equal-values', desc, repr(v), width), True)
                    col.count('error_messages_checked')
                    col.count('equal_value_messages_checked')
                    check_message(col, str(got.exc), tracer.roots()[-1], target, 'glom(%r, %r) after calls with equal targets of other types' % (target, sp),
                                  ('equal-values', desc), width)
            # sibling branches of ONE trace, each stepping to one member of the family and failing there
            keys = ['k%d' % i for i in range(len(order))]
            target = dict(zip(keys, order))
            for mk in (lambda alts: Coalesce(*alts), lambda alts: Match(Or(*[Auto(a) for a in alts]))):
                sp = mk([(k, T.nope) for k in keys])
                tracer.reset()
                got = call(G, target, sp)
                col.count('evaluations')
                if got.ok or not isinstance(got.exc, GlomError):
                    col.count('no_error_or_not_glomerror')
                    continue
                col.case(('equal-values', 'branches', type(sp).__name__, repr(order), width), True)
                col.count('error_messages_checked')
                col.count('equal_value_messages_checked')
                msg = str(got.exc)
                check_message(col, msg, tracer.roots()[-1], target, short(sp), ('equal-values', 'branches'), width)
                _, tokens, _ = parse_trace(msg)
                shown = [ln.text for ln in tokens if ln.kind == 'Target' and ln.depth >= 1]
                want = [fmt_full(v) for v in order]
                # every branch shows, after its first step, the value it stepped to (in order; other Target lines may occur)
                it = iter(shown)
                if not all(any(x == w for x in it) for w in want):
                    col.violation('C05/branch-shows-an-equal-value-of-another-type', '%s on %r: the branches stepped to %s in turn, their Target lines are %s\n%s'
                                  % (short(sp), target, want, shown, msg), {'message': msg})


class ParseLikeError(Exception):
    pass


MULTI_LINE_MESSAGES = [
    'unexpected token\nin line 3\nof the input',
    'unexpected token in line 3:\n  total = 1 +* 2\n             ^',
    '2 validation errors\n\nname: field required\n\nage: not an integer',
    'bad expression:\n  a.b.c\n  ~~^~~',
    'trailing blank line\n',
    '\nleading blank line',
    '   ^',
    # characters that str.splitlines() treats as line ends although they are not newlines
    'page one\x0cpage two', 'carriage\rreturn', 'next\x85line', 'line\u2028separator and paragraph\u2029separator', 'unit\x1fseparator\x1e and record',
]


def multi_line_messages(col, tracer, width):
    """"ends with the type and message of the original error" when that message has several lines (parser / validation errors: blank
    lines, an offending line with a ^ or ~~~ marker under it): the whole message, unchanged, is the end of glom's message.  Linear spec
    shapes only (inside a branch the error text is also an X line of the trace, which this check reads line by line)."""
    for i, text in enumerate(MULTI_LINE_MESSAGES):
        for cls in (ParseLikeError, ValueError):
            def raiser(t, text=text, cls=cls):
                raise cls(text)
            raiser.__name__ = 'raiser%d' % i
            target = {'k': 1, 'a': {'b': [1, 2]}}
            for shape, spec in (('bare', raiser), ('chain', ('a', 'b', raiser)), ('dict-in-chain', ('a', {'x': ('b', raiser)})),
                                ('list', ('a.b', [raiser])), ('deep', {'p': {'q': ('a', {'r': ('b', [(T, raiser)])})}})):
                tracer.reset()
                got = call(G, target, spec)
                col.count('evaluations')
                col.case(('multi-line-message', i, cls.__name__, shape, width), True)
                col.count('error_messages_checked')
                col.count('multi_line_messages_checked')
                if got.ok or not isinstance(got.exc, GlomError):
                    col.violation('C05/no-glom-error-for-a-raising-callable', '%s raising %s(%r): %r' % (shape, cls.__name__, text, got), None)
                    continue
                msg = str(got.exc)
                original = tracer.roots()[-1]
                frames = all_frames(original)
                orig_exc = next((f.exc for f in reversed(frames) if f.outcome == 'raise' and not isinstance(f.exc, GlomError)), None)
                want_tail = ''.join(traceback.format_exception_only(type(orig_exc), orig_exc)).rstrip('\n') if orig_exc is not None else None
                header_ok, tokens, _ = parse_trace(msg)
                if not header_ok or not tokens or not matches(tokens[0].text, target):
                    col.violation('C05/trace-does-not-begin-with-root-target', '%s raising a multi-line message: %r' % (shape, msg[:300]), {'message': msg})
                elif want_tail is None or not msg.rstrip('\n').endswith(want_tail.rstrip('\n')) and not msg.endswith(want_tail):
                    col.violation('C05/last-lines-are-not-the-original-error:multi-line-message',
                                  '%s raising %s(%r): the message ends with %r, the original error reads %r'
                                  % (shape, cls.__name__, text, msg[-(len(want_tail or '') + 40):], want_tail), {'message': msg})


def errors_of_classes_seen_in_another_shape_before(col, tracer, width):
    """every error message carries the trace - also the message of an error whose class has the same NAME as the class of an earlier
    error with another constructor, or whose class was met before with an instance that could not be re-created"""
    def named(init):
        return type('ParseError', (Exception,), {'__init__': init})
    ParseA = named(lambda self, msg, pos: Exception.__init__(self, msg, pos))
    ParseB = named(lambda self, text: Exception.__init__(self, text))

    class NeedTwo(Exception):
        def __init__(self, a, b):
            Exception.__init__(self, a, b)

    def altered():
        e = NeedTwo(1, 2)
        e.args = ()
        return e
    seq = [('ParseError(msg, pos)', lambda: ParseA('bad token', 7), True), ("another ParseError(text)", lambda: ParseB("cannot parse 'a;b'"), True),
           ('the first ParseError again', lambda: ParseA('bad token', 8), True), ('NeedTwo whose args were emptied', altered, False), ('NeedTwo(3, 4) afterwards', lambda: NeedTwo(3, 4), True)]
    target = {'k': 1, 'a': {'b': [1, 2]}}
    for desc, mk, want_trace in seq:
        e = mk()

        def raiser(t, e=e):
            raise e
        for shape, spec in (('chain', ('a', 'b', raiser)), ('in a Coalesce branch', Coalesce('zz', ('a', raiser)))):
            tracer.reset()
            got = call(G, target, spec)
            col.count('evaluations')
            col.case(('class-seen-before', desc, shape, width), True)
            col.count('error_messages_checked')
            if got.ok:
                col.violation('C05/no-glom-error-for-a-raising-callable', '%s (%s): %r' % (desc, shape, got), None)
                continue
            if not want_trace:
                continue        # (an error that cannot be re-created leaves glom() as it is: C04)
            msg = str(got.exc)
            header_ok, tokens, _ = parse_trace(msg)
            if not header_ok or not tokens or not matches(tokens[0].text, target):
                col.violation('C05/header-missing', '%s (%s): the message of the error is %r - no target-spec trace' % (desc, shape, msg[:200]), {'message': msg})
            elif msg.rstrip('\n').split('\n')[-1] != exc_line(e):
                col.violation('C05/last-line-is-not-the-original-error', '%s (%s): last line %r, original error %r' % (desc, shape, msg.rstrip().split('\n')[-1], exc_line(e)), {'message': msg})


def lazy_steps_before_the_failure(col, tracer, width):
    """an earlier step of the chain made a lazy value (an Iter pipeline) that a LATER step consumes - the value spec of a binder, a
    callable, a reduction - and a step after that fails: the trace follows the chain to the step that really failed (the item
    evaluations that ran in between belong to the Iter's frame, not to the chain)"""
    from glom import Iter, Invoke, Sum, S
    inc = OkFn(9001)
    cases = [
        ('binder drains, next step fails', [1, 2, 3], lambda: (Iter().map(inc), S(total=Invoke(sum).specs((T, [T[0]]))), T.nope)),
        ('callable drains, path fails', [1, 2, 3], lambda: (Iter().map(inc), list, 'nope')),
        ('below a path, binder drains, two more steps', {'a': [1, 2, 3]}, lambda: ('a', Iter().map(inc), S(n=Invoke(list).specs(T)), S.n, T[5])),
        ('reduction as binder value, then a failing dict value', [[1], [2]], lambda: (Iter(), S(flat=Sum(init=list)), {'k': T.nope})),
        ('in a Pipe inside a Coalesce', {'a': [1, 2]}, lambda: Coalesce(Pipe('a', Iter().map(inc), S(n=Invoke(list).specs(T)), T.nope), ('a', T[7]))),
    ]
    for desc, target, mk in cases:
        spec = mk()
        tracer.reset()
        got = call(G, target, spec)
        col.count('evaluations')
        col.case(('lazy-steps', desc, width), True)
        if got.ok or not isinstance(got.exc, GlomError):
            col.violation('C05/no-glom-error-for-a-failing-step', '%s: %r' % (desc, got), None)
            continue
        col.count('error_messages_checked')
        col.count('messages_after_a_lazy_step_was_consumed')
        check_message(col, str(got.exc), tracer.roots()[-1], target, short(spec, 300), ('lazy-steps', desc), width)


def cyclic_targets(col, tracer, width):
    """targets that contain themselves (a dict or list reachable from itself, an object graph with a back reference - the data ** is
    specified to walk): the error of a failing spec can be rendered, begins with the root target and ends with the original error"""
    def cyc_dict():
        d = {'k': 1, 'n': [1, 2]}
        d['self'] = d
        return d

    def cyc_list():
        lst = [1, {'k': 2}]
        lst.append(lst)
        return lst

    def cyc_deep():
        root = {'a': {'b': {'c': []}}}
        root['a']['b']['c'].append(root['a'])
        return root
    cases = [('dict-in-itself', cyc_dict, 'nope'), ('dict-in-itself, nested failure', cyc_dict, ('self', 'self', T['zz'])),
             ('list-in-itself', cyc_list, T[9]), ('list-in-itself, failing below', cyc_list, (T[1], 'zz')),
             ('cycle below the root', cyc_deep, 'a.b.zz'), ('cycle below the root, Coalesce', cyc_deep, Coalesce('a.zz', ('a', 'b', 'c', T[0], 'b', T['yy']))),
             ('failing target is on the cycle', cyc_deep, ('a', 'b', 'c', T[0], T.nope))]
    for desc, mk, spec in cases:
        target = mk()
        tracer.reset()
        got = call(G, target, spec)
        col.count('evaluations')
        col.case(('cyclic-target', desc, width), True)
        if got.ok or not isinstance(got.exc, GlomError):
            col.violation('C05/no-glom-error-for-a-failing-step', '%s: %r' % (desc, got), None)
            continue
        col.count('error_messages_checked')
        col.count('messages_for_cyclic_targets')
        rendered = call(str, got.exc)
        if not rendered.ok:
            col.violation('C05/message-cannot-be-rendered:' + type(rendered.exc).__name__,
                          '%s: glom(<%s>, %s) raised %s, and str() of that error raised %r'
                          % (desc, desc, short(spec), type(got.exc).__name__, rendered.exc), None)
            continue
        msg = rendered.value
        header_ok, tokens, _ = parse_trace(msg)
        original = failing_chain(tracer.roots()[-1])[-1].exc
        if not header_ok or not tokens or tokens[0].kind != 'Target' or tokens[0].depth != 0:
            col.violation('C05/trace-does-not-begin-with-root-target', '%s: %r' % (desc, msg[:300]), {'message': msg})
        elif any(len(ln.raw) > width for ln in tokens if ln.kind in ('Target', 'Spec')):
            col.violation('C05/trace-line-wider-than-the-terminal:depth-0', '%s: a line is wider than %d columns\n%s' % (desc, width, msg), {'message': msg})
        elif original is not None and msg.rstrip('\n').split('\n')[-1] != exc_line(original):
            col.violation('C05/last-line-is-not-the-original-error', '%s: last line %r, original error %r' % (desc, msg.rstrip().split('\n')[-1], exc_line(original)), {'message': msg})


def child_main(width, seed, shard, nshards, tier):
    col = Collector('C05', tier, shard, nshards)
    import random
    rng = random.Random('C05/%s/%s/%s' % (seed, shard, width))
    if gcore.TRACE_WIDTH != width:
        col.fail_inconclusive('TRACE_WIDTH is %d, wanted %d' % (gcore.TRACE_WIDTH, width))
    for style in ('short', 'long', 'unicode', 'deep'):
        TARGETS[style] = make_target(style)
    tracer = EvalTracer()
    tracer.install()
    try:
        reentrant_cases(col, tracer, width)
        if shard == 0:
            exact_fit_boundaries(col, tracer, width)
        equal_values_of_different_types(col, tracer, width)
        long_values_are_rendered_from_their_whole_repr(col, tracer, width)
        multi_line_messages(col, tracer, width)
        errors_of_classes_seen_in_another_shape_before(col, tracer, width)
        lazy_steps_before_the_failure(col, tracer, width)
        cyclic_targets(col, tracer, width)
        n = 400 if tier == 'quick' else 2500
        for _ in range(n):
            one_case(col, rng, tracer, width)
    finally:
        tracer.uninstall()
    print('RESULT ' + json.dumps(col.to_dict(), default=repr))


def run(ctx):
    col = ctx.col
    col.require('error_messages_checked', 500)
    col.require('messages_fully_checked', 400)
    col.require('with_branching_ancestor', 100)
    col.require('attempted_branches_checked', 100)
    col.require('error_lines_checked', 100)
    col.require('ancestors_located', 1000)
    import concurrent.futures

    def one(width):
        e = env.child_env({'ROWS': '40', 'COLUMNS': str(WIDTHS[width])})
        cmd = [sys.executable, '-m', 'rv.checks.c05', '--child', str(width), str(env.seed()), str(ctx.shard), str(ctx.nshards), ctx.tier]
        try:
            p = subprocess.run(cmd, env=e, cwd=env.VERIF_DIR, timeout=1800, stdout=subprocess.PIPE, stderr=subprocess.STDOUT, text=True)
        except subprocess.TimeoutExpired:
            return width, None, 'timeout'
        line = [ln for ln in p.stdout.splitlines() if ln.startswith('RESULT ')]
        if p.returncode != 0 or not line:
            return width, None, p.stdout[-1500:]
        return width, json.loads(line[0][7:]), None
    widths = sorted(WIDTHS) if (not ctx.thorough or True) else sorted(WIDTHS)
    with concurrent.futures.ThreadPoolExecutor(max_workers=3 if not ctx.thorough else 1) as ex:
        for width, d, err in ex.map(one, widths):
            if err:
                col.fail_inconclusive('width %d child failed: %s' % (width, err))
            else:
                col.merge_dict(d)
                col.count('widths_run')


if __name__ == '__main__':
    if len(sys.argv) >= 7 and sys.argv[1] == '--child':
        child_main(int(sys.argv[2]), sys.argv[3], int(sys.argv[4]), int(sys.argv[5]), sys.argv[6])
