"""C04 - exceptions keep their class; glom failures are GlomErrors; default is selective.
(fault enumeration)

For every generated spec tree the fault-free reference run lists every invocation of an
instrumented callable; a fault (exception object from a catalogue) is planted at each
invocation in turn.  The reference interpreter, raising the very same object, decides
whether an enclosing Coalesce absorbs it; if it escapes, the object leaving glom() is
checked for class, args, GlomError-ness, identity (glom_debug), and the default /
skip_exc matrix.  Glom-detected failures are provoked directly and checked against the
documented subtype table.
"""
import os
import itertools
from collections import OrderedDict, namedtuple

from .. import env
from ..util import call_base
from ..report import short
from .. import automodel as am

glom = env.bind()
import glom as g  # noqa: E402
from glom import (T, S, A, GlomError, PathAccessError, CoalesceError, UnregisteredTarget, BadSpec, PathAssignError,  # noqa: E402
                  PathDeleteError, FoldError, MatchError, TypeMatchError, CheckError, Coalesce, Match, Check, Fold, Sum,
                  Flatten, Merge, Assign, Delete, Spec, M, Switch, Or, And, Not, Val, Iter, Path, Auto, glom as G)
from glom.grouping import Group, Limit  # noqa: E402
from glom import Glommer  # noqa: E402

META = {
    'level': 'fault_enumeration',
    'rule': ('spec trees from the C03 generator x every invocation of an instrumented callable in the fault-free run (fault position) '
             'x exception catalogue (builtins incl. OSError(2, x), UnicodeDecodeError, StopIteration, argument-less AssertionError; '
             'user classes with extra attributes, keyword-only and arity-changing constructors; user GlomError subclasses with and '
             'without their own __init__; BaseException subclasses) x default in {unset, sentinel} x skip_exc in {unset, type(E), a '
             'base of type(E), unrelated, tuple, GlomError, Exception} x glom_debug in {False, True}; plus every glom-detected failure '
             'kind provoked directly under the same matrix. Non-trivial: fault planted below the top level; distinct by (exception '
             'class, position class, matrix cell).'),
    'assumptions': [
        'BaseException-only classes must propagate unchanged (class, args, identity); wrapping them is not demanded',
        'a malformed spec is accepted as any GlomError that is also a TypeError',
    ],
}

SENT = object()


# ---------------------------------------------------------------------------
# exception catalogue: (name, factory)

class UserErr(Exception):
    def __init__(self, msg, code=7):
        Exception.__init__(self, msg)
        self.code = code


class KwOnlyErr(Exception):
    def __init__(self, *, code):
        Exception.__init__(self, 'kw-only')
        self.code = code


class ArityErr(Exception):
    def __init__(self, a, b):
        Exception.__init__(self, a)
        self.b = b


class MyGlomErr(GlomError):
    pass


class MyGlomErrInit(GlomError):
    def __init__(self, *, code):
        GlomError.__init__(self, 'coded')
        self.code = code


class MyGlomErrArity(GlomError):
    def __init__(self, a, b):
        GlomError.__init__(self, a)
        self.b = b


class MyGlomErrPrefix(GlomError):
    """the usual idiom: the constructor builds the message from its argument (so cls(*e.args) is not e)"""
    def __init__(self, what):
        super().__init__('quota exceeded for %s' % (what,))
        self.what = what


class MyGlomErrTyped(GlomError):
    """re-applying the constructor to its own args fails, and not with a TypeError (int('E007') -> ValueError)"""
    def __init__(self, code):
        super().__init__('E%03d' % int(code))


class MyGlomErrObj(GlomError):
    def __init__(self, user):
        super().__init__('no such user: ' + user.name)      # (cls(*args) -> AttributeError on the str)


class _User:
    name = 'kim'


class UserArithmeticError(ArithmeticError):
    pass


class UserErrPrefix(Exception):
    def __init__(self, what):
        super().__init__('failed: %s' % (what,))
        self.what = what


class FalsyErr(Exception):
    """an error object that is falsy (a collection of problems that happens to be reported empty, a result-like error)"""
    def __bool__(self):
        return False


class SizedErr(Exception):
    def __len__(self):
        return 0


class FalsyGlomErr(GlomError):
    def __bool__(self):
        return False


class MyTypeMatchErr(TypeMatchError):
    pass


class MyMatchErr(MatchError):
    pass


class MyCheckErr(CheckError):
    pass


class MyPathAccessErr(PathAccessError):
    pass


class MyBase(BaseException):
    pass


def _dyn(base, n=[0]):
    """a NEW class on every call, always named DynErr: distinct classes sharing one __name__"""
    n[0] += 1
    cls = type('DynErr', (base,), {'serial': n[0]})
    return cls('dyn', n[0])


class FinalErr(Exception):
    """an error class that refuses to be subclassed (a 'final' class)"""
    def __init_subclass__(cls, **kw):
        raise TypeError('FinalErr is final')


class _NeedsKw(type):
    def __new__(mcs, name, bases, ns, **kw):
        if 'registry' not in kw and name != 'MetaKwErr':
            raise TypeError('class keyword registry= is required')
        return super().__new__(mcs, name, bases, ns)

    def __init__(cls, name, bases, ns, **kw):
        super().__init__(name, bases, ns)


class MetaKwErr(Exception, metaclass=_NeedsKw):
    """an error class whose metaclass requires a class keyword of every subclass"""


CATALOGUE = [
    ('FinalErr', lambda: FinalErr('final', 1)), ('MetaKwErr', lambda: MetaKwErr('needs a class keyword')),
    ('ValueError', lambda: ValueError('bad value', 3)), ('KeyError', lambda: KeyError('k')), ('IndexError', lambda: IndexError(5)),
    ('AttributeError', lambda: AttributeError('attr')), ('TypeError', lambda: TypeError('type')),
    ('OSError', lambda: OSError(2, 'x')), ('UnicodeDecodeError', lambda: UnicodeDecodeError('utf-8', b'\xff', 0, 1, 'bad')),
    ('StopIteration', lambda: StopIteration('stop')), ('AssertionError', lambda: AssertionError()),
    ('Exception', lambda: Exception('plain')), ('ZeroDivisionError', lambda: ZeroDivisionError('z')),
    ('UserErr', lambda: UserErr('user', code=9)), ('KwOnlyErr', lambda: KwOnlyErr(code=1)), ('ArityErr', lambda: ArityErr('a', 'b')),
    ('MyGlomErr', lambda: MyGlomErr('mine', 2)), ('MyGlomErrInit', lambda: MyGlomErrInit(code=4)),
    ('MyGlomErrArity', lambda: MyGlomErrArity('a', 'b')),
    ('MyGlomErrPrefix', lambda: MyGlomErrPrefix('disk')), ('UserErrPrefix', lambda: UserErrPrefix('disk')),
    ('MyGlomErrTyped', lambda: MyGlomErrTyped(7)), ('MyGlomErrObj', lambda: MyGlomErrObj(_User())),
    ('OverflowError', lambda: OverflowError(34, 'Numerical result out of range')), ('FloatingPointError', lambda: FloatingPointError('fp')),
    ('UserArithmeticError', lambda: UserArithmeticError('ledger out of balance')),
    ('FalsyErr', lambda: FalsyErr('falsy')), ('SizedErr', lambda: SizedErr('sized')), ('FalsyGlomErr', lambda: FalsyGlomErr('falsy glom error')),
    ('DynErr(Exception)', lambda: _dyn(Exception)), ('DynErr(ValueError)', lambda: _dyn(ValueError)), ('DynErr(KeyError)', lambda: _dyn(KeyError)),
    ('KeyboardInterrupt', lambda: KeyboardInterrupt()), ('SystemExit', lambda: SystemExit(3)), ('MyBase', lambda: MyBase('base')),
    # messages that mention a file inside the glom package (what CPython says when an import from the package fails, or a data file
    # next to the sources is missing), multi-line messages with blank and pointer lines (parsers)
    ('ImportError(package path)', lambda: ImportError("cannot import name 'x' from 'glom' (%s)" % g.__file__)),
    ('FileNotFoundError(package path)', lambda: FileNotFoundError(2, 'No such file or directory', os.path.join(os.path.dirname(g.__file__), 'no_such_data.txt'))),
    ('UserErr(package path)', lambda: UserErr('could not load %s' % os.path.join(os.path.dirname(g.__file__), 'core.py'), code=5)),
    ('ValueError(multi-line)', lambda: ValueError('bad input\n\n    x = = 1\n        ^\nunexpected token')),
    # a user's subclasses of the library's more specific error classes (raised by the user's own validators / accessors)
    ('MyTypeMatchErr', lambda: MyTypeMatchErr(int, str)), ('MyMatchErr', lambda: MyMatchErr('custom mismatch {0}', 5)),
    ('MyCheckErr', lambda: MyCheckErr(['custom check failed'], Check(), ['p'])), ('MyPathAccessErr', lambda: MyPathAccessErr(KeyError('k'), Path('a', 'k'), 1)),
    ('MyGlomErr(multi-line)', lambda: MyGlomErr('line one\n  ~~~~\n', 2)),
]


def rebuildable(e):
    """can the class be rebuilt from its args (what makes wrapping as a GlomError possible)?"""
    try:
        type('probe', (type(e), GlomError), {})(*e.args)
        return True
    except Exception:
        return False


_EMPTY = ('skip_exc', ())      # marker: the empty tuple given explicitly (matches nothing)


def skip_exc_cells(e):
    cls = type(e)
    base = cls.__mro__[1] if len(cls.__mro__) > 2 else cls
    unrelated = ZeroDivisionError if not isinstance(e, ZeroDivisionError) else LookupError
    return [('unset', None), ('type', cls), ('base', base), ('unrelated', unrelated), ('tuple', (unrelated, cls)),
            ('GlomError', GlomError), ('Exception', Exception), ('empty-tuple', _EMPTY)]


def matrix(e):
    for dname, has_default in (('nodefault', False), ('default', True)):
        for sname, sk in skip_exc_cells(e):
            for debug in (False, True):
                kw = {}
                if has_default:
                    kw['default'] = SENT
                if sk is _EMPTY:
                    kw['skip_exc'] = ()
                elif sk is not None:
                    kw['skip_exc'] = sk
                if debug:
                    kw['glom_debug'] = True
                yield (dname, sname, debug), kw


def effective_skip(kw):
    """(skip_exc classes, default object or NOTHING) exactly as documented for glom()"""
    has_default = 'default' in kw
    if 'skip_exc' in kw:
        return kw['skip_exc'], (kw['default'] if has_default else None), True
    if has_default:
        return GlomError, kw['default'], True
    return (), None, False


def judge_escape(col, e_orig, got, kw, cell, desc, posclass, origin_is_glom=False, want_cls=None):
    """e_orig escapes all enclosing constructs in the reference; what may leave glom()?"""
    col.count('fault_runs')
    skip, dflt, active = effective_skip(kw)
    cname = type(e_orig).__name__ if e_orig is not None else want_cls.__name__
    key = 'user' if not origin_is_glom else 'glom'
    wit = {'spec': desc, 'exception': cname, 'kwargs': short({k: (v if k != 'default' else 'SENT') for k, v in kw.items()})}
    matches = isinstance(e_orig, skip) if e_orig is not None else issubclass(want_cls, skip)
    if active and matches:
        if not got.ok or got.value is not dflt:
            col.violation('C04/default-not-returned:%s:%s' % (key, cell[1]),
                          'glom(.., %s, %s): %s raised at %s matches skip_exc, expected the default object itself, got %r'
                          % (desc, wit['kwargs'], cname, posclass, got), wit)
        return
    if got.ok:
        col.violation('C04/error-swallowed:%s:%s' % (key, cell[1]),
                      'glom(.., %s, %s): %s raised at %s does not match skip_exc but glom returned %s'
                      % (desc, wit['kwargs'], cname, posclass, short(got.value)), wit)
        return
    r = got.exc
    if e_orig is None:
        # glom-detected failure: documented subtype, always a GlomError
        if not isinstance(r, want_cls) or not (isinstance(r, GlomError) or kw.get('glom_debug')):
            col.violation('C04/glom-failure-wrong-class:' + want_cls.__name__, '%s (%s): raised %r, documented %s'
                          % (desc, wit['kwargs'], r, want_cls.__name__), wit)
        return
    if kw.get('glom_debug'):
        if r is not e_orig:
            col.violation('C04/glom-debug-not-original-object:' + cname, '%s with glom_debug=True raised %r, not the original object' % (desc, r), wit)
        return
    if not isinstance(e_orig, Exception):
        if r is not e_orig:
            col.violation('C04/base-exception-not-propagated:' + cname, '%s: %s must propagate unchanged, got %r' % (desc, cname, r), wit)
        return
    if not isinstance(r, type(e_orig)):
        col.violation('C04/class-lost:' + cname, '%s: %r was raised inside the spec (%s), glom() raised %r (%s)'
                      % (desc, e_orig, posclass, r, type(r).__name__), wit)
        return
    if r.args != e_orig.args:
        col.violation('C04/args-changed:' + cname, '%s: original args %r, raised args %r' % (desc, e_orig.args, r.args), wit)
    if rebuildable(e_orig) and not isinstance(r, GlomError):
        col.violation('C04/not-a-GlomError:' + cname, '%s: %s can be rebuilt from its args but the raised object is no GlomError: %r'
                      % (desc, cname, r), wit)


def fault_cases(col, rng, n_exc):
    gen = am.Gen(rng)
    target = gen.target(rng.randint(1, 3))
    if not isinstance(target, (dict, list)):
        target = {'a': target}
    node = gen.spec(target, rng.randint(1, 3))
    spec = am.build(node)
    desc = am.describe(node)
    log = []
    for f in gen.fns:
        f.log, f.calls, f.fault = log, 0, None
    try:
        am.ref(node, target)
    except Exception:
        return
    steps = []        # (fn, n-th call of that fn)
    per_fn = {}
    by_tag = {f.tag: f for f in gen.fns}
    for entry in log:
        f = by_tag[entry[0]]
        per_fn[f.tag] = per_fn.get(f.tag, 0) + 1
        steps.append((f, per_fn[f.tag]))
    if not steps:
        return
    top_level = node[0] == 'fn'
    for si, (f, nth) in enumerate(steps):
        posclass = 'step %d/%d of %s' % (si + 1, len(steps), node[0])
        for ename, mk in rng.sample(CATALOGUE, n_exc):
            probe = mk()
            for cell, kw in matrix(probe):
                e = mk()
                for ff in gen.fns:
                    ff.log, ff.calls, ff.fault = None, 0, None
                f.fault = (nth, e)
                try:
                    want = ('value', am.ref(node, target))
                except am.RefGlom as rg:
                    want = ('glom', rg)
                except BaseException as raised:
                    want = ('user', raised)
                for ff in gen.fns:
                    ff.calls = 0
                entry_name, entry = ENTRY_POINTS[(si + len(cell[1]) + len(ename)) % len(ENTRY_POINTS)]
                got = call_base(entry, target, spec, **kw)
                if entry_name != 'glom':
                    posclass = posclass.split(' via ')[0] + ' via ' + entry_name
                col.case((ename, node[0], si == 0, cell), not top_level)
                col.count('faults_injected')
                if want[0] == 'user':
                    if want[1] is not e:
                        continue      # another exception surfaced first in the reference (not generated today)
                    judge_escape(col, e, got, kw, cell, desc, posclass)
                elif want[0] == 'value':
                    # absorbed by an enclosing Coalesce: the result must be the composition's value
                    col.count('faults_absorbed')
                    if not got.ok:
                        col.violation('C04/absorbed-fault-escapes:' + ename, '%s: %s planted at %s is absorbed by an enclosing Coalesce '
                                      '(value %s), glom raised %r' % (desc, ename, posclass, short(want[1]), got.exc),
                                      {'spec': desc, 'exception': ename})
                    elif got.value != want[1] and not (kw.get('default') is SENT and got.value is SENT):
                        col.violation('C04/absorbed-fault-changes-result:' + ename, '%s: expected %s, got %s'
                                      % (desc, short(want[1]), short(got.value)), {'spec': desc})
                else:
                    judge_escape(col, None, got, kw, cell, desc, posclass, True, am.real_class(want[1]))
        f.fault = None
    if col.want_sample('fault'):
        col.sample({'spec': desc, 'target': short(target, 120), 'fault_positions': len(steps),
                    'matrix_cells_per_fault': 28}, 'fault')


class Raiser:
    """callable raising the given exception object"""
    def __init__(self):
        self.exc = None
        self.__name__ = 'raiser'

    def __call__(self, *a, **kw):
        raise self.exc

    def __repr__(self):
        return '<raiser>'


def argument_position_faults(col, rng, n_exc):
    """the fault is raised while an ARGUMENT is being evaluated: evaluated index, call argument, container literals (list, dict,
    tuple, set, frozenset) in default= / Call / S(...) / Assign value, Invoke.specs, dict key given as Spec"""
    from glom import Spec, Call, Invoke, S, Assign
    f = Raiser()
    sf = Spec(f)
    target = {'d': {'k': 1, 'lst': [1, 2]}, 'fn': (lambda *a, **kw: (a, kw))}
    shapes = [
        ('T-index', lambda: T['d'][sf]), ('T-index-nested', lambda: T['d'][T['d']['lst'][sf]]), ('T-call-arg', lambda: T['fn'](sf)),
        ('T-call-kwarg', lambda: T['fn'](k=sf)), ('T-call-tuple', lambda: T['fn']((sf, 1))), ('T-call-set', lambda: T['fn']({sf})),
        ('T-arith', lambda: T['d']['k'] + sf), ('Call-args', lambda: Call(target['fn'], args=(sf,))),
        ('Call-args-tuple', lambda: Call(target['fn'], args=((1, sf),))), ('Call-kwargs', lambda: Call(target['fn'], kwargs={'x': [sf]})),
        ('Coalesce-default', lambda: Coalesce('zz', default=sf)), ('Coalesce-default-tuple', lambda: Coalesce('zz', default=(sf, 2))),
        ('Coalesce-default-frozenset', lambda: Coalesce('zz', default=frozenset([sf]))), ('Coalesce-default-dict', lambda: Coalesce('zz', default={'k': sf})),
        ('S-assign', lambda: (S(x=sf), S.x)), ('S-assign-tuple', lambda: (S(x=(sf,)), S.x)), ('Assign-value', lambda: Assign('d.new', sf)),
        ('Assign-value-tuple', lambda: Assign('d.new', (sf, sf))), ('Invoke-specs', lambda: Invoke(target['fn']).specs(sf)),
        ('dict-key-spec', lambda: {sf: 'd'}), ('Check-default', lambda: Check(type=int, default=(sf,))),
        # (not Match(default=[Spec(f)]): inside Match a callable is a predicate, its exception is reported as a MatchError by design)
    ]
    always = [c for c in CATALOGUE if c[0] in ('StopIteration', 'KeyError', 'TypeError', 'IndexError', 'MyGlomErrPrefix', 'MyGlomErrTyped', 'MyGlomErrObj')]
    for name, mk in shapes:
        for ename, mkexc in always + rng.sample(CATALOGUE, n_exc):
            probe = mkexc()
            for cell, kw in matrix(probe):
                e = mkexc()
                f.exc = e
                import copy
                got = call_base(G, {'d': {'k': 1, 'lst': [1, 2]}, 'fn': target['fn']}, mk(), **kw)
                col.case(('arg-position', name, ename, cell), True)
                col.count('faults_injected')
                col.count('argument_position_faults')
                judge_escape(col, e, got, kw, cell, 'fault while evaluating %s' % name, 'argument position ' + name)


class _FaultyNode:
    """a node of the TARGET whose attribute / item / method access raises the planted exception"""
    def __init__(self, raiser):
        object.__setattr__(self, '_raiser', raiser)

    @property
    def prop(self):
        raise self._raiser.exc

    def __getitem__(self, k):
        raise self._raiser.exc

    def meth(self, *a):
        raise self._raiser.exc

    def __setitem__(self, k, v):
        raise self._raiser.exc

    def __delitem__(self, k):
        raise self._raiser.exc

    def __mul__(self, other):
        raise self._raiser.exc

    __add__ = __truediv__ = __pow__ = __and__ = __mod__ = __floordiv__ = __mul__

    def __neg__(self):
        raise self._raiser.exc

    def __setattr__(self, name, v):
        raise self._raiser.exc

    def __delattr__(self, name):
        raise self._raiser.exc


class _FineNode:
    prop = 1

    def __init__(self):
        self.attr = 'a'

    def __getitem__(self, k):
        return 2

    def meth(self, *a):
        return 3

    def __setitem__(self, k, v):
        pass

    def __delitem__(self, k):
        pass


def target_raised_faults(col, rng, n_exc):
    """the fault is raised BY THE TARGET while a T step is applied to it - directly, and in the rest of the path behind a
    T-style * / ** (where only a PathAccessError of a child means "this child does not have the rest of the path").
    Exception classes that are the native lookup error of the step ('.' AttributeError, '[' KeyError/IndexError/TypeError)
    are left to C01/C02/C14 (they become PathAccessErrors, and misses behind a star); every other class must leave glom()
    under the same rules as an exception raised by a callable in the spec."""
    from glom import Assign
    f = Raiser()
    shapes = [
        ('T-attr', lambda: T['one'].prop, (AttributeError,)), ('T-item', lambda: T['one']['k'], (KeyError, IndexError, TypeError)),
        ('T-method', lambda: T['one'].meth(1), ()),
        ('T-star-attr', lambda: T['items'].__star__().prop, (AttributeError,)),
        ('T-star-item', lambda: T['items'].__star__()['k'], (KeyError, IndexError, TypeError)),
        ('T-star-method', lambda: T['items'].__star__().meth(1), ()),
        ('T-star-attr-then-more', lambda: T['items'].__star__().prop.real, (AttributeError,)),
        ('T-starstar-method', lambda: T['wrap'].__starstar__().meth(1), ()),
        ('T-star-in-list', lambda: ('groups', [T.__star__().prop]), (AttributeError,)),
        # the final step of an Assign / Delete given as T expression: item and attribute stores / deletions of the target
        # that raise (Delete documents KeyError / IndexError / AttributeError there as "missing": PathDeleteError)
        # arithmetic of the target's own objects that raises (documented as positions of a PathAccessError: TypeError and
        # ZeroDivisionError; an OverflowError or a user's ArithmeticError subclass is not)
        ('T-arith-mul', lambda: T['one'] * 2, (TypeError, ZeroDivisionError)), ('T-arith-div', lambda: T['one'] / 3.0, (TypeError, ZeroDivisionError)),
        ('T-arith-pow', lambda: T['one'] ** 2, (TypeError, ZeroDivisionError)), ('T-arith-floordiv', lambda: T['one'] // 2, (TypeError, ZeroDivisionError)),
        ('T-arith-neg', lambda: -T['one'], (TypeError, ZeroDivisionError)),
        ('Assign-T-item', lambda: Assign(T['one']['k'], 1), ()), ('Assign-T-attr', lambda: Assign(T['one'].attr, 1), ()),
        ('Delete-T-item', lambda: Delete(T['one']['k']), (KeyError, IndexError)), ('Delete-T-attr', lambda: Delete(T['one'].attr), (AttributeError,)),
        ('Assign-T-item-behind-star', lambda: Assign(T['items'].__star__()['k'], 1), ()),
        ('Delete-T-attr-behind-star', lambda: Delete(T['items'].__star__().attr), (AttributeError,)),
        ('Delete-T-item-ignore-missing', lambda: Delete(T['one']['k'], ignore_missing=True), (KeyError, IndexError)),
    ]
    always = [c for c in CATALOGUE if c[0] in ('MyGlomErr', 'MyGlomErrInit', 'MyGlomErrPrefix', 'MyGlomErrTyped', 'ValueError', 'UserErr', 'TypeError', 'KeyError', 'OverflowError', 'UserArithmeticError')]
    for name, mk, native in shapes:
        for ename, mkexc in always + rng.sample(CATALOGUE, n_exc):
            probe = mkexc()
            if native and isinstance(probe, native):
                continue
            if isinstance(probe, PathAccessError) and 'star' in name:
                continue      # behind a wildcard a PathAccessError of a child (of any subclass) means "this child lacks the rest of the path"
            for cell, kw in matrix(probe):
                e = mkexc()
                f.exc = e
                items = [_FineNode(), _FaultyNode(f), _FineNode()]
                target = {'one': _FaultyNode(f), 'items': items, 'wrap': {'x': [_FineNode(), _FaultyNode(f)]}, 'groups': [items, items]}
                got = call_base(G, target, mk(), **kw)
                col.case(('target-raised', name, ename, cell), True)
                col.count('faults_injected')
                col.count('target_raised_faults')
                judge_escape(col, e, got, kw, cell, 'fault raised by the target at %s' % name, 'target access ' + name)


class _LazyRows:
    """an iterable whose iter() succeeds and whose n-th next() raises the planted exception (a generator body failing half way,
    a cursor losing its connection): kind 'gen' is a real generator, 'iter' a hand-written iterator class"""
    def __init__(self, raiser, items, kind):
        self.raiser, self.items, self.kind = raiser, items, kind

    def __iter__(self):
        if self.kind == 'gen':
            return self._gen()
        return _LazyIt(self)

    def _gen(self):
        for it in self.items:
            yield it
        raise self.raiser.exc


class _LazyIt:
    __slots__ = ('rows', 'i')

    def __init__(self, rows):
        self.rows, self.i = rows, 0

    def __iter__(self):
        return self

    def __next__(self):
        if self.i >= len(self.rows.items):
            raise self.rows.raiser.exc
        self.i += 1
        return self.rows.items[self.i - 1]


def faults_raised_while_the_target_is_iterated(col, rng, n_exc):
    """the fault is raised by the target's iterator after iter() succeeded (n items delivered first): under a list spec, Iter, Fold,
    Sum, Flatten, Merge, Group, at top level, below a path and as a chain step.  (A failing iter() itself is reported by glom as
    "failed to iterate", a detection of its own, and is not generated.)"""
    from glom import Iter, Fold, Sum, Flatten, Merge, Pipe
    from glom.grouping import Group
    f = Raiser()
    shapes = [
        ('list-spec', lambda: [T], 'int'), ('list-spec-below-path', lambda: ('rows', [T]), 'int'), ('list-spec-chained', lambda: (T, [T], len), 'int'),
        ('list-spec-in-dict', lambda: {'k': ('rows', [T])}, 'int'), ('nested-list-spec', lambda: [[T]], 'nested'),
        ('Iter-all', lambda: Iter().all(), 'int'), ('Iter-map-all', lambda: Iter().map(T).all(), 'int'), ('Iter-chunked', lambda: (Iter().chunked(2), list), 'int'),
        ('Iter-then-list', lambda: (Iter(), list), 'int'), ('Iter-below-path', lambda: ('rows', Iter().filter(T).all()), 'int'),
        ('Fold', lambda: Fold(T, init=int), 'int'), ('Sum', lambda: Sum(), 'int'), ('Sum-below-path', lambda: Sum('rows'), 'int'),
        ('Flatten', lambda: Flatten(), 'lists'), ('Flatten-lazy', lambda: (Flatten(init='lazy'), list), 'lists'), ('Merge', lambda: Merge(), 'dicts'),
        ('Group-list', lambda: Group([T]), 'int'), ('Group-dict', lambda: Group({T: [T]}), 'int'), ('Pipe-list-spec', lambda: Pipe('rows', [T]), 'int'),
    ]
    always = [c for c in CATALOGUE if c[0] in ('ValueError', 'KeyError', 'TypeError', 'OSError', 'MyGlomErr', 'MyGlomErrPrefix', 'UserErr', 'FalsyErr')]
    for name, mk, item_kind in shapes:
        for ename, mkexc in always + rng.sample(CATALOGUE, n_exc):
            probe = mkexc()
            if isinstance(probe, StopIteration):
                continue        # (the iterator protocol's own end marker)
            for n_before in (0, 2):
                for kind in ('gen', 'iter'):
                    for cell, kw in matrix(probe):
                        e = mkexc()
                        f.exc = e
                        items = {'int': [3, 1, 2], 'lists': [[1], [2], [3]], 'dicts': [{'a': 1}, {'b': 2}, {'c': 3}], 'nested': [[1], [2]]}[item_kind][:n_before]
                        rows = _LazyRows(f, items, kind)
                        if item_kind == 'nested':
                            rows = [[1, 2], rows]
                        below = 'rows' in repr(mk())
                        target = {'rows': rows} if below else rows
                        got = call_base(G, target, mk(), **kw)
                        col.case(('target-iteration', name, ename, n_before, kind, cell), True)
                        col.count('faults_injected')
                        col.count('faults_raised_by_the_target_iterator')
                        judge_escape(col, e, got, kw, cell, 'fault raised by the %d. next() of the target (%s) under %s' % (n_before + 1, kind, name),
                                     'iteration of the target ' + name)


class _EqualToAll:
    def __eq__(self, other): return True
    def __ne__(self, other): return False
    __hash__ = object.__hash__


class _EqualToNone:
    def __eq__(self, other): return False
    def __ne__(self, other): return True
    __hash__ = object.__hash__


class _NoTruth:
    def __bool__(self): raise ValueError('the truth value of a comparison result is ambiguous')


class _ElementwiseEq:
    """like an array: == answers with an object that has no truth value"""
    def __eq__(self, other): return _NoTruth()
    def __ne__(self, other): return _NoTruth()
    __hash__ = object.__hash__


class _Falsy:
    def __bool__(self): return False
    def __len__(self): return 0


class _RaisingEq:
    def __eq__(self, other): raise RuntimeError('not comparable')
    def __ne__(self, other): raise RuntimeError('not comparable')
    __hash__ = object.__hash__


def default_object_is_returned_itself(col):
    """"replaced by the default object itself": whatever the default is - a container, a T expression, a Spec - it is not
    interpreted, copied or evaluated; through glom(), Glommer.glom and Spec.glom"""
    from glom import Spec, Glommer
    g = Glommer()
    defaults = [('list', lambda: ['d', T['x']]), ('dict', lambda: {'k': T}), ('tuple', lambda: (T, 1)), ('set', lambda: {1, 2}),
                ('empty-list', lambda: []), ('T', lambda: T['nope']['deeper']), ('bare-T', lambda: T), ('Val', lambda: Val(3)),
                ('Spec', lambda: Spec('a.b')), ('callable', lambda: len), ('string', lambda: 'a.b'),
                # objects with an unusual notion of equality / truth: the default is handed back, never compared or tested
                ('equal-to-everything', lambda: _EqualToAll()), ('equal-to-nothing', lambda: _EqualToNone()),
                ('comparison-without-truth-value', lambda: _ElementwiseEq()), ('falsy-object', lambda: _Falsy()),
                ('raising-eq', lambda: _RaisingEq())]
    entries = [('glom', lambda t, s, **kw: G(t, s, **kw)), ('Glommer.glom', lambda t, s, **kw: g.glom(t, s, **kw)),
               ('Spec.glom', lambda t, s, **kw: Spec(s).glom(t, **kw))]
    for dname, mk in defaults:
        for ename, entry in entries:
            for sname, extra in (('default-only', {}), ('skip_exc', {'skip_exc': KeyError}), ('skip_exc-tuple', {'skip_exc': (ValueError, GlomError)})):
                d = mk()
                got = call_base(entry, {'a': 1}, 'zz.q', default=d, **extra)
                col.case(('default-identity', dname, ename, sname), True)
                col.count('default_identity_checks')
                if not got.ok or got.value is not d:
                    col.violation('C04/default-not-returned-itself:%s:%s' % (dname, ename),
                                  '%s({..}, "zz.q", default=<%s>%s): %r, expected the very object passed as default'
                                  % (ename, dname, ', ' + sname if extra else '', got), None)


class Unreg:
    __slots__ = ()


_Pair = namedtuple('_Pair', 'first second')


class _SlotLeaf:
    __slots__ = ()


_GLOMMER = Glommer()
ENTRY_POINTS = [('glom', G), ('Glommer().glom', _GLOMMER.glom), ('Spec(..).glom', lambda target, spec, **kw: Spec(spec).glom(target, **kw))]


def glom_detected(col):
    """every documented failure kind, provoked directly, under the whole matrix"""
    table = [
        ('missing path', {'a': 1}, 'a.b.c', PathAccessError), ('missing key T', {}, T['k'], PathAccessError),
        ('missing attr T', 1, T.nope, PathAccessError), ('S missing', {}, S.nope, PathAccessError),
        ('unregistered iterate', 5, ['x'], UnregisteredTarget), ('unregistered iterate nested', {'a': None}, ('a', [T]), UnregisteredTarget),
        ('exhausted coalesce', {}, Coalesce('a', 'b'), CoalesceError), ('coalesce in dict', {}, {'k': Coalesce('a', T['b'])}, CoalesceError),
        ('fold non-iterable', 5, Fold(T, init=int), FoldError), ('sum non-iterable', None, Sum(), FoldError),
        ('flatten non-iterable', 1.5, Flatten(), FoldError), ('merge non-iterable', 0, Merge(), FoldError),
        ('match literal', 1, Match(2), MatchError), ('match type', 'a', Match(int), TypeMatchError),
        ('match dict key', {'x': 1}, Match({'y': int}), MatchError), ('M compare', 1, M > 5, MatchError), ('Not', 1, Not(M), MatchError),
        ('switch no match', 3, Match(Switch({1: 'a'})), MatchError), ('Or all fail', 3, Match(Or(1, 2)), MatchError),
        ('check type', 'a', Check(type=int), CheckError), ('check validate', 0, Check(validate=lambda x: x > 0), CheckError),
        # the value that is checked may be anything - unhashable, with an __eq__ of its own: a value that is not among the allowed
        # ones fails the Check
        ('check one_of, list value', [1, 2], Check(one_of=(1, 2, 'a')), CheckError), ('check one_of, dict value', {'k': 1}, Check(one_of=['a', 'b']), CheckError),
        ('check one_of, set value', {1}, Check(one_of=(1, 2)), CheckError), ('check one_of, value with __eq__', _EqualToNone(), Check(one_of=(1, 2)), CheckError),
        ('check one_of below a path', {'v': [1]}, Check('v', one_of=('x', 'y')), CheckError), ('check one_of, unhashable allowed values', 3, Check(one_of=([1], [2])), CheckError),
        ('check equal_to, list value', [1], Check(equal_to=1), CheckError), ('check equal_to unhashable', 1, Check(equal_to=[1]), CheckError),
        ('check one_of per item', [[1], 'zz'], [Check(one_of=('a', 'b'))], CheckError), ('check instance_of, list value', [1], Check(instance_of=(int, str)), CheckError),
        ('assign to tuple', (1,), Assign('0', 5), GlomError),   # (UnregisteredTarget today, PathAssignError per the Assign docstring) ('assign bad index', [1], Assign('5', 0), PathAssignError),
        ('assign missing parent', {}, Assign('a.b', 1), PathAccessError),
        ('delete missing', {}, Delete('a'), PathDeleteError), ('delete missing index', [1], Delete('5'), PathDeleteError),
        ('delete missing T key', {}, Delete(T['k']), PathDeleteError), ('delete missing parent', {}, Delete('a.b'), PathAccessError),
        ('A without destination', 1, A, BadSpec), ('group bad spec', [1], Group('no strings'), BadSpec),
        ('group dict in list', [1], Group([{T: T}]), BadSpec),
        # tuples are not Group specs, whatever their length (a Pipe written as a tuple, an empty tuple, a namedtuple)
        ('group 2-tuple spec', [1], Group((T, T)), BadSpec), ('group 3-tuple as dict value', [1], Group({T: (T, T, T)}), BadSpec),
        ('group empty tuple in list', [1], Group([()]), BadSpec), ('group 1-tuple spec', [1], Group((T,)), BadSpec),
        ('group namedtuple spec', [1], Group({T: _Pair(T, T)}), BadSpec), ('group tuple under Limit', [1], Group(Limit(2, (T, T))), BadSpec),
        ('group set spec', [1], Group({T: frozenset(['a', 'b'])}), BadSpec), ('malformed spec', {}, 5, TypeError), ('malformed nested', {'a': 1}, {'k': 5}, TypeError),
        ('path on None', None, 'a', PathAccessError), ('index str', [1], 'x', PathAccessError),
        # a segment that the container cannot even look up (unhashable, e.g. taken from JSON data): still a failed access
        ('unhashable segment on dict', {'a': {}}, Path('a', ['x']), PathAccessError), ('unhashable segment on OrderedDict', OrderedDict(a=1), Path(['x']), PathAccessError),
        ('unhashable T key on dict', {'a': {}}, T['a'][['x']], PathAccessError), ('dict-valued segment on dict', {}, Path({'k': 1}), PathAccessError),
        ('unhashable segment on list', [1], Path(['x']), PathAccessError), ('set-valued segment below a path', {'a': {'b': {}}}, Path('a', 'b', {1}), PathAccessError),
        # a failure INSIDE the subspec of a reduction is that failure, not the reduction's own "target not iterable"
        ('unregistered inside Sum subspec', {'rows': 5}, Sum(('rows', [T])), UnregisteredTarget),
        ('unregistered inside Flatten subspec', {'rows': None}, Flatten(('rows', [T])), UnregisteredTarget),
        ('unregistered inside Merge subspec', {'rows': 2.5}, Merge(('rows', [T])), UnregisteredTarget),
        ('unregistered inside Fold subspec', {'rows': 5}, Fold(('rows', [T]), init=int), UnregisteredTarget),
        ('missing path inside Sum subspec', {}, Sum('rows'), PathAccessError),
        # the VALUE spec of an Assign fails (the destination, present or to be created, has nothing to do with it)
        ('assign value spec fails, missing= given', {'a': {}}, Assign('a.b.c', Spec('x.y'), missing=dict), PathAccessError),
        ('assign value T fails, missing= given', {'a': {}}, Assign('a.b', T['nope'], missing=dict), PathAccessError),
        ('assign value spec fails', {'a': {}}, Assign('a.b', Spec('x.y')), PathAccessError),
    ]
    # ... and the same kinds of failure AFTER wildcard walks have visited leaves of those very types (what a walk learns about a type
    # must not change what a later list spec / reduction says about it)
    import datetime, decimal, uuid
    leaves = [datetime.date(2020, 1, 2), decimal.Decimal('1.5'), uuid.UUID(int=7), _SlotLeaf(), object(), 2.5, None, 5, True, 'text', b'bytes']
    for walk in ('*', '**', T.__star__(), Path('box', T.__starstar__())):
        call_base(G, {'box': {'leaves': list(leaves), 'pair': tuple(leaves[:3])}}, walk)
    for leaf in leaves:
        tn = type(leaf).__name__
        table += [('unregistered iterate after a walk: ' + tn, leaf, ['x'], UnregisteredTarget), ('Iter of a leaf after a walk: ' + tn, leaf, (Iter(), list), UnregisteredTarget),
                  ('Sum of a leaf after a walk: ' + tn, leaf, Sum(), FoldError), ('Flatten below a path after a walk: ' + tn, {'v': leaf}, Flatten('v'), FoldError),
                  ('Merge of a leaf after a walk: ' + tn, leaf, Merge(), FoldError)]
    for name, target, spec, cls in table:
        for cell, kw in matrix(ValueError()):
            if cell[1] in ('type', 'base', 'tuple'):
                kw = dict(kw)
                kw['skip_exc'] = {'type': cls, 'base': cls.__mro__[1] if cls.__mro__[1] is not object else cls,
                                  'tuple': (ZeroDivisionError, cls)}[cell[1]]
            import copy
            # default= and skip_exc= mean the same through every entry point that takes them
            for ename, entry in ENTRY_POINTS:
                got = call_base(entry, copy.deepcopy(target), spec, **kw)
                col.case(('detected', name, cell, ename), True)
                col.count('glom_detected_runs')
                judge_escape(col, None, got, kw, cell, '%s(%s, %s)' % (ename, short(target), short(spec)), 'glom-detected: ' + name +
                             ('' if ename == 'glom' else ' via ' + ename), True, cls)
            if not got.ok and not isinstance(got.exc, GlomError) and not kw.get('glom_debug'):
                col.violation('C04/glom-failure-not-a-GlomError:' + name, '%s raised %r' % (name, got.exc), None)


def faults_inside_other_constructs(col, rng, n_exc):
    """the fault is raised by a user callable that some OTHER construct invokes: the key of First / Iter().first, the stages of an
    Iter pipeline, a Fold operator, a Group key or value, Invoke / Call functions, a Switch key in Auto mode, a binder's value,
    the value of an Assign, a Ref body - alone and as a later step of a chain"""
    from glom import Spec, Call, Invoke, S, Assign, Iter, Fold, Sum, Flatten, Merge, Ref, Switch, Pipe, Val
    from glom.grouping import Group
    from glom.streaming import First
    f = Raiser()
    ok_fn = lambda *a, **kw: a
    shapes = [
        ('First-key', lambda: First(f)), ('First-key-chained', lambda: (T, First(f))), ('First-key-after-two-steps', lambda: ('d', 'lst', First(f))),
        ('Iter.first-key', lambda: Iter().first(f)), ('Iter.first-key-chained', lambda: ('d', 'lst', Iter().first(f))),
        ('Iter-base', lambda: (Iter(f), list)), ('Iter.map', lambda: Iter().map(f).all()), ('Iter.filter', lambda: Iter().filter(f).all()),
        ('Iter.takewhile', lambda: Iter().takewhile(f).all()), ('Iter.unique-key', lambda: Iter().unique(f).all()),
        ('Iter.map-chained', lambda: ('d', 'lst', Iter().map(f).all())),
        ('Fold-op', lambda: Fold(T, init=int, op=f)), ('Fold-subspec', lambda: Fold(f, init=int)), ('Sum-subspec', lambda: Sum(f)),
        ('Flatten-subspec', lambda: Flatten(f)), ('Merge-subspec', lambda: Merge(f)), ('Fold-init', lambda: Fold(T, init=f)),
        ('Group-key', lambda: Group({f: [T]})), ('Group-value', lambda: Group({T: f})), ('Group-list-element', lambda: Group([f])),
        ('Invoke-func', lambda: Invoke(f).specs(T)), ('Call-func', lambda: Call(f, args=(T,))), ('Invoke-star-spec', lambda: Invoke(ok_fn).star(args=f)),
        ('Switch-key-auto', lambda: Switch([(f, T)])), ('Switch-value', lambda: Switch([(T, f)])),
        ('binder-value', lambda: (S(x=Spec(f)), S.x)), ('Assign-value-spec', lambda: Assign('d.new', Spec(f))),
        ('Ref-body', lambda: Ref('r', (T, f))), ('Pipe-last', lambda: Pipe(T, T, f)), ('dict-value-after-chain', lambda: ('d', {'k': ('lst', f)})),
        ('list-element-after-chain', lambda: ('d', 'lst', [f])), ('Spec-glom-entry', lambda: Spec((T, f))),
        # Match-mode sequence / set patterns try their alternatives per item; the error of the last alternative is what is raised
        ('Match-list-only-alternative', lambda: Match([Auto(f)])), ('Match-list-last-alternative', lambda: Match([M == 'never', Auto(f)])),
        ('Match-list-in-Or-last-child', lambda: Match(Or(M == 'never', [Auto(f)]))), ('Match-tuple-member', lambda: Match((int, Auto(f), int))),
        ('Match-dict-value', lambda: ('d', Match({'k': Auto(f), 'lst': list}))),
    ]
    always = [c for c in CATALOGUE if c[0] in ('ValueError', 'KeyError', 'IndexError', 'StopIteration', 'MyGlomErrPrefix', 'FalsyErr', 'SizedErr', 'FalsyGlomErr',
                                               'ImportError(package path)', 'ValueError(multi-line)')]
    for name, mk in shapes:
        for ename, mkexc in always + rng.sample(CATALOGUE, n_exc):
            probe = mkexc()
            if isinstance(probe, StopIteration) and name.split('-')[0].split('.')[0] in ('First', 'Iter'):
                continue      # the iterator protocol reserves StopIteration: inside map / filter / next() it ends the stream (as in plain Python)
            if isinstance(probe, GlomError) and name == 'Switch-key-auto':
                continue      # a key spec failing with a GlomError is "this case does not apply", by design
            if name == 'Match-dict-value':
                pass
            for cell, kw in matrix(probe):
                e = mkexc()
                f.exc = e
                target = [3, 1, 2] if name.split('-')[0] in ('Match', 'First', 'Iter', 'Iter.first', 'Iter.map', 'Iter.filter', 'Iter.takewhile', 'Iter.unique', 'Fold', 'Sum',
                                                            'Flatten', 'Merge', 'Group') and 'chained' not in name and 'after' not in name \
                    else {'d': {'k': 1, 'lst': [3, 1, 2]}}
                if name == 'Match-tuple-member':
                    target = (3, 1, 2)
                elif name == 'Match-dict-value':
                    target = {'d': {'k': 1, 'lst': [3, 1, 2]}}
                got = call_base(G, target, mk(), **kw)
                col.case(('construct-position', name, ename, cell), True)
                col.count('faults_injected')
                col.count('faults_inside_other_constructs')
                judge_escape(col, e, got, kw, cell, 'fault raised by a callable invoked by %s' % name, 'construct ' + name)


def wrapping_does_not_depend_on_earlier_errors(col):
    """"whenever that class can be rebuilt from its args the raised object is also a GlomError" is decided per error, by THAT error's
    args: an earlier error of the same class that could not be rebuilt (its args were changed after construction), or an earlier error
    of another class with the same name, changes nothing for the next one"""
    class NeedTwo(Exception):
        def __init__(self, a, b):
            Exception.__init__(self, a, b)

    def mk_named(init):
        return type('ParseError', (Exception,), {'__init__': init})
    ParseA = mk_named(lambda self, msg, pos: Exception.__init__(self, msg, pos))
    ParseB = mk_named(lambda self, text: Exception.__init__(self, text))

    def altered():
        e = NeedTwo(1, 2)
        e.args = e.args + ('while reading x',)
        return e

    def emptied():
        e = NeedTwo(1, 2)
        e.args = ()
        return e
    seq = [('NeedTwo with args extended after construction', altered, False), ('NeedTwo(3, 4) afterwards', lambda: NeedTwo(3, 4), True),
           ('NeedTwo with args emptied', emptied, False), ('NeedTwo(5, 6) afterwards', lambda: NeedTwo(5, 6), True),
           ("first class named ParseError (msg, pos)", lambda: ParseA('bad token', 7), True), ("second class named ParseError (text)", lambda: ParseB("cannot parse 'a;b'"), True),
           ("first class again", lambda: ParseA('bad token', 9), True), ('KeyError after all that', lambda: KeyError('k'), True)]
    for entry_name, entry in ENTRY_POINTS:
        for desc, mk, want_glom in seq:
            e = mk()

            def boom(t, e=e):
                raise e
            got = call_base(entry, {'a': 1}, ('a', boom))
            col.case(('wrapping-sequence', entry_name, desc), True)
            col.count('fault_runs')
            ok = (not got.ok) and isinstance(got.exc, type(e)) and got.exc.args == e.args and isinstance(got.exc, GlomError) == want_glom
            if not ok:
                col.violation('C04/wrapping-depends-on-earlier-errors', '%s via %s: raised %r inside the spec, glom() raised %r (%s) ; expected an instance of %s with the same args that '
                              'is %sa GlomError' % (desc, entry_name, e, getattr(got, 'exc', got), type(getattr(got, 'exc', None)).__mro__[:3] if not got.ok else 'returned',
                                                    type(e).__name__, '' if want_glom else 'not '), None)


def run(ctx):
    col, rng = ctx.col, ctx.rng
    col.require('faults_injected', 5000)
    col.require('fault_runs', 3000)
    col.require('faults_absorbed', 20)
    if ctx.shard == 0:
        glom_detected(col)
        default_object_is_returned_itself(col)
        wrapping_does_not_depend_on_earlier_errors(col)
        col.require('glom_detected_runs', 500)
    argument_position_faults(col, rng, 1 if not ctx.thorough else 6)
    col.require('argument_position_faults', 500)
    if ctx.shard == 0:
        faults_inside_other_constructs(col, rng, 1 if not ctx.thorough else 6)
        col.require('faults_inside_other_constructs', 500)
    target_raised_faults(col, rng, 2 if not ctx.thorough else 8)
    col.require('target_raised_faults', 500)
    if ctx.shard == 0 or ctx.thorough:
        faults_raised_while_the_target_is_iterated(col, rng, 1 if not ctx.thorough else 4)
        col.require('faults_raised_by_the_target_iterator', 500)
    for i in range(ctx.n(700, 4000)):
        fault_cases(col, rng, 3 if not ctx.thorough else 5)
