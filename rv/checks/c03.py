"""C03 - Auto-mode restructuring is compositional in its sub-specs.

Oracle: `automodel.ref`, a compositional reference interpreter implementing only the
stated laws, run over the same instrumented callables in "model mode" (second log).
Monitors: two independent call logs (order, exactly-once), EvalTracer frame tree
(each sub-spec object entered left to right), and the metamorphic chain law
glom(t, (a, b)) == glom(glom(t, a), b) checked with glom itself.
"""
from collections import OrderedDict

from .. import env
from ..util import call, StepBudget
from ..report import short
from ..snapshot import snapshot
from .. import automodel as am
from ..monitors import EvalTracer

glom = env.bind()
from glom import T, SKIP, STOP, GlomError, Coalesce, Pipe, Spec, glom as G  # noqa: E402

META = {
    'level': 'exploration',
    'rule': ('type-directed (spec, target) pairs, depth <= 4, width <= 3, over {str path, T, dict, OrderedDict, list, tuple, Pipe, '
             'instrumented callable, Val, Spec, Coalesce(default | default_factory | skip | skip_exc), Call, Invoke(.constants/.specs/'
             '.star), Ref incl. recursion}; callables programmed to return SKIP or STOP (unconditionally or at a chosen element) in '
             'dict values, list elements and chain steps; dict keys given as T. Non-trivial: depth >= 2; distinct by spec-shape '
             'signature (which includes SKIP/STOP positions).'),
    'assumptions': [
        'inside one dict item the relative order of a T-valued key and its value is not constrained',
        'STOP as a dict value is stored as a value today and is not generated there',
    ],
}


def same_result(a, b, target_ids):
    """deep equality + container types + key order + identity of passed-through objects"""
    if id(b) in target_ids and not isinstance(b, (int, str, float, type(None), bool)):
        return a is b
    if type(a) is not type(b):
        return False
    if isinstance(a, dict):
        return list(a.keys()) == list(b.keys()) and all(same_result(a[k], b[k], target_ids) for k in a)
    if isinstance(a, (list, tuple)):
        return len(a) == len(b) and all(same_result(x, y, target_ids) for x, y in zip(a, b))
    return a == b or (a is b)


def ids_of(t, out=None):
    out = set() if out is None else out
    if id(t) in out:
        return out
    out.add(id(t))
    if isinstance(t, dict):
        for v in t.values():
            ids_of(v, out)
    elif isinstance(t, (list, tuple)):
        for v in t:
            ids_of(v, out)
    return out


def run_both(col, gen, node, target, desc, kind):
    spec = am.build(node)
    log_model, log_real = [], []
    for f in gen.fns:
        f.log, f.calls = log_model, 0
    try:
        want = ('ok', am.ref(node, target))
    except am.RefGlom as e:
        want = ('glomerr', e)
    except RecursionError:
        return None
    except Exception as e:   # plain Python failure inside the composition (e.g. unhashable key): class must survive (C04)
        want = ('glomerr', e)
    for f in gen.fns:
        f.log, f.calls = log_real, 0
    snap = snapshot(target)
    got = call(G, target, spec)
    for f in gen.fns:
        f.log = None
    col.count('glom_evaluations')
    col.count('callable_invocations_logged', len(log_real))
    wit = {'spec': desc, 'target': short(target, 300)}
    tid = ids_of(target)
    if want[0] == 'ok':
        if not got.ok:
            col.violation('C03/raises-where-laws-give-a-value:' + kind, 'glom(%s, %s): laws give %s, glom raised %r'
                          % (short(target), desc, short(want[1]), got.exc), wit)
            return None
        if not same_result(got.value, want[1], tid):
            col.violation('C03/result-differs-from-composition:' + kind, 'glom(%s, %s): laws give %s, glom %s'
                          % (short(target), desc, short(want[1]), short(got.value)), wit)
            return None
    else:
        cls = am.real_class(want[1])
        if got.ok or not isinstance(got.exc, cls):
            col.violation('C03/failure-expected:' + cls.__name__, 'glom(%s, %s): laws give a %s, glom %r'
                          % (short(target), desc, cls.__name__, got), wit)
            return None
    if log_real != log_model:
        n = next((i for i, (a, b) in enumerate(zip(log_real, log_model)) if a != b), min(len(log_real), len(log_model)))
        which = 'extra-or-missing-call' if len(log_real) != len(log_model) else 'order'
        col.violation('C03/callable-log-differs:%s:%s' % (which, kind),
                      'glom(%s, %s): callables invoked %s ; the laws dictate %s (first difference at #%d)'
                      % (short(target), desc, short([e[0] for e in log_real]), short([e[0] for e in log_model]), n), wit)
        return None
    if snapshot(target) != snap:
        col.violation('C03/target-modified', '%s modified its target' % desc, wit)
    return got


def one_case(col, rng, tracer):
    gen = am.Gen(rng)
    target = gen.target(rng.randint(1, 3))
    if not isinstance(target, (dict, list)):
        target = {'a': target}
    depth = rng.randint(1, 4)
    node = gen.spec(target, depth)
    desc = am.describe(node)
    col.case(am.shape(node), am.depth_of(node) >= 2)
    if col.want_sample(node[0]):
        col.sample({'target': short(target, 160), 'spec': desc}, node[0])
    tracer.reset()
    got = run_both(col, gen, node, target, desc, node[0])
    if got is None:
        return
    # frame tree: every evaluation entered through the recursion function, children left to right
    roots = tracer.roots()
    if roots:
        col.count('frames_traced', count_frames(roots[-1]))
    # metamorphic: glom(t, (a, b)) == glom(glom(t, a), b)
    if got.ok and rng.random() < 0.5:
        gen2 = am.Gen(rng, skipstop=False)
        gen2.serial = 1000
        b = gen2.spec(got.value, rng.randint(0, 2)) if isinstance(got.value, (dict, list)) else ('fn', gen2.fn('pair'))
        if got.value is SKIP or got.value is STOP:
            return
        spec_a, spec_b = am.build(node), am.build(b)
        whole = call(G, target, (spec_a, spec_b))
        parts = call(G, got.value, spec_b)
        col.count('chain_law_checks')
        if whole.ok != parts.ok or (whole.ok and not same_result(whole.value, parts.value, ids_of(target))):
            col.violation('C03/chain-law', 'glom(t, (a, b)) = %r but glom(glom(t, a), b) = %r for a=%s b=%s'
                          % (whole, parts, desc, am.describe(b)), {'a': desc, 'b': am.describe(b)})


def count_frames(f):
    return 1 + sum(count_frames(c) for c in f.children)


def systematic(col, rng):
    """SKIP / STOP produced at every position of small fixed shapes"""
    target = {'a': [1, 2, 3, 4], 'b': {'c': 5}, 'd': 'x'}
    for pos in range(4):
        for what in ('skip', 'stop'):
            # list elements
            gen = am.Gen(rng)
            node = ('tuple', [('path', 'a'), ('list', ('fn', gen.fn('%s_if' % what, pos + 1)))])
            col.case(('sys-list', what, pos), True)
            run_both(col, gen, node, target, am.describe(node), 'list')
            # chain steps
            gen = am.Gen(rng)
            steps = [('fn', gen.fn('pair')) for _ in range(4)]
            steps[pos] = ('fn', gen.fn(what))
            for kind in ('tuple', 'pipe'):
                node = (kind, list(steps))
                col.case(('sys-chain', kind, what, pos), True)
                run_both(col, gen, node, target, am.describe(node), kind)
        # dict values: SKIP omits the entry
        gen = am.Gen(rng)
        entries = [(k, ('fn', gen.fn('pair'))) for k in 'wxyz']
        entries[pos] = (entries[pos][0], ('fn', gen.fn('skip')))
        for typ in (dict, OrderedDict):
            node = ('dict', list(entries), typ)
            col.case(('sys-dict', typ.__name__, pos), True)
            run_both(col, gen, node, target, am.describe(node), 'dict')
    # Coalesce: later alternatives are not evaluated after a success
    for n_fail in range(4):
        gen = am.Gen(rng)
        subs = [('path', 'nope%d' % i) for i in range(n_fail)] + [('fn', gen.fn('pair')), ('fn', gen.fn('pair'))]
        node = ('coalesce', subs, [])
        col.case(('sys-coalesce', n_fail), True)
        run_both(col, gen, node, target, am.describe(node), 'coalesce')
    # Ref recursion over a tree
    tree = {'v': 1, 'kids': [{'v': 2, 'kids': []}, {'v': 3, 'kids': [{'v': 4, 'kids': []}]}]}
    gen = am.Gen(rng)
    f = gen.fn('pair')
    node = ('ref', 'node', ('dict', [('val', ('path', 'v')), ('sub', ('tuple', [('path', 'kids'), ('list', ('ref', 'node', None))])),
                                      ('f', ('fn', f))], dict))
    col.case(('sys-ref',), True)
    run_both(col, gen, node, tree, am.describe(node), 'ref')
    # Ref(name) resolves to the NEAREST enclosing Ref(name, spec): an inner definition of the same name shadows the outer one
    for variant in range(4):
        gen = am.Gen(rng)
        inner_leaf = ('dict', [('inner', ('path', 'v')), ('f', ('fn', gen.fn('pair')))], dict)
        if variant == 0:
            node = ('ref', 'n', ('tuple', [('path', 'kids'), ('t', [('[', 0)]), ('ref', 'n', inner_leaf)]))
        elif variant == 1:
            inner = ('ref', 'n', ('dict', [('leafv', ('path', 'v')), ('sub', ('tuple', [('path', 'kids'), ('list', ('ref', 'n', None))]))], dict))
            node = ('ref', 'n', ('dict', [('own', ('path', 'v')), ('kids', ('tuple', [('path', 'kids'), ('list', inner)]))], dict))
        elif variant == 2:
            node = ('ref', 'a', ('dict', [('x', ('ref', 'b', ('tuple', [('path', 'v'), ('fn', gen.fn('pair'))]))),
                                          ('y', ('tuple', [('path', 'kids'), ('list', ('ref', 'a', ('path', 'v')))]))], dict))
        else:
            node = ('tuple', [('ref', 'n', ('path', 'kids')), ('list', ('ref', 'n', ('dict', [('v', ('path', 'v')), ('k', ('tuple', [('path', 'kids'), ('list', ('ref', 'n', None))]))], dict)))])
        col.case(('sys-ref-shadow', variant), True)
        run_both(col, gen, node, tree, am.describe(node), 'ref')


def literal_defaults_and_arguments_are_per_evaluation(col):
    """"determined only by the outputs of its sub-specs": an (empty) container literal used as Coalesce default or as Call /
    T-call argument yields a container of THIS evaluation - what a later step or the caller does to it shows up neither in
    sibling evaluations of the same spec object nor in its next evaluation"""
    def with_marker(lst):
        lst.append('marker')
        return lst

    def collect(*a, **kw):
        return [a, kw]
    from glom import Call
    cases = [
        ('Coalesce default [] then in-place step', lambda: [(Coalesce('tags', default=[]), with_marker)], lambda: [{}, {}],
         [['marker'], ['marker']]),
        ('Coalesce default {} twice in a dict', lambda: {'a': Coalesce('zz', default={}), 'b': Coalesce('zz', default={})}, lambda: {'q': 1},
         {'a': {}, 'b': {}}),
        ('Call args ([],)', lambda: [Call(collect, args=([],), kwargs={'k': {}})], lambda: [1, 2], [[([],), {'k': {}}], [([],), {'k': {}}]]),
        ('T call argument []', lambda: [T['fn']([])], lambda: [{'fn': with_marker}, {'fn': with_marker}], [['marker'], ['marker']]),
        ('nested empty [[], {}]', lambda: Coalesce('zz', default=[[], {}]), lambda: {}, [[], {}]),
    ]
    for desc, mk, mk_target, want in cases:
        spec = mk()
        for n in (1, 2, 3):
            got = call(G, mk_target(), spec)
            col.case(('literal-per-evaluation', desc, n), True)
            col.count('glom_evaluations')
            if not got.ok or got.value != want:
                col.violation('C03/literal-container-shared-between-evaluations' if n > 1 or 'then' in desc or 'T call' in desc
                              else 'C03/literal-container-wrong-on-first-evaluation',
                              '%s, evaluation #%d of one spec object: %r, expected %r' % (desc, n, got, want), None)
                break
            # the caller modifies every container of the result
            stack = [got.value]
            while stack:
                v = stack.pop()
                if isinstance(v, list):
                    stack.extend(v); v.append('MUTATED-BY-CALLER')
                elif isinstance(v, dict):
                    stack.extend(v.values()); v['MUTATED-BY-CALLER'] = 1
                elif isinstance(v, tuple):
                    stack.extend(v)


class _CountingSource:
    """an iterable target that counts what is pulled from it; optionally infinite or failing after `n` items"""
    def __init__(self, items, then=None):
        self.items, self.then, self.pulls = list(items), then, 0

    def __iter__(self):
        for x in self.items:
            self.pulls += 1
            yield x
        if self.then == 'raise':
            raise RuntimeError('source exhausted its budget')
        while self.then == 'forever':
            self.pulls += 1
            yield 0


_BUDGET = StepBudget(200000)


def list_spec_is_lazy_and_call_parts_go_left_to_right(col):
    """(1) "a list spec maps over the target's iteration ... STOP ends the list": nothing is pulled from the target beyond the
    item that produced STOP - an iterator shared with a sibling entry keeps the rest, a source that fails or never ends after
    that item does no harm.  (2) "Call ... each evaluated once, left to right": func, then args, then kwargs - observable
    through the call log and through which of two failing parts surfaces"""
    from glom import Call, Spec
    stop_at = lambda k: (lambda x: STOP if x == k else x * 10)
    for then in (None, 'raise', 'forever'):
        src = _CountingSource([1, 2, 3, 4, 5], then)
        got = _BUDGET.call(G, src, [stop_at(3)])      # (logical step budget: a walk that never ends is reported, not waited for)
        col.case(('lazy-list', 'stop', then), True)
        col.count('glom_evaluations')
        if not got.ok or got.value != [10, 20] or src.pulls != 3:
            col.violation('C03/list-spec-pulls-beyond-STOP', '[f] with STOP at the 3rd item over a source (%s afterwards): %r, %d items pulled (expected [10, 20], 3)'
                          % (then or 'finite', got, src.pulls), None)
    it = iter([1, 2, 3, 4, 5])
    got = call(G, it, {'header': [stop_at(2)], 'body': list})
    col.count('glom_evaluations')
    if not got.ok or got.value != {'header': [10], 'body': [3, 4, 5]}:
        col.violation('C03/list-spec-pulls-beyond-STOP', "{'header': [f STOP at 2], 'body': list} over one iterator: %r, expected header [10] and body [3, 4, 5]" % (got,), None)
    # (2)
    log = []

    def part(name, value):
        def f(t):
            log.append(name)
            return value
        return f
    collector = lambda *a, **kw: ('called', a, tuple(sorted(kw.items())))
    spec = Call(Spec(part('func', collector)), args=(Spec(part('arg0', 0)), Spec(part('arg1', 1))), kwargs={'k': Spec(part('kw', 2))})
    got = call(G, {}, spec)
    col.case(('call-order',), True)
    col.count('glom_evaluations')
    if not got.ok or got.value != ('called', (0, 1), (('k', 2),)) or log != ['func', 'arg0', 'arg1', 'kw']:
        col.violation('C03/call-parts-order', 'Call(func-spec, args, kwargs): %r, parts evaluated in order %s (expected func, arg0, arg1, kw)' % (got, log), None)

    def boom(t):
        raise ZeroDivisionError('argument part')
    for desc, spec, want_cls in (('failing func and failing arg', Call(T['missing_func'], args=(Spec(boom),)), 'PathAccessError'),
                                 ('failing arg and failing kwarg', Call(Spec(part('f', collector)), args=(T['missing_arg'],), kwargs={'k': Spec(boom)}), 'PathAccessError')):
        got = call(G, {}, spec)
        col.case(('call-error-precedence', desc), True)
        col.count('glom_evaluations')
        if got.ok or type(got.exc).__name__ != want_cls:
            col.violation('C03/call-parts-order', '%s: %r, the leftmost failing part (a %s) must surface' % (desc, got, want_cls), None)


def _same_typed(a, b):
    if type(a) is not type(b) or a != b:
        return False
    if isinstance(a, (list, tuple)):
        return len(a) == len(b) and all(_same_typed(x, y) for x, y in zip(a, b))
    if isinstance(a, dict):
        return list(a) == list(b) and all(_same_typed(a[k], b[k]) for k in a)
    return True


class _Bumper:
    def __init__(self, log):
        self.log = log

    def bump(self, tag='default'):
        self.log.append(tag)
        return ('bumped', tag, len(self.log))


def coalesce_default_comes_last_and_container_subclass_constants_pass_through(col):
    """(1) "Coalesce: first non-skipped success wins, later parts are not evaluated": a default that is computed (a T expression, a
    Spec, a container holding one) is a part like the others - it is evaluated after every alternative was skipped, once, and not at
    all when an alternative wins.  (2) "Call and Invoke combine their parts as documented": a constant argument that is an instance
    of a container SUBCLASS (namedtuple, ...) reaches the function as it is, also when it comes out of the target"""
    import collections
    from glom import Call, Invoke, Spec, Val
    mk = lambda: {'a': 1, 'ctr': _Bumper([]), 'none': None}
    cases = [
        ('winner-then-failing-default', lambda: Coalesce('a', default=T['fallback']), lambda t: 1, []),
        ('winner-then-counting-default', lambda: Coalesce('a', default=T['ctr'].bump()), lambda t: 1, []),
        ('second-winner-then-counting-default', lambda: Coalesce('zz', T['ctr'].bump('alt'), default=T['ctr'].bump()), lambda t: ('bumped', 'alt', 1), ['alt']),
        ('all-skipped-counting-default', lambda: Coalesce('zz', T['yy'], default=T['ctr'].bump()), lambda t: ('bumped', 'default', 1), ['default']),
        ('alternatives-before-default', lambda: Coalesce((T['ctr'].bump('alt1'), 'zz'), (T['ctr'].bump('alt2'), T['yy']), default=T['ctr'].bump()),
         lambda t: ('bumped', 'default', 3), ['alt1', 'alt2', 'default']),
        ('winner-then-default-in-a-container', lambda: Coalesce('a', default={'x': T['ctr'].bump()}), lambda t: 1, []),
        ('skipped-value-then-default-in-a-container', lambda: Coalesce('none', default=[T['ctr'].bump(), T['a']], skip=None),
         lambda t: [('bumped', 'default', 1), 1], ['default']),
        ('winner-then-Spec-default', lambda: Coalesce('a', default=Spec(T['ctr'].bump())), lambda t: 1, []),
        ('nested-in-dict-winner', lambda: {'k': Coalesce('a', default=T['ctr'].bump()), 'n': T['ctr'].bump('after')},
         lambda t: {'k': 1, 'n': ('bumped', 'after', 1)}, ['after']),
        # a default that is itself a specifier object of another kind is a part as well: its value is the result, not the object
        ('all-skipped-Val-default', lambda: Coalesce('zz', T['yy'], default=Val(7)), lambda t: 7, []),
        ('all-skipped-nested-Coalesce-default', lambda: Coalesce('zz', default=Coalesce('yy', 'a')), lambda t: 1, []),
        ('all-skipped-nested-Coalesce-default-counting', lambda: Coalesce('zz', default=Coalesce('yy', T['ctr'].bump('inner'))), lambda t: ('bumped', 'inner', 1), ['inner']),
        ('all-skipped-Call-default', lambda: Coalesce('zz', default=Call(int, args=('41',))), lambda t: 41, []),
        ('all-skipped-Invoke-default', lambda: Coalesce('zz', default=Invoke(dict).constants(k=1).specs(a='a')), lambda t: {'k': 1, 'a': 1}, []),
        ('all-skipped-Pipe-default', lambda: Coalesce('zz', default=Pipe('a', lambda v: v + 1)), lambda t: 2, []),
        ('winner-then-Val-default', lambda: Coalesce('a', default=Val(7)), lambda t: 1, []),
        ('skipped-value-then-Invoke-default', lambda: Coalesce('none', default=Invoke(T['ctr'].bump).constants('inv'), skip=None), lambda t: ('bumped', 'inv', 1), ['inv']),
    ]
    for desc, mk_spec, want, want_log in cases:
        spec = mk_spec()
        for round_ in range(2):
            t = mk()
            got = call(G, t, spec)
            col.case(('coalesce-default-order', desc, round_), True)
            col.count('glom_evaluations')
            if not got.ok or got.value != want(t) or t['ctr'].log != want_log:
                col.violation('C03/coalesce-default-evaluated-early-or-unnecessarily:' + desc,
                              'evaluation %d of %s: %r, parts that ran %s; expected %r and %s'
                              % (round_ + 1, short(spec), got, t['ctr'].log, want(t), want_log), None)
                break
    Pt = collections.namedtuple('Pt', 'x y')
    Tag = collections.namedtuple('Tag', 'name')

    class Bag(frozenset):
        pass

    class Row(tuple):
        pass
    consts = [('namedtuple-2', Pt(1, 2)), ('namedtuple-1', Tag('t')), ('namedtuple-holding-T-lookalikes', Pt('a', ('a', 'b'))),
              ('frozenset-subclass', Bag([1, 2])), ('tuple-subclass', Row((1, 2))), ('defaultdict', collections.defaultdict(list, {'k': [1]})),
              ('ordereddict', OrderedDict([('k', 1)]))]
    echo = lambda *a, **kw: (a, tuple(sorted(kw.items())))
    for name, c in consts:
        shapes = [
            ('Call-arg', lambda: Call(echo, args=(c,)), lambda: ((c,), ())),
            ('Call-kwarg', lambda: Call(echo, kwargs={'k': c}), lambda: ((), (('k', c),))),
            ('Call-arg-nested', lambda: Call(echo, args=([c, T['a']],)), lambda: (([c, 1],), ())),
            ('Invoke-constant', lambda: Invoke(echo).constants(c, k=c), lambda: ((c,), (('k', c),))),
            ('Coalesce-default', lambda: Coalesce('zz', default=c), lambda: c),
            ('Coalesce-default-nested', lambda: Coalesce('zz', default=(c, T['a'])), lambda: (c, 1)),
            ('T-call-arg', lambda: T['f'](c, k=c), lambda: ((c,), (('k', c),))),
            ('T-call-arg-from-target', lambda: T['f'](T['held'], k=T['held']), lambda: ((c,), (('k', c),))),
            ('Call-arg-from-target', lambda: Call(echo, args=(T['held'],)), lambda: ((c,), ())),
        ]
        for sname, mk_spec, want in shapes:
            t = {'a': 1, 'f': echo, 'held': c}
            got = call(G, t, mk_spec())
            col.case(('container-subclass-constant', name, sname), True)
            col.count('glom_evaluations')
            w = want()
            if not got.ok or not _same_typed(got.value, w):
                col.violation('C03/container-subclass-constant-not-passed-through:%s:%s' % (sname, name),
                              '%s with the constant %r: %r, expected %r' % (sname, c, got, w), None)


class _LazyRecord:
    """attribute object whose accessors fail in ways of their own (a computed ratio dividing by zero, a lazily loaded field that cannot
    be loaded)"""
    def __init__(self, hits, total):
        self.hits, self.total = hits, total

    @property
    def ratio(self):
        return self.hits // self.total

    @property
    def blob(self):
        raise RuntimeError('backend unavailable')


class _StrictDict(dict):
    def __missing__(self, key):
        raise _ConfigError('no setting %r' % (key,))


class _ConfigError(Exception):
    pass


def type_directed_targets(col):
    """the restructuring laws on targets whose ACCESS and ITERATION are type-directed: (1) a dotted-string / Path alternative of a
    Coalesce whose accessor raises an error of its own kind (ZeroDivisionError of a property, RuntimeError of a lazy field, a dict
    subclass whose __missing__ raises a custom class) is a failed access like any other - the Coalesce goes on to the next
    alternative / its default, also as list element (default=SKIP), dict value and chain step; (2) a list spec iterates its target
    with the handler registered for the type at the time of THE call: a registration (exact or not) made after earlier calls
    counts"""
    from glom import Glommer, Path
    rec = lambda: _LazyRecord(3, 0)
    cases = [
        ('property raising ZeroDivisionError', rec, lambda: Coalesce('ratio', 'hits'), 3),
        ('property raising RuntimeError', rec, lambda: Coalesce('blob', Path('blob', 'x'), default='n/a'), 'n/a'),
        ('nested path through the failing property', lambda: {'r': rec()}, lambda: Coalesce('r.ratio.real', 'r.hits'), 3),
        ('dict subclass with a raising __missing__', lambda: _StrictDict(a=1), lambda: Coalesce('zz', 'a'), 1),
        ('as list element with default=SKIP', lambda: [_LazyRecord(4, 2), _LazyRecord(1, 0), _LazyRecord(9, 3)], lambda: [Coalesce('ratio', default=SKIP)], [2, 3]),
        ('as dict value', rec, lambda: {'ratio': Coalesce('ratio', default=None), 'hits': 'hits'}, {'ratio': None, 'hits': 3}),
        ('as chain step', lambda: {'r': rec()}, lambda: ('r', Coalesce('blob', 'total'), lambda v: v + 1), 1),
        ('inside Spec inside Pipe', lambda: {'r': rec()}, lambda: Pipe('r', Spec(Coalesce('ratio', 'total'))), 0),
    ]
    for desc, mk_t, mk_s, want in cases:
        spec = mk_s()
        for n in (1, 2):
            got = call(G, mk_t(), spec)
            col.case(('type-directed', desc, n), True)
            col.count('glom_evaluations')
            col.count('type_directed_target_cases')
            if not got.ok or got.value != want:
                col.violation('C03/coalesce-does-not-skip-a-failed-string-path', '%s: %s (evaluation #%d): %r, expected %r' % (desc, short(spec), n, got, want), None)
                break
    for exact in (False, True):
        for warm in (True, False):
            class Rows:
                def __init__(self, *items):
                    self.items = items

                def __iter__(self):
                    return iter(self.items)
            g = Glommer()
            spec = {'rows': ('table', [lambda x: x * 10]), 'n': ('table', 'items', len)}
            t = lambda: {'table': Rows(1, 2, 3)}
            first = call(g.glom, t(), spec) if warm else None
            g.register(Rows, iterate=lambda r: iter(reversed(r.items)), exact=exact)
            got = call(g.glom, t(), spec)
            col.case(('type-directed', 'registration-after-use', exact, warm), True)
            col.count('glom_evaluations')
            col.count('type_directed_target_cases')
            if (warm and (not first.ok or first.value != {'rows': [10, 20, 30], 'n': 3})) or not got.ok or got.value != {'rows': [30, 20, 10], 'n': 3}:
                col.violation('C03/list-spec-ignores-the-iteration-registered-for-the-type', 'Glommer: %sregister(Rows, iterate=reversed%s), then %r: %r (before: %r)'
                              % ('one call, then ' if warm else '', ', exact=True' if exact else '', spec, got, first), None)


def callable_classes_and_shared_reference_objects(col):
    """"callables receive the current target" - a class is a callable (it is a spec only once instantiated), also the library's own spec
    classes and a user's class with a glomit method; and a bare Ref(name) object means "the spec the nearest enclosing Ref(name, ..)
    names" wherever it is used: one such object may serve under several definitions, in one spec or in successive calls"""
    import glom as _g
    from glom import Ref, Invoke, Val

    class Lookup:
        def __init__(self, name):
            self.name = name

        def glomit(self, target, scope):
            return 'evaluated'

        def __eq__(self, other):
            return type(other) is Lookup and other.name == self.name

        def __repr__(self):
            return 'Lookup(%r)' % (self.name,)

    class Box:
        def __init__(self, v):
            self.v = v

        def __eq__(self, other):
            return type(other) is Box and other.v == self.v

        def __repr__(self):
            return 'Box(%r)' % (self.v,)
    same = lambda a, b: type(a) is type(b) and repr(a) == repr(b)
    for cls in (Lookup, Box, _g.Val, _g.Path, _g.Spec, _g.Fill, _g.Auto, _g.Ref, str, list):
        nm = cls.__name__
        shapes = [
            ('bare', 'k', cls, lambda mk: mk('k')),
            ('list item', ['a', 'b'], [cls], lambda mk: [mk('a'), mk('b')]),
            ('chain step', {'x': 'k'}, ('x', cls), lambda mk: mk('k')),
            ('pipe step', {'x': 'k'}, Pipe('x', cls), lambda mk: mk('k')),
            ('dict value', 'k', {'out': cls}, lambda mk: {'out': mk('k')}),
            ('nested dict value after a step', {'x': 'k'}, {'out': ('x', cls), 'n': {'in': ('x', cls)}}, lambda mk: {'out': mk('k'), 'n': {'in': mk('k')}}),
            ('coalesce alternative', 'k', Coalesce('zz', cls), lambda mk: mk('k')),
            ('invoke argument spec', 'k', Invoke(lambda v: ('got', v)).specs(cls), lambda mk: ('got', mk('k'))),
            ('spec wrapper', 'k', Spec(cls), lambda mk: mk('k')),
        ]
        for shape, target, spec, want_of in shapes:
            want = call(want_of, cls)
            got = call(G, target, spec)
            col.case(('class-as-callable', nm, shape), True)
            col.count('glom_evaluations')
            ok = got.ok == want.ok and (not got.ok or same(got.value, want.value) or
                                        (type(got.value) in (list, dict, tuple) and repr(got.value) == repr(want.value)))
            if not ok:
                col.violation('C03/class-used-as-a-callable-does-not-receive-the-target:' + shape.replace(' ', '-'),
                              'glom(%r, %s) with the class %s as the callable: %r ; calling the class gives %r' % (target, short(repr(spec), 120), nm, got, want), None)

    def linked(*nodes):
        head = None
        for node in reversed(nodes):
            node = dict(node)
            if head is not None:
                node['next'] = head
            head = node
        return head
    target = linked({'val': 1, 'name': 'a'}, {'val': 2, 'name': 'b'}, {'val': 3, 'name': 'c'})
    for sharing in ('one reference object', 'a reference object per definition'):
        again = Ref('node')
        ref = (lambda: again) if sharing == 'one reference object' else (lambda: Ref('node'))
        last = lambda field: Ref('node', Coalesce(('next', ref()), field))
        count = lambda step: Ref('node', Coalesce(('next', ref(), lambda n: n + step), (T, lambda t: 0)))
        progs = [
            ('dict of two definitions', lambda: G(target, {'val': last('val'), 'name': last('name')}), {'val': 3, 'name': 'c'}),
            ('tuple-free pair of definitions in a list', lambda: G([target, target], [{'v': last('val')}]), [{'v': 3}, {'v': 3}]),
            ('second definition alone', lambda: G(target, last('name')), 'c'),
            ('first definition alone, afterwards', lambda: G(target, last('val')), 3),
            ('definition adding 1 per level', lambda: G(target, count(1)), 2),
            ('definition adding 10 per level, afterwards', lambda: G(target, count(10)), 20),
            ('definition nested in another definition of the same name', lambda: G(target, Ref('node', {'outer': ('next', Ref('node', Coalesce(('next', ref()), 'name'))),
                                                                                                      'here': 'name'})), {'outer': 'c', 'here': 'a'}),
        ]
        for desc, prog, want in progs:
            got = call(prog)
            col.case(('shared-ref-object', sharing, desc), True)
            col.count('glom_evaluations')
            if not (got.ok and got.value == want):
                col.violation('C03/bare-Ref-resolves-to-another-definition:' + sharing.replace(' ', '-'),
                              '%s, %s: %r, expected %r' % (sharing, desc, got, want), None)


class _Row(dict):
    def __init__(self, **cols):
        dict.__init__(self, cols)


def dict_subclass_specs_and_diamond_targets(col):
    """"a dict spec yields a dict of the same type holding the sub-results" for specs that are instances of dict subclasses whose
    constructors differ from dict's (keyword-only columns, defaultdict, Counter), at any depth; and a list spec / path over a target
    whose class inherits from two registered classes uses the handlers of the nearest one in the MRO, whatever the registration order"""
    import collections
    from glom import Glommer
    target = {'a': 3, 'b': {'c': 4}, 'l': [1, 2]}
    specs = [
        ('Row(**cols)', lambda: _Row(x='a', y='b.c'), _Row, {'x': 3, 'y': 4}),
        ('defaultdict', lambda: collections.defaultdict(list, {'x': 'a', 'y': ('l', [T])}), collections.defaultdict, {'x': 3, 'y': [1, 2]}),
        ('Counter', lambda: collections.Counter({'a': 'a', 'c': 'b.c'}), collections.Counter, {'a': 3, 'c': 4}),
        ('OrderedDict', lambda: collections.OrderedDict([('y', 'b.c'), ('x', 'a')]), collections.OrderedDict, {'y': 4, 'x': 3}),
        ('Row nested in a dict', lambda: {'row': _Row(x='a'), 'n': 'b.c'}, dict, {'row': {'x': 3}, 'n': 4}),
        ('Counter per list element', lambda: ('l', [collections.Counter({'v': T})]), list, [{'v': 1}, {'v': 2}]),
        ('Row as a Coalesce alternative', lambda: Coalesce('zz', _Row(x='a')), _Row, {'x': 3}),
    ]
    for desc, mk, want_type, want in specs:
        got = call(G, target, mk())
        col.case(('dict-subclass-spec', desc), True)
        col.count('glom_evaluations')
        ok = got.ok and type(got.value) is want_type and got.value == want
        if ok and desc == 'Row nested in a dict':
            ok = type(got.value['row']) is _Row
        if ok and desc == 'Counter per list element':
            ok = all(type(x) is collections.Counter for x in got.value)
        if ok and desc == 'OrderedDict':
            ok = list(got.value) == ['y', 'x']
        if not ok:
            col.violation('C03/dict-subclass-spec-does-not-yield-its-type-holding-the-sub-results', '%s: glom(.., %s) gives %r, expected a %s equal to %r'
                          % (desc, short(repr(mk()), 100), got, want_type.__name__, want), None)

    class Left:
        def __init__(self):
            self.items = ['l1', 'l2']
            self.name = 'left-name'

    class Right:
        def __init__(self):
            self.items = ['r1']
            self.name = 'right-name'

    class Both(Left, Right):       # MRO: Both, Left, Right
        pass

    class Both2(Right, Left):      # MRO: Both2, Right, Left
        pass
    for order in ('left-first', 'right-first'):
        g = Glommer()
        regs = [(Left, dict(iterate=lambda o: iter(['via-Left'] + o.items), get=lambda o, k: ('Left', k))),
                (Right, dict(iterate=lambda o: iter(['via-Right'] + o.items), get=lambda o, k: ('Right', k)))]
        for cls, kw in (regs if order == 'left-first' else regs[::-1]):
            g.register(cls, **kw)
        for cls, near in ((Both, 'Left'), (Both2, 'Right')):
            for desc, spec, want in (('list spec', [T], ['via-' + near] + cls().items), ('path', 'name', (near, 'name')), ('dict of paths', {'n': 'name'}, {'n': (near, 'name')}),
                                     ('chain', ('name', T[0]), near)):
                got = call(g.glom, cls(), spec)
                col.case(('diamond-target', order, cls.__name__, desc), True)
                col.count('glom_evaluations')
                if not (got.ok and got.value == want):
                    col.violation('C03/target-with-two-registered-bases-not-handled-by-the-nearest', 'registered %s; %s over an instance of %s (MRO %s): %r, expected %r'
                                  % (order, desc, cls.__name__, [c.__name__ for c in cls.__mro__[:3]], got, want), None)


def run(ctx):
    col, rng = ctx.col, ctx.rng
    col.require('glom_evaluations', 1000)
    col.require('callable_invocations_logged', 1000)
    col.require('frames_traced', 1000)
    col.require('chain_law_checks', 100)
    tracer = EvalTracer()
    tracer.install()
    try:
        if ctx.shard == 0:
            systematic(col, rng)
            literal_defaults_and_arguments_are_per_evaluation(col)
            list_spec_is_lazy_and_call_parts_go_left_to_right(col)
            coalesce_default_comes_last_and_container_subclass_constants_pass_through(col)
            type_directed_targets(col)
            callable_classes_and_shared_reference_objects(col)
            dict_subclass_specs_and_diamond_targets(col)
        for i in range(ctx.n(30000, 120000)):
            one_case(col, rng, tracer)
    finally:
        tracer.uninstall()
