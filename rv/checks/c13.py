"""C13 - handlers are chosen by nearest registered type, immediately and in isolation.

Oracle: `monitors.nearest_types` - the registration for the class itself, else the
nearest non-exact registered real ancestor in the MRO (incomparable ancestors tie),
else virtual / duck types, else object.
Monitors: (1) RegistryContract: post-condition on EVERY get_handler call of every
registry; (2) handlers tagged with the type they were registered for, observed
through the public API (glom(obj, 'x'), glom(obj, [T]), glom(obj, '*'), Assign,
Delete) after every registration step (warm memo).  The module-level registry is
driven in fresh subprocesses because global registration is irreversible.
"""
import sys
import json
import abc
import itertools
import subprocess
from collections import OrderedDict

from .. import env
from ..util import call
from ..report import short
from ..monitors import RegistryContract, nearest_types

glom = env.bind()
import glom as glom_pkg  # noqa: E402
import glom.core as gcore  # noqa: E402
from glom import T, Glommer, Assign, Delete, UnregisteredTarget, Coalesce, Match, M, Fold, Iter, Path, Spec, Val, S, A  # noqa: E402

META = {
    'level': 'exploration',
    'rule': ('class families built programmatically (chains of depth 1-4, diamonds, mixins with a late-registered base, slot-only '
             'classes, subclasses of dict/list/tuple, an ABC with __subclasshook__ and abc.register-ed virtual subclasses) x '
             'subsets of <= 4 registered types x registration orders x exact in {True, False} per type x operations get / iterate / '
             'keys / assign / delete, with lookups of an instance of every class after EVERY registration step (warm memo), on '
             'Glommer(), Glommer(register_default_types=False) and, in fresh subprocesses, the module-level registry; plus a parity '
             'battery glom vs Glommer().glom and cross-registry isolation. Non-trivial: >= 2 registered types; distinct by (family, '
             'registered subset, order, exact flags, registry kind).'),
    'assumptions': [
        'incomparable real ancestors (mixins) are a tie: either handler is accepted',
        'virtual / duck registrations apply only when no real ancestor other than object is registered',
        're-registering one type with different exact flags is not generated',
    ],
}

OPS = ('get', 'iterate', 'keys', 'assign', 'delete')
DEFAULT_REGISTERED = (dict, list, tuple, OrderedDict, object)


# ---------------------------------------------------------------------------
# class families

def families():
    fams = []
    # chain
    C0 = type('C0', (), {}); C1 = type('C1', (C0,), {}); C2 = type('C2', (C1,), {}); C3 = type('C3', (C2,), {})
    fams.append(('chain', [C0, C1, C2, C3], [C0, C1, C2, C3]))
    # diamond
    B = type('B', (), {}); L = type('L', (B,), {}); R = type('R', (B,), {}); D = type('D', (L, R), {}); E = type('E', (D,), {})
    fams.append(('diamond', [B, L, R, D], [B, L, R, D, E]))
    # mixin with a base registered late
    Z = type('Z', (), {}); A_ = type('A_', (Z,), {}); Mx = type('Mx', (), {}); Cm = type('Cm', (A_, Mx), {}); Dm = type('Dm', (Cm,), {})
    fams.append(('mixin', [A_, Cm, Mx, Z], [Z, A_, Mx, Cm, Dm]))
    # slots
    P = type('P', (), {'__slots__': ()}); Q = type('Q', (P,), {'__slots__': ('q',)}); Rr = type('Rr', (Q,), {})
    fams.append(('slots', [P, Q, Rr], [P, Q, Rr]))
    # builtin subclasses
    for base in (dict, list, tuple):
        S1 = type('S1' + base.__name__, (base,), {}); S2 = type('S2' + base.__name__, (S1,), {})
        S0 = type('S0' + base.__name__, (base,), {'__slots__': ()})
        fams.append(('sub-' + base.__name__, [S1, S2], [S1, S2, S0]))
    # ABC with a subclass hook, and a registered virtual subclass
    class Quacks(metaclass=abc.ABCMeta):
        @classmethod
        def __subclasshook__(cls, C):
            if cls is Quacks:
                return hasattr(C, 'quack') or NotImplemented
            return NotImplemented
    Duck = type('Duck', (), {'quack': lambda self: 1}); Duckling = type('Duckling', (Duck,), {}); Goose = type('Goose', (), {})

    class Reg(metaclass=abc.ABCMeta):
        pass
    Reg.register(Goose)
    fams.append(('abc', [Quacks, Duck, Reg, Goose], [Duck, Duckling, Goose]))

    # duck type whose hook answers with a plain bool, as the library's own _AbstractIterable does: it is not a
    # subclass of itself (issubclass(HasBag, HasBag) is False), while Bag and its subclasses are
    class HasBag(metaclass=abc.ABCMeta):
        @classmethod
        def __subclasshook__(cls, C):
            return hasattr(C, 'bag')
    Bag = type('Bag', (), {'bag': ()}); SubBag = type('SubBag', (Bag,), {}); Other = type('Other', (), {})
    fams.append(('abc-bool-hook', [HasBag, Bag, SubBag], [Bag, SubBag, Other]))
    # a chain of duck types related only VIRTUALLY (issubclass(HasAB, HasA) is answered by HasA's hook; neither is in the other's
    # MRO), with targets that are virtual subclasses of both and real subclasses of neither: the more specific one is nearer
    class HasA(metaclass=abc.ABCMeta):
        a_mark = None

        @classmethod
        def __subclasshook__(cls, C):
            if cls is HasA:
                return hasattr(C, 'a_mark') or NotImplemented
            return NotImplemented

    class HasAB(metaclass=abc.ABCMeta):
        a_mark = b_mark = None

        @classmethod
        def __subclasshook__(cls, C):
            if cls is HasAB:
                return (hasattr(C, 'a_mark') and hasattr(C, 'b_mark')) or NotImplemented
            return NotImplemented
    OnlyA = type('OnlyA', (), {'a_mark': 1}); BothAB = type('BothAB', (), {'a_mark': 1, 'b_mark': 2}); SubBoth = type('SubBoth', (BothAB,), {})

    class Shape(metaclass=abc.ABCMeta):
        pass
    Shape.register(BothAB)
    fams.append(('virtual-chain', [HasA, HasAB, Shape], [OnlyA, BothAB, SubBoth]))
    # the builtin container types themselves (a registry may re-register them, or know none of them): instances of exactly
    # dict / list / tuple, for which an evaluator could be tempted to skip the registry
    Sd = type('Sd', (dict,), {}); Sl = type('Sl', (list,), {})
    fams.append(('builtin-exact', [dict, list, tuple, Sd], [dict, list, tuple, Sd, Sl]))
    return fams


class Tagger:
    """handlers tagged with the type they were registered for; every call is logged"""
    def __init__(self):
        self.log = []

    def handlers(self, typ):
        n = typ.__name__
        log = self.log

        def get(o, k):
            log.append(('get', n))
            # ('hold' / '0' let a path continue THROUGH an object that is served by a tagged handler)
            if k == 'hold':
                return o['hold'] if isinstance(o, dict) else o.__dict__['hold']
            if k == '0' and isinstance(o, (list, tuple)) and len(o) == 1:
                return o[0]
            return ('got', n)

        def iterate(o):
            log.append(('iterate', n))
            return iter([('item', n)])

        def keys(o):
            log.append(('keys', n))
            return ['k']

        def assign(o, k, v):
            log.append(('assign', n))

        def delete(o, k):
            log.append(('delete', n))
        return {'get': get, 'iterate': iterate, 'keys': keys, 'assign': assign, 'delete': delete}


# ONE spec object per operation for the whole run: used on every registry, before and after every registration
_SPECS = {'get': 'x', 'iterate': [T], 'keys': '*', 'assign': Assign('x', 1), 'delete': Delete('x')}


def observe(driver_glom, obj, op, tagger):
    """run the public API that exercises `op` on obj; returns the tag of the handler that ran,
    'UNREGISTERED', or ('other', description)"""
    del tagger.log[:]
    spec = _SPECS[op]
    got = call(driver_glom, obj, spec)
    tags = [t for o, t in tagger.log if o == op]
    if tags:
        return tags[0]
    if not got.ok and isinstance(got.exc, UnregisteredTarget):
        return 'UNREGISTERED'
    if op == 'keys' and got.ok:
        return 'NO-KEYS-HANDLER'    # '*' fell back to iterate / nothing
    return ('other', repr(got))


def observe_below_holders(driver_glom, inst, tagger, classes, base_known):
    """the handler chosen for `inst` when it is reached through one more path segment, from a holder whose type is an
    ANCESTOR of type(inst): [(description, tag of the handler that served the last segment)]"""
    out = []
    cls = type(inst)
    holders = []
    if base_known:
        if isinstance(inst, dict):
            holders.append(('a plain dict', {'hold': inst}, 'hold.x'))
        elif isinstance(inst, list):
            holders.append(('a plain list', [inst], '0.x'))
        elif isinstance(inst, tuple):
            holders.append(('a plain tuple', (inst,), '0.x'))
    for H in cls.__mro__[1:]:
        if H in classes and H is not object:
            h = make_instance(H)
            if hasattr(h, '__dict__') and not isinstance(h, (dict, list, tuple)):
                h.__dict__['hold'] = inst
                holders.append(('an instance of its ancestor %s' % H.__name__, h, 'hold.x'))
    for desc, holder, spec in holders:
        del tagger.log[:]
        got = call(driver_glom, holder, spec)
        tags = [t for o, t in tagger.log if o == 'get']
        if got.ok and got.value == ('got', tags[-1] if tags else None):
            out.append((desc, tags[-1]))
        elif not got.ok and isinstance(got.exc, UnregisteredTarget):
            out.append((desc, 'UNREGISTERED'))
        else:
            out.append((desc, ('other', repr(got))))
    return out


def make_instance(cls):
    try:
        return cls()
    except TypeError:
        return cls.__new__(cls)


def run_config(col, kind, make_driver, fam_name, regs, order, exacts, instances, contract, label, partial_rng=None):
    """one registration history on a fresh registry.  With partial_rng, each register() call names only a random
    subset of the operations; the others get the autodiscovered handler of THAT type (possibly False)"""
    driver = make_driver()
    tagger = Tagger()
    registered = []
    fuzzy = set()
    base_known = driver['default_types']
    steps = []
    named = set()
    for typ, exact in zip(order, exacts):
        kw = tagger.handlers(typ)
        if partial_rng is not None:
            keep = [op for op in OPS if partial_rng.random() < 0.5] or [partial_rng.choice(OPS)]
            kw = {op: h for op, h in kw.items() if op in keep}
        for op in kw:
            named.add((typ, op))
        kw['exact'] = exact
        r = call(driver['register'], typ, **kw)
        if not r.ok:
            col.violation('C13/register-raises', 'register(%s, exact=%s) raised %r' % (typ.__name__, exact, r.exc), None)
            return
        registered.append(typ)
        if not exact:
            fuzzy.add(typ)
        steps.append('%s%s' % (typ.__name__, '!' if exact else ''))
        # lookups right after this registration: it must take effect for the very next call, with a warm memo
        for inst in instances:
            cls = type(inst)
            for op in OPS:
                # ('keys' has no autodiscovery: a type has an entry for it only when a keys= handler was named)
                reg_op = [t for t in registered if op != 'keys' or (t, op) in named]
                acc = nearest_types(cls, inst, reg_op, fuzzy)
                col.count('api_lookups')
                seen = observe(driver['glom'], inst, op, tagger)
                decided_by_real_type = bool(acc) and all(t is cls or t in cls.__mro__ for t in acc)
                if acc and not decided_by_real_type and base_known:
                    # only virtual / duck types of the family apply: they tie with the default duck types
                    # (_ObjStyleKeys, _AbstractIterable); the contract, which sees all registrations, judges
                    ok, want = True, ''
                elif acc and not all((t, op) in named for t in acc):
                    # the nearest type was registered without naming this operation: its own autodiscovered handler
                    # applies - in any case not the tagged handler of ANOTHER (less specific) family type
                    others = [t.__name__ for t in registered if t not in acc and (t, op) in named]
                    ok = seen not in others
                    want = 'the autodiscovered handler of %s (not a handler of %s)' % ('/'.join(t.__name__ for t in acc), others)
                elif acc:
                    ok = seen in [t.__name__ for t in acc]
                    want = '/'.join(t.__name__ for t in acc)
                else:
                    # none of our types applies: a default type (or nothing) decides; the contract judges that
                    ok = not isinstance(seen, str) or seen in ('UNREGISTERED', 'NO-KEYS-HANDLER') or seen not in [t.__name__ for t in registered]
                    if isinstance(seen, tuple):
                        ok = True
                    want = 'no registered type of the family'
                if ok and op == 'get' and isinstance(seen, str) and seen not in ('UNREGISTERED', 'NO-KEYS-HANDLER'):
                    # the same object one path segment further down, below a holder whose type is one of its ancestors
                    for hdesc, seen2 in observe_below_holders(driver['glom'], inst, tagger, [type(i) for i in instances], base_known):
                        col.count('lookups_below_an_ancestor_typed_holder')
                        if isinstance(seen2, str) and seen2 != seen and seen2 != 'UNREGISTERED':
                            col.violation('C13/handler-differs-below-an-ancestor-typed-holder:%s' % fam_name,
                                          '%s registry, registrations %s: an instance of %s is served by the handler of %r at the root of '
                                          'the target, but by the handler of %r when it is held by %s'
                                          % (label, ' -> '.join(steps), cls.__name__, seen, seen2, hdesc),
                                          {'family': fam_name, 'steps': steps, 'class': cls.__name__})
                            return
                if not ok:
                    mro = [c.__name__ for c in cls.__mro__]
                    kindkey = 'exact-leaks-to-subclass' if seen in [t.__name__ for t in registered if t not in fuzzy] and seen != cls.__name__ \
                        else 'stale-or-wrong-type'
                    col.violation('C13/handler-not-nearest-registered-type:%s:%s' % (fam_name, kindkey),
                                  '%s registry, registrations %s: %s on an instance of %s (MRO %s) ran the handler of %r, expected %s'
                                  % (label, ' -> '.join(steps), op, cls.__name__, mro, seen, want),
                                  {'family': fam_name, 'steps': steps, 'op': op, 'class': cls.__name__})
                    return
    col.count('registration_histories')
    if contract.disagreements:
        d = contract.disagreements[0]
        col.violation('C13/contract:%s:%s' % (d['op'], fam_name), 'get_handler post-condition failed: %s (registrations %s)' % (d, ' -> '.join(steps)), d)
        del contract.disagreements[:]


def reregistration(col, contract):
    """a type first registered with exact=True and then again without: from then on it is 'registered without exact=True'
    and covers its subclasses (the other direction is left open by the statement and not generated)"""
    for default_types in (True, False):
        for op in ('get', 'iterate', 'assign', 'delete'):
            Top = type('Top', (), {}); Mid = type('Mid', (Top,), {}); Leaf = type('Leaf', (Mid,), {})
            g = Glommer(register_default_types=default_types)
            tagger = Tagger()
            for typ, exact in ((Top, False), (Mid, True), (Mid, False)):
                kw = tagger.handlers(typ)
                g.register(typ, exact=exact, **kw)
            seen = observe(g.glom, make_instance(Leaf), op, tagger)
            col.case(('reregistration', op, default_types), True)
            col.count('api_lookups')
            if seen != 'Mid':
                col.violation('C13/handler-not-nearest-registered-type:reregistered-non-exact',
                              'register(Top), register(Mid, exact=True), register(Mid): %s on a Leaf(Mid) instance ran the handler of %r, expected Mid'
                              % (op, seen), None)
            if contract.disagreements:
                del contract.disagreements[:]     # (the contract's bookkeeping marks Mid as non-exact from the second call on: same verdict)


def repeated_registration(col, contract):
    """every family, every ordered pair of types registered without exact=True, then either of them registered a second
    time: the nearest-type relation is the one of the set {X, Y} (systematic, independent of the sampled configurations)"""
    for name, registrable, classes in families():
        instances = [make_instance(c) for c in classes]
        for x, y in itertools.permutations(registrable, 2):
            for again in (x, y):
                for default_types in (True, False):
                    label = ('Glommer()' if default_types else 'Glommer(register_default_types=False)') + ' (one type registered twice)'
                    order = (x, y, again)
                    col.case((name, tuple(t.__name__ for t in order), 'repeat-systematic', default_types), True)
                    col.count('histories_with_a_repeated_registration')
                    run_config(col, 'glommer', glommer_driver(default_types), name, registrable, order, (False, False, False),
                               instances, contract, label)


def explicit_false_survives_reregistration(col, contract):
    """an operation registered as False ("not supported", although the type could do it) stays unsupported for the type and - when
    not exact - its subclasses, also after the type is registered AGAIN by a call that does not name that operation; what that call
    does name takes effect"""
    for default_types in (True, False):
        for exact in (False, True):
            class Sealed(list):
                __slots__ = ()

            class SealedChild(Sealed):
                __slots__ = ()
            g = Glommer(register_default_types=default_types)
            g1 = lambda o, k: ('g1', list.__getitem__(o, int(k)))
            g2 = lambda o, k: ('g2', list.__getitem__(o, int(k)))
            if exact:
                g.register(list, get=lambda o, k: ('list', o[int(k)]), iterate=iter)
            g.register(Sealed, get=g1, iterate=False, assign=False, delete=False, exact=exact)
            for stage in ('registered-once', 'registered-again'):
                if stage == 'registered-again':
                    g.register(Sealed, get=g2, exact=exact)
                for cls in (Sealed, SealedChild):
                    covered = cls is Sealed or not exact
                    for op, spec in (('iterate', [T]), ('assign', Assign('0', 9)), ('delete', Delete('0')), ('get', '0')):
                        inst = cls([1, 2])
                        got = call(g.glom, inst, spec)
                        col.case(('explicit-false', default_types, exact, stage, cls.__name__, op), True)
                        col.count('api_lookups')
                        col.count('explicit_false_lookups')
                        if not covered:
                            continue      # (what a subclass of an exactly registered type falls back to is decided by the other batteries)
                        if op == 'get':
                            tag = 'g1' if stage == 'registered-once' else 'g2'
                            ok = got.ok and got.value == (tag, 1)
                        else:
                            ok = not got.ok and isinstance(got.exc, UnregisteredTarget) and list(inst) == [1, 2]
                        if not ok:
                            col.violation('C13/operation-registered-as-False-comes-back:%s:%s' % (op, stage),
                                          'Glommer(register_default_types=%s): register(Sealed, get=g1, iterate=False, assign=False, delete=False%s)%s; '
                                          '%s on a %s instance gave %r (instance now %r)'
                                          % (default_types, ', exact=True' if exact else '', ', then register(Sealed, get=g2)' if stage == 'registered-again' else '',
                                             op, cls.__name__, got, list(inst)), None)
            if contract.disagreements:
                d = contract.disagreements[0]
                col.violation('C13/contract:%s:explicit-false' % d['op'], 'get_handler post-condition failed: %s' % (d,), d)
                del contract.disagreements[:]


def exact_registration_widened_later(col, contract):
    """a type first registered with exact=True and later registered again WITHOUT it is, from then on, "a type registered without
    exact=True": it covers its subclasses - also a subclass that was looked up in between (and memoised with whatever it fell back
    to), also when the second call names the very same handler objects.  (The opposite order is left open by the statement.)"""
    import glom as glom_pkg
    for kind in ('Glommer', 'Glommer-without-defaults', 'module-level'):
        for same_handler in (True, False):
            for warm in ('not-looked-up', 'child-looked-up', 'child-looked-up-through-every-op'):
                class Base:
                    def __init__(self):
                        self.x = 'attr'

                    def __iter__(self):
                        return iter(['own-iter'])

                class Child(Base):
                    pass

                class Sibling(Base):
                    pass
                h1 = lambda o, k: 'handler-1'
                h2 = lambda o, k: 'handler-2'
                it1 = lambda o: iter(['registered-iter'])
                if kind == 'module-level':
                    reg, run = glom_pkg.register, glom_pkg.glom
                else:
                    g = Glommer(register_default_types=(kind == 'Glommer'))
                    reg, run = g.register, g.glom
                reg(Base, get=h1, iterate=it1, exact=True)
                if warm != 'not-looked-up':
                    call(run, Child(), 'x')
                    if warm.endswith('every-op'):
                        call(run, Child(), [T])
                        call(run, Child(), Path('x'))
                reg(Base, get=h1 if same_handler else h2, iterate=it1)
                tag = 'handler-1' if same_handler else 'handler-2'
                for cls in (Child, Sibling, Base):
                    for op, spec, want in (('get', 'x', tag), ('get', Path('x'), tag), ('iterate', [T], ['registered-iter'])):
                        got = call(run, cls(), spec)
                        col.case(('exact-then-widened', kind, same_handler, warm, cls.__name__, op), True)
                        col.count('api_lookups')
                        col.count('widened_registration_lookups')
                        if not (got.ok and got.value == want):
                            col.violation('C13/type-registered-without-exact-does-not-cover-a-subclass:after-an-exact-registration:%s' % op,
                                          '%s: register(Base, get=h1, iterate=it, exact=True); %s; register(Base, get=%s, iterate=it) - now %r on a %s '
                                          'instance gives %r, expected %r' % (kind, {'not-looked-up': 'no lookups', 'child-looked-up': "glom(Child(), 'x')"}.get(
                                              warm, 'Child() looked up for get and iterate'), 'h1' if same_handler else 'h2', spec, cls.__name__, got, want), None)
            if contract.disagreements:
                d = contract.disagreements[0]
                col.violation('C13/contract:%s:exact-then-widened' % d['op'], 'get_handler post-condition failed: %s' % (d,), d)
                del contract.disagreements[:]


def narrowed_registration_does_not_depend_on_earlier_lookups(col):
    """a type first registered WITHOUT exact=True and later registered again with exact=True: which of the two registrations serves
    the subclasses from then on is left open by the statement, but "the choice depends [not] on which lookups happened before" - so a
    registry on which subclass instances were looked up between the two calls must answer exactly like a twin on which they were not"""
    for default_types in (True, False):
        for same_handler in (True, False):
            for warm in ('child-looked-up', 'child-looked-up-through-every-op', 'child-and-sibling-looked-up'):
                class Base:
                    def __init__(self):
                        self.x = 'attr'

                    def __iter__(self):
                        return iter(['own-iter'])

                class Child(Base):
                    pass

                class Sibling(Base):
                    pass

                class GrandChild(Child):
                    pass
                h1 = lambda o, k: 'handler-1'
                h2 = lambda o, k: 'handler-2'
                it1 = lambda o: iter(['registered-iter-1'])
                it2 = lambda o: iter(['registered-iter-2'])
                answers = {}
                for twin in ('cold', 'warm'):
                    g = Glommer(register_default_types=default_types)
                    g.register(Base, get=h1, iterate=it1)
                    if twin == 'warm':
                        call(g.glom, Child(), 'x')
                        if warm.endswith('every-op'):
                            call(g.glom, Child(), [T])
                            call(g.glom, GrandChild(), Path('x'))
                        if warm.startswith('child-and-sibling'):
                            call(g.glom, Sibling(), 'x')
                            call(g.glom, Sibling(), [T])
                    g.register(Base, get=h1 if same_handler else h2, iterate=it1 if same_handler else it2, exact=True)
                    for cls in (Child, Sibling, GrandChild, Base):
                        for op, spec in (('get', 'x'), ('get-path', Path('x')), ('iterate', [T])):
                            got = call(g.glom, cls(), spec)
                            col.count('api_lookups')
                            col.count('narrowed_registration_lookups')
                            answers.setdefault((cls.__name__, op), {})[twin] = (got.ok, repr(got.value) if got.ok else type(got.exc).__name__)
                for (cname, op), a in sorted(answers.items()):
                    col.case(('non-exact-then-exact', default_types, same_handler, warm, cname, op), True)
                    if a['cold'] != a['warm']:
                        col.violation('C13/choice-depends-on-earlier-lookups:after-a-narrowing-registration:%s' % op.split('-')[0],
                                      'Glommer(register_default_types=%s): register(Base, get=h1, iterate=it1); [%s]; register(Base, get=%s, iterate=.., exact=True) - '
                                      '%s on a %s instance gives %r when the bracketed lookups were made and %r when they were not'
                                      % (default_types, warm, 'h1' if same_handler else 'h2', op, cname, a['warm'], a['cold']), None)


def order_of_registration_does_not_pick_among_several_bases(col):
    """"the choice depends [not] on registration order": an unregistered class with several registered real bases (mixins; which of
    two incomparable bases is "nearest" the statement leaves open, §6) is served by the same base whichever of them was registered
    first - twins that differ only in the order of the register() calls answer alike"""
    shapes = []

    def shape_two():
        class Near:
            x = 'attr'

        class Far:
            x = 'attr'

        class Target(Near, Far):
            pass
        return [Near, Far], [Target]

    def shape_deep():
        class Near:
            x = 'attr'

        class FarBase:
            x = 'attr'

        class Far(FarBase):
            pass

        class Mid(Near, Far):
            pass

        class Target(Mid):
            pass
        return [Near, FarBase], [Mid, Target]

    def shape_three():
        class A:
            x = 'attr'

        class B:
            x = 'attr'

        class C:
            x = 'attr'

        class Target(A, B, C):
            pass

        class Other(C, A):
            pass
        return [A, B, C], [Target, Other]
    for shape_name, shape in (('two-bases', shape_two), ('one-base-deeper', shape_deep), ('three-bases', shape_three)):
        for default_types in (True, False):
            bases, probes = shape()
            answers = {}
            for order in itertools.permutations(range(len(bases))):
                g = Glommer(register_default_types=default_types)
                for i in order:
                    name = bases[i].__name__
                    g.register(bases[i], get=(lambda o, k, name=name: 'get-of-' + name), iterate=(lambda o, name=name: iter(['iter-of-' + name])))
                for cls in probes:
                    for op, spec in (('get', 'x'), ('iterate', [T])):
                        got = call(g.glom, cls(), spec)
                        col.count('api_lookups')
                        col.count('registration_order_twin_lookups')
                        answers.setdefault((cls.__name__, op), {})[order] = (got.ok, repr(got.value) if got.ok else type(got.exc).__name__)
            for (cname, op), a in sorted(answers.items()):
                col.case(('order-among-several-bases', shape_name, default_types, cname, op), True)
                if len(set(a.values())) > 1:
                    col.violation('C13/choice-depends-on-registration-order:several-registered-bases:%s' % op,
                                  'Glommer(register_default_types=%s), %s: %s on a %s instance answers %s depending on the order in which %s were registered'
                                  % (default_types, shape_name, op, cname, sorted(set(a.values())), [b.__name__ for b in bases]), None)


def refused_operations_leave_no_trace(col, contract):
    """"the choice does not depend on which lookups happened before" includes lookups that found NOTHING: after operations that were
    refused for a type (a reduction of a non-iterable, a list spec, an Iter, wildcard walks over such leaves, assign / delete on an
    immutable) every later lookup for that type answers as it did on a fresh registry - and a registration made afterwards is used"""
    import glom as glom_pkg
    from glom import Sum, Flatten, Merge, FoldError
    for kind in ('Glommer', 'Glommer-without-defaults', 'module-level'):
        class Opaque:
            __slots__ = ('v',)

            def __init__(self):
                self.v = 1

        class OpaqueChild(Opaque):
            __slots__ = ()
        if kind == 'module-level':
            reg, run = glom_pkg.register, glom_pkg.glom
        else:
            g = Glommer(register_default_types=(kind == 'Glommer'))
            reg, run = g.register, g.glom
            if kind != 'Glommer':
                g.register(dict, get=lambda d, k: d[k], iterate=False)
                g.register(list, get=lambda l, i: l[int(i)], iterate=iter)
        probes = [('list spec', [T]), ('Iter', (Iter(), list)), ('list spec below a path', ('box', [T])), ('Sum', Sum()), ('Flatten', Flatten()),
                  ('Merge', Merge()), ('Fold', Fold(T, init=list)), ('with default', Coalesce([T], default='dflt'))]

        def outcomes(cls):
            out = []
            for name, spec in probes:
                t = {'box': cls()} if 'below' in name else cls()
                o = call(run, t, spec)
                out.append((name, ('value', repr(o.value)) if o.ok else ('raise', type(o.exc).__name__, isinstance(o.exc, UnregisteredTarget), isinstance(o.exc, FoldError))))
            return out
        fresh = {cls: outcomes(cls) for cls in (Opaque, OpaqueChild)}
        # refused operations of every kind, and walks that meet such leaves
        for cls in (Opaque, OpaqueChild):
            for spec in (Sum(), Flatten(), Merge(), '*', '**', T.__star__(), Assign('zz', 1), Delete('zz', ignore_missing=True), 'v.real'):
                call(run, cls(), spec)
                call(run, {'box': [cls(), cls()]}, ('box', spec) if not isinstance(spec, str) else 'box.' + spec)
        for cls in (Opaque, OpaqueChild):
            again = outcomes(cls)
            col.case(('refused-operations', kind, cls.__name__), True)
            col.count('api_lookups', len(again))
            col.count('lookups_after_refused_operations', len(again))
            if again != fresh[cls]:
                diff = [(a, b) for a, b in zip(fresh[cls], again) if a != b]
                col.violation('C13/lookup-depends-on-earlier-refused-operations:' + diff[0][0][0].replace(' ', '-'),
                              '%s registry, instances of %s: before any refused operation %r ; after refused reductions / wildcard walks / edits %r'
                              % (kind, cls.__name__, diff[0][0], diff[0][1]), None)
        reg(Opaque, iterate=lambda o: iter(['registered-item']))
        for cls in (Opaque, OpaqueChild):
            got = call(run, cls(), [T])
            col.count('api_lookups')
            if not got.ok or got.value != ['registered-item']:
                col.violation('C13/registration-after-refused-operations-not-used', '%s registry: after refused operations, register(Opaque, iterate=...) ; [T] on a %s '
                              'instance gives %r' % (kind, cls.__name__, got), None)
        if contract.disagreements:
            d = contract.disagreements[0]
            col.violation('C13/contract:%s:refused-operations' % d['op'], 'get_handler post-condition failed: %s' % (d,), d)
            del contract.disagreements[:]


def nested_entry_points_use_the_calls_registry(col):
    """constructs that evaluate a sub-spec through an entry point of their own (the key of First / Iter().first) still use the registry
    of the call they run in: a Glommer's own registrations apply there, global registrations do not leak in, and a Glommer without
    default types knows no more inside the key spec than outside"""
    import glom as glom_pkg
    from glom.streaming import First

    class Cell:
        __slots__ = ('raw',)

        def __init__(self, raw):
            self.raw = raw

    class GlobalOnly:
        __slots__ = ('raw',)

        def __init__(self, raw):
            self.raw = raw
    glom_pkg.register(GlobalOnly, get=lambda o, k: ('global-handler', o.raw))
    g = Glommer()
    g.register(Cell, get=lambda o, k: o.raw if k == 'decoded' else getattr(o, k))
    bare = Glommer(register_default_types=False)
    bare.register(list, iterate=iter)
    cells = lambda: [Cell(0), Cell(''), Cell('hit'), Cell('later')]
    for name, mk in (('Iter().first(key=path)', lambda: (Iter().first('decoded'), 'raw')), ('First(key=path)', lambda: (First('decoded'), 'raw')),
                     ('Iter().first(key=(path, len))', lambda: (Iter().first(('decoded', lambda v: len(v) if isinstance(v, str) else 0)), 'raw'))):
        got = call(g.glom, cells(), mk())
        col.case(('nested-entry-point', name, 'own-registration'), True)
        col.count('api_lookups')
        col.count('nested_entry_point_lookups')
        if not got.ok or got.value != 'hit':
            col.violation('C13/nested-entry-point-ignores-the-registry-of-the-call:own-registration', 'Glommer with register(Cell, get=decoder): %s over Cell items gives %r, '
                          "expected the raw value 'hit' of the first item whose decoded value is truthy" % (name, got), None)
    # a global registration must not be seen by the key spec of a Glommer call
    got = call(g.glom, [GlobalOnly(0), GlobalOnly(5)], (Iter().first('raw'), 'raw'))
    col.count('api_lookups')
    col.count('nested_entry_point_lookups')
    if not got.ok or got.value != 5:
        col.violation('C13/nested-entry-point-ignores-the-registry-of-the-call:global-leaks-in', 'glom.register(GlobalOnly, get=...) ; a Glommer, Iter().first("raw") over '
                      'GlobalOnly items: %r, expected 5 (plain attribute access)' % (got,), None)
    # a Glommer without default types: dict access is unknown inside the key spec as it is outside
    outside = call(bare.glom, {'a': 1}, 'a')
    inside = call(bare.glom, [{'a': 0}, {'a': 1}], Iter().first('a'))
    col.count('api_lookups', 2)
    col.count('nested_entry_point_lookups')
    if outside.ok or not isinstance(outside.exc, UnregisteredTarget) or inside.ok or not isinstance(inside.exc, UnregisteredTarget):
        col.violation('C13/nested-entry-point-ignores-the-registry-of-the-call:defaults-leak-in', "Glommer(register_default_types=False): 'a' on a dict gives %r ; "
                      "Iter().first('a') over dicts gives %r (both must be UnregisteredTarget)" % (outside, inside), None)


def ephemeral_classes(col, contract):
    """classes created at run time, looked up once and dropped (and collected), in turn of different kinds, on ONE registry
    without any register() call in between: each lookup is decided by the class at hand, whatever was looked up before at
    the same memory address (the contract recomputes every lookup without the memo)"""
    import gc
    for gname, g in (('Glommer()', Glommer()), ('Glommer(register_default_types=False)', None)):
        if g is None:
            g = Glommer(register_default_types=False)
            g.register(dict, get=lambda o, k: ('dict-handler', o[k]))
            g.register(object, get=lambda o, k: ('object-handler', getattr(o, k)))
        for i in range(400):
            kind = ('dict', 'obj', 'list', 'dict')[i % 4] if i % 7 else 'obj'
            if kind == 'dict':
                cls = type('EphemeralD', (dict,), {})
                inst = cls(x=i)
                want = i
            elif kind == 'list':
                cls = type('EphemeralL', (list,), {})
                inst = cls([i])
                want = i
            else:
                cls = type('EphemeralO', (), {})
                inst = cls()
                inst.x = i
                want = i
            spec = '0' if kind == 'list' else 'x'
            got = call(g.glom, inst, spec)
            col.case(('ephemeral', gname, kind), True)
            col.count('api_lookups')
            col.count('ephemeral_class_lookups')
            val = got.value[1] if got.ok and isinstance(got.value, tuple) and len(got.value) == 2 and isinstance(got.value[0], str) else (got.value if got.ok else None)
            if gname != 'Glommer()' and kind == 'list':
                ok = True       # (no list registration there: object-handler getattr('0') fails, either way not the point)
            else:
                ok = got.ok and val == want
            if not ok:
                col.violation('C13/lookup-depends-on-an-earlier-class-at-the-same-address',
                              '%s: lookup #%d, a fresh %s-kind class: %r, expected %r' % (gname, i, kind, got, want), None)
                break
            del inst, cls
            gc.collect()
        if contract.disagreements:
            d = contract.disagreements[0]
            col.violation('C13/contract:%s:ephemeral-classes' % d['op'], 'get_handler post-condition failed: %s' % d, d)
            del contract.disagreements[:]


class _Box:
    def __repr__(self):
        return 'Box(%s)' % ', '.join(sorted(self.__dict__))


def created_levels_use_the_calls_registry(col):
    """Assign(.., missing=factory) inside Glommer.glom: every level the factory creates is written through THAT Glommer's
    registry - its handlers see all levels, handlers registered on the module-level registry or on another Glommer none"""
    import glom as glom_pkg
    seen_g, seen_other, seen_global = [], [], []
    g, other = Glommer(), Glommer()
    g.register(_Box, assign=lambda o, k, v: (seen_g.append(k), setattr(o, k, v)) and None)
    other.register(_Box, assign=lambda o, k, v: (seen_other.append(k), setattr(o, k, v)) and None)
    glom_pkg.register(_Box, assign=lambda o, k, v: (seen_global.append(k), setattr(o, k, v)) and None)
    for spelling, path in (('string', 'k1.k2.k3'), ('Path', Path('k1', 'k2', 'k3'))):
        del seen_g[:], seen_other[:], seen_global[:]
        root = _Box()
        got = call(g.glom, root, Assign(path, 5, missing=_Box))
        col.case(('missing-levels-registry', spelling), True)
        col.count('api_lookups', 3)
        ok = got.ok and sorted(seen_g) == ['k1', 'k2', 'k3'] and not seen_other and not seen_global and \
            getattr(getattr(getattr(root, 'k1', None), 'k2', None), 'k3', None) == 5
        if not ok:
            col.violation('C13/created-levels-written-through-another-registry',
                          "Glommer.glom(Box(), Assign(%s, 5, missing=Box)): %r ; this Glommer's assign handler saw %s, another Glommer's %s, "
                          'the module-level one %s (expected k1, k2, k3 / nothing / nothing)' % (short(path), got if not got.ok else 'returned',
                                                                                                sorted(seen_g), seen_other, seen_global), None)
    # one wildcard whose matches are of different registered types: each match is written through the handler of ITS type
    class Crate:
        pass
    seen_crate = []
    g3 = Glommer()
    g3.register(Crate, assign=lambda o, k, v: (seen_crate.append(k), o.__dict__.__setitem__('crate_' + k, v)) and None)
    for order in ((dict, Crate), (Crate, dict), (dict, Crate, dict)):
        del seen_crate[:]
        items = [t() for t in order]
        got = call(g3.glom, items, Assign('*.x', 1))
        col.case(('wildcard-assign-mixed-registered-types', tuple(t.__name__ for t in order)), True)
        col.count('api_lookups', len(order))
        want = [{'x': 1} if t is dict else {'crate_x': 1} for t in order]
        have = [i if isinstance(i, dict) else dict(i.__dict__) for i in items]
        if not got.ok or have != want:
            col.violation('C13/wildcard-assign-uses-one-handler-for-all-matches', "Glommer.glom([%s], Assign('*.x', 1)) with a custom assign handler for Crate: %r ; "
                          'items now %s, expected %s' % (', '.join(t.__name__ for t in order), got if not got.ok else 'returned', have, want), None)
    # and the other way round: module-level glom() uses the module-level handler on every level
    del seen_g[:], seen_other[:], seen_global[:]
    got = call(glom_pkg.glom, _Box(), Assign('k1.k2.k3', 5, missing=_Box))
    col.count('api_lookups', 3)
    if not got.ok or sorted(seen_global) != ['k1', 'k2', 'k3'] or seen_g or seen_other:
        col.violation('C13/created-levels-written-through-another-registry', 'module-level glom: %r, module-level handler saw %s, Glommers %s %s'
                      % (got if not got.ok else 'returned', sorted(seen_global), seen_g, seen_other), None)


def exact_registration_of_object(col):
    """an exact registration covers instances of exactly that type - also when the type is `object`: register(object, .., exact=True) serves
    object() itself, and no other type that would otherwise be uncovered"""
    from glom import Glommer, UnregisteredTarget, GlomError, T, Path

    class Plain:
        def __init__(self):
            self.a = 1

    class Slotted:
        __slots__ = ('a',)

        def __init__(self):
            self.a = 1
    tag = lambda o, k: ('exact-object', k)
    for default_types in (False,):     # (in a default registry `object` is registered already, not exact: out of this battery's question)
        g = Glommer(register_default_types=default_types)
        g.register(object, get=tag, iterate=lambda o: iter(['walked']), keys=lambda o: ['k'], exact=True)
        probes = [('object() itself, get', object(), Path('a'), ('ok', ('exact-object', 'a'))), ('object() itself, iterate', object(), [T], ('ok', ['walked']))]
        if not default_types:
            probes += [('Plain instance, get', Plain(), Path('a'), 'unregistered'), ('Slotted instance, get', Slotted(), Path('a'), 'unregistered'),
                       ('int, get', 5, Path('real'), 'unregistered'), ('Plain instance, iterate', Plain(), [T], 'unregistered'),
                       ('list, iterate', [1], [T], 'unregistered'), ('Plain instance, star', Plain(), '*', ('ok', [])), ('set, star', {3}, '*', ('ok', []))]
        else:
            probes += [('Plain instance, get', Plain(), Path('a'), ('ok', 1)), ('set, star', {3}, '*', ('ok', [3])), ('Slotted instance, star', Slotted(), '*', ('ok', [])),
                       ('generator, star', (x for x in [4]), '*', ('ok', [4])), ('Plain instance, iterate', Plain(), [T], 'unregistered')]
        for desc, target, spec, want in probes:
            got = call(g.glom, target, spec)
            col.case(('exact-object', default_types, desc), True)
            col.count('api_lookups')
            if want == 'unregistered':
                ok = (not got.ok) and isinstance(got.exc, UnregisteredTarget)
            else:
                ok = got.ok and got.value == want[1]
            if not ok:
                col.violation('C13/exact-registration-of-object-serves-other-types', 'Glommer(register_default_types=%s) with register(object, .., exact=True): %s gives %r, expected %s'
                              % (default_types, desc, got, 'UnregisteredTarget' if want == 'unregistered' else repr(want[1])), None)


def glommer_driver(default_types):
    def make():
        g = Glommer(register_default_types=default_types)
        return {'register': g.register, 'glom': g.glom, 'default_types': default_types}
    return make


def configs(rng, registrable, full):
    """(order, exacts) over subsets of <= 4 types"""
    out = []
    for n in range(1, min(4, len(registrable)) + 1):
        for subset in itertools.combinations(registrable, n):
            for order in itertools.permutations(subset):
                for exacts in itertools.product([False, True], repeat=n):
                    out.append((order, exacts))
    if not full and len(out) > 60:
        out = rng.sample(out, 60)
    return out


def parity_battery():
    class Obj:
        def __init__(self, **kw):
            self.__dict__.update(kw)

        def __eq__(self, o):
            return type(o) is type(self) and o.__dict__ == self.__dict__

        def __repr__(self):
            return 'Obj(%r)' % self.__dict__

    class DSub(dict):
        pass

    class LSub(list):
        pass
    mk = [
        (lambda: {'a': {'b': [1, 2, {'c': 3}]}}, 'a.b.2.c'), (lambda: {'a': [1, 2]}, ('a', [T * 2])),
        (lambda: Obj(x=Obj(y=5)), 'x.y'), (lambda: [Obj(v=1), Obj(v=2)], ['v']), (lambda: {'a': 1}, 'zz'),
        (lambda: (1, 2, 3), '1'), (lambda: OrderedDict(a=1, b=2), '*'), (lambda: {'a': {'b': 1}, 'c': [2]}, '**'),
        (lambda: Obj(p=1, q=[2]), '*'), (lambda: DSub(k=1), 'k'), (lambda: LSub([5, 6]), '1'), (lambda: DSub(k={'z': 1}), '*'),
        (lambda: {'a': {}}, Assign('a.b', 5)), (lambda: {'a': [1, 2]}, Assign('a.0', 'x')), (lambda: Obj(a=Obj()), Assign('a.n', 1)),
        (lambda: {}, Assign('a.b.c', 1, missing=dict)), (lambda: (1,), Assign('0', 1)), (lambda: DSub(), Assign('k', 1)),
        (lambda: LSub([1]), Assign('0', 2)), (lambda: {'a': {'b': 1}}, Delete('a.b')), (lambda: {'a': [1, 2]}, Delete('a.0')),
        (lambda: Obj(a=1), Delete('a')), (lambda: {}, Delete('a')), (lambda: {}, Delete('a', ignore_missing=True)),
        (lambda: DSub(k=1), Delete('k')), (lambda: LSub([1, 2]), Delete('0')), (lambda: 5, ['x']), (lambda: None, 'a'),
        (lambda: {'a': None}, Coalesce('a.b', 'a')), (lambda: [1, 2, 3], Fold(T, init=int)), (lambda: iter([1, 2]), [T]),
        (lambda: {1, 2}, [T]), (lambda: 'abc', [T]), (lambda: {'a': 1}, Match({'a': int})), (lambda: [3, 1], Iter().map(T + 1).all()),
        (lambda: {'a': [{'k': 1}, {'k': 2}]}, 'a.*.k'), (lambda: {'a': [{'k': 1}]}, Assign('a.*.k', 9)),
        (lambda: Obj(items=[Obj(n=1)]), ('items', [T.n])), (lambda: {'x': 1}, {'y': 'x', 'z': Val(2)}),
        (lambda: {'x': 1}, (S(v=T['x']), S.v)), (lambda: range(3), [T]),
    ]
    return mk


def signature(o):
    from ..util import exc_sig
    if o.ok:
        v = o.value
        if hasattr(v, '__next__'):
            v = list(v)
        return ('value', type(v).__name__, repr(v))
    sig = exc_sig(o.exc)
    return ('error', sig[0], sig[1].splitlines()[-1] if len(sig) > 1 and sig[1] else '')


def parity(col):
    for i, (mk, spec) in enumerate(parity_battery()):
        a = call(glom_pkg.glom, mk(), spec)
        b = call(Glommer().glom, mk(), spec)
        col.case(('parity', i), True)
        col.count('parity_pairs')
        if signature(a) != signature(b):
            kind = 'glommer-missing-extension-ops' if (not b.ok and isinstance(b.exc, UnregisteredTarget)
                                                       and isinstance(spec, (Assign, Delete))) else 'outcome-differs'
            col.violation('C13/default-glommer-differs-from-glom:' + kind,
                          'spec %s on %s: glom -> %r ; Glommer().glom -> %r' % (short(spec), short(mk()), a, b),
                          {'spec': short(spec)})


def isolation(col, rng):
    """registrations on one Glommer / the global registry must not change outcomes elsewhere"""
    class Iso:
        def __init__(self):
            self.x = 'attr'
    g1, g2 = Glommer(), Glommer()
    before = [call(g.glom, Iso(), 'x') for g in (g1, g2)] + [call(glom_pkg.glom, Iso(), 'x')]
    g1.register(Iso, get=lambda o, k: 'g1-handler')
    after = [call(g1.glom, Iso(), 'x'), call(g2.glom, Iso(), 'x'), call(glom_pkg.glom, Iso(), 'x')]
    g3 = Glommer()   # created after g1's registration
    col.case(('isolation', 'glommer'), True)
    col.count('isolation_checks')
    if not (after[0].ok and after[0].value == 'g1-handler'):
        col.violation('C13/register-not-effective-immediately', 'g1.register then g1.glom -> %r' % after[0], None)
    for name, o in (('other Glommer', after[1]), ('module-level glom', after[2]), ('new Glommer', call(g3.glom, Iso(), 'x'))):
        if not (o.ok and o.value == 'attr'):
            col.violation('C13/glommer-registration-leaks', 'a registration on one Glommer changed %s: %r' % (name, o), None)


# ---------------------------------------------------------------------------
# module-level registry, in a subprocess

def global_child(seed, n_configs):
    """runs in a fresh interpreter: drives glom.register / glom.glom"""
    import random
    from ..report import Collector
    rng = random.Random('C13-global/%s' % seed)
    col = Collector('C13')
    contract = RegistryContract()
    contract.install()
    fams = families()
    # a Glommer created before, and one after, the global registrations: neither may be affected
    pre = Glommer()
    name, registrable, classes = rng.choice(fams)
    instances = [make_instance(c) for c in classes]
    order_all = [(o, e) for o, e in configs(rng, registrable, False)
                 if not any(ex and t in DEFAULT_REGISTERED for t, ex in zip(o, e))]   # (as in run(): no exact re-registration of default types)
    order, exacts = rng.choice(order_all)

    def make():
        return {'register': glom_pkg.register, 'glom': glom_pkg.glom, 'default_types': True}
    run_config(col, 'global', make, name, registrable, order, exacts, instances, contract, 'module-level')
    tagger_log_free = [call(pre.glom, inst, 'x') for inst in instances]
    post = Glommer()
    for inst in instances:
        for g, gname in ((pre, 'Glommer created before'), (post, 'Glommer created after')):
            o = call(g.glom, inst, 'x')
            col.count('isolation_checks')
            if o.ok and isinstance(o.value, tuple) and o.value[:1] == ('got',):
                col.violation('C13/global-registration-leaks-into-glommer',
                              '%s the global registration of %s ran a globally registered handler: %r'
                              % (gname, [t.__name__ for t in order], o.value), None)
    col.count('handler_lookups_checked', contract.lookups)
    print('RESULT ' + json.dumps(col.to_dict(), default=repr))


def run_global(col, ctx, n):
    for i in range(n):
        seed = '%s-%s-%s' % (env.seed(), ctx.shard, i)
        cmd = [sys.executable, '-m', 'rv.checks.c13', '--global-child', seed]
        try:
            p = subprocess.run(cmd, env=env.child_env(), cwd=env.VERIF_DIR, timeout=300, stdout=subprocess.PIPE,
                               stderr=subprocess.STDOUT, text=True)
        except subprocess.TimeoutExpired:
            col.fail_inconclusive('global-registry child timed out')
            continue
        line = [ln for ln in p.stdout.splitlines() if ln.startswith('RESULT ')]
        if p.returncode != 0 or not line:
            col.fail_inconclusive('global-registry child failed: %s' % p.stdout[-800:])
            continue
        col.merge_dict(json.loads(line[0][7:]))
        col.count('global_registry_processes')


def run(ctx):
    col, rng = ctx.col, ctx.rng
    contract = RegistryContract()
    contract.install()
    col.require('api_lookups', 2000)
    col.require('handler_lookups_checked', 2000)
    col.require('registration_histories', 50)
    col.require('histories_with_a_repeated_registration', 20)
    col.require('global_registry_processes', 1)
    try:
        if ctx.shard == 0:
            parity(col)
            isolation(col, rng)
            reregistration(col, contract)
            repeated_registration(col, contract)
            explicit_false_survives_reregistration(col, contract)
            exact_registration_widened_later(col, contract)
            narrowed_registration_does_not_depend_on_earlier_lookups(col)
            order_of_registration_does_not_pick_among_several_bases(col)
            refused_operations_leave_no_trace(col, contract)
            nested_entry_points_use_the_calls_registry(col)
            ephemeral_classes(col, contract)
            created_levels_use_the_calls_registry(col)
            exact_registration_of_object(col)
        fams = families()
        for name, registrable, classes in fams:
            instances = [make_instance(c) for c in classes]
            cfgs = configs(rng, registrable, ctx.thorough and ctx.shard < 99)
            if ctx.thorough:
                cfgs = cfgs[ctx.shard::ctx.nshards]
            for order, exacts in cfgs:
                for default_types in (True, False):
                    if default_types and any(ex and t in DEFAULT_REGISTERED for t, ex in zip(order, exacts)):
                        continue    # would re-register a default type with another exact flag: left open by the statement (see META)
                    label = 'Glommer()' if default_types else 'Glommer(register_default_types=False)'
                    col.case((name, tuple(t.__name__ for t in order), exacts, default_types), len(order) >= 2)
                    run_config(col, 'glommer', glommer_driver(default_types), name, registrable, order, exacts, instances, contract, label)
                    if rng.random() < 0.5:
                        # the same type registered in two calls (the library's own idiom: register(dict, get=..) and then
                        # register(dict, keys=..)), same exact flag: the nearest-type relation is unchanged by the repeat
                        i = rng.randrange(len(order))
                        order2, exacts2 = tuple(order) + (order[i],), tuple(exacts) + (exacts[i],)
                        col.case((name, tuple(t.__name__ for t in order2), exacts2, default_types, 'repeat'), True)
                        col.count('histories_with_a_repeated_registration')
                        run_config(col, 'glommer', glommer_driver(default_types), name, registrable, order2, exacts2, instances, contract,
                                   label + ' (one type registered twice, each call naming a subset of the operations)', partial_rng=rng)
                    if rng.random() < 0.5:
                        col.case((name, tuple(t.__name__ for t in order), exacts, default_types, 'partial-ops'), len(order) >= 2)
                        run_config(col, 'glommer', glommer_driver(default_types), name, registrable, order, exacts, instances, contract,
                                   label + ' (register() naming a subset of the operations)', partial_rng=rng)
            if col.want_sample(name):
                col.sample({'family': name, 'classes': [c.__name__ + str([b.__name__ for b in c.__bases__]) for c in classes],
                            'registrable': [t.__name__ for t in registrable], 'configurations_run': len(cfgs) * 2}, name)
        col.count('handler_lookups_checked', contract.lookups)
        run_global(col, ctx, ctx.n(4, 6))
    finally:
        contract.uninstall()


if __name__ == '__main__':
    if len(sys.argv) >= 3 and sys.argv[1] == '--global-child':
        global_child(sys.argv[2], 1)
