"""C18 - T and Path are faithful values: repr, pickle and slicing round-trip.

Oracles
  * eval(repr(x)) in the glom namespace / pickle.loads(pickle.dumps(x)) must give
    an object with the same repr that *evaluates identically*: evaluation is
    observed on a universal recording target U (every attribute / item / call on
    it succeeds and is appended to a trace), on a scope holding such recorders for
    S/A rooted expressions, and on a battery of concrete targets (outcome =
    value or error class + message).
  * a Path is compared against the plain tuple of its steps for len, indexing,
    slicing, concatenation, values(), ==, startswith and evaluation split.
"""
import sys
import pickle
import itertools

from .. import env
from ..util import call, exc_sig, norm_text
from ..report import short

glom = env.bind()
from glom import T, S, A, Path, glom as G  # noqa: E402

META = {
    'level': 'exploration',
    'rule': ('random T/S/A expressions and Paths (length 0-6) over attribute, item (ints, negative '
             'ints, strings with quotes/dots/newlines, None, floats, bools, bytes, tuples of length '
             '0/1/n, slices with every None pattern, tuples containing slices, builtins, nested T), '
             'call (positional/keyword literals, nested T) and wildcard steps; plus a systematic '
             'part: every literal kind alone under each root, every index in [-len-2, len+1] and '
             'every slice triple with start/stop in [-len, len] U {None}, step in '
             '{None,1,2,3,-1,-2}. A case is non-trivial when the expression has >= 2 steps or a '
             'structured argument; distinct by (root, op-kind sequence, argument-kind sequence, '
             'law checked).'),
    'assumptions': [
        'non-finite floats, dunder attribute names, keyword-named attributes and arithmetic steps are outside the statement',
        'evaluation equality is observed on a universal recording target and a fixed battery of concrete targets',
        'only in-range slice bounds (|start|,|stop| <= len) are compared with tuple slicing',
    ],
}

NS = dict(vars(__import__('glom')))
NS['__builtins__'] = __builtins__ if isinstance(__builtins__, dict) else vars(__builtins__)

NAMES = ['a', 'b', 'c', 'foo', 'bar_1', 'x9', '_p', 'k']


# ---------------------------------------------------------------------------
# universal recording target

class U(dict):
    """every operation succeeds and is recorded"""
    def __init__(self, trace=(), sink=None):
        dict.__init__(self)
        self.__dict__['_trace'] = trace
        self.__dict__['_sink'] = sink if sink is not None else []

    def __getattr__(self, name):
        if name.startswith('__') or name in ('glomit', 'agg'):
            raise AttributeError(name)   # (else glom would take the recorder for a spec)
        return U(self._trace + (('.', name),), self._sink)

    def __getitem__(self, item):
        return U(self._trace + (('[', canon(item)),), self._sink)

    def __call__(self, *a, **kw):
        return U(self._trace + (('(', canon(a), canon(kw)),), self._sink)

    def __setattr__(self, name, val):
        self._sink.append((self._trace, 'setattr', name, canon(val)))

    def __setitem__(self, item, val):
        self._sink.append((self._trace, 'setitem', canon(item), canon(val)))

    def __repr__(self):
        return 'U%r' % (self._trace,)

    def __bool__(self):
        return True


def canon(v):
    if isinstance(v, U):
        return ('U', v._trace)
    if type(v) is slice:
        return ('slice', canon(v.start), canon(v.stop), canon(v.step))
    if type(v) in (tuple, list):
        return (type(v).__name__,) + tuple(canon(x) for x in v)
    if type(v) in (set, frozenset):
        return (type(v).__name__,) + tuple(sorted((canon(x) for x in v), key=repr))
    if type(v) is dict:
        return ('dict',) + tuple(sorted(((canon(k), canon(x)) for k, x in v.items()), key=repr))
    return (type(v).__name__, repr(v))


# ---------------------------------------------------------------------------
# generators

def gen_literal(rng, depth=0, hashable=False):
    # ('long*' / 'bigint': longer than the limits a reprlib-based renderer abbreviates at by default - 6 elements, 4 dict
    # entries, 30 characters, 40 digits)
    kinds = ['int', 'negint', 'str', 'qstr', 'dotstr', 'nlstr', 'none', 'float', 'bool', 'bytes',
             'builtin', 'longstr', 'bigint', 'tuple0', 'tuple1', 'tuplen', 'longtuple', 'longfset']
    if not hashable:
        kinds += ['list', 'dict', 'longlist', 'longdict', 'longset']
    if depth >= 2:
        kinds = kinds[:13]
    k = rng.choice(kinds)
    return k, _lit(rng, k, depth)


def _lit(rng, k, depth):
    if k == 'int':
        return rng.choice([0, 1, 2, 7, 10 ** 12])
    if k == 'negint':
        return rng.choice([-1, -2, -17])
    if k == 'str':
        return rng.choice(['a', 'key', '', 'with space', 'é'])
    if k == 'qstr':
        return rng.choice(["it's", 'say "hi"', "both ' and \"", "\\'"])
    if k == 'dotstr':
        return rng.choice(['a.b', '.', '*', '**', 'a.*'])
    if k == 'nlstr':
        return rng.choice(['line1\nline2', '\t', '\x00'])
    if k == 'none':
        return None
    if k == 'float':
        return rng.choice([0.5, -1.25, 1e100, 3.0])
    if k == 'bool':
        return rng.choice([True, False])
    if k == 'bytes':
        return rng.choice([b'', b'ab', b"q'"])
    if k == 'builtin':
        return rng.choice([len, int, str, sorted, dict])
    if k == 'longstr':
        return rng.choice(['x' * 45, 'long string with spaces and a quote \' somewhere in the middle of it'])
    if k == 'bigint':
        return rng.choice([10 ** 60 + 7, -(10 ** 45)])
    if k == 'longtuple':
        return tuple(range(rng.randint(7, 9)))
    if k == 'longfset':
        return frozenset(range(rng.randint(7, 9)))
    if k == 'longlist':
        return list(range(rng.randint(7, 9)))
    if k == 'longset':
        return set(range(rng.randint(7, 9)))
    if k == 'longdict':
        return {'k%d' % i: i for i in range(rng.randint(5, 7))}
    if k == 'tuple0':
        return ()
    if k == 'tuple1':
        return (gen_literal(rng, depth + 1, True)[1],)
    if k == 'tuplen':
        return tuple(gen_literal(rng, depth + 1, True)[1] for _ in range(rng.randint(2, 3)))
    if k == 'list':
        return [gen_literal(rng, depth + 1)[1] for _ in range(rng.randint(0, 2))]
    if k == 'dict':
        ks = sorted({rng.choice(NAMES) for _ in range(rng.randint(0, 2))})  # sorted: reprlib prints dicts sorted
        return {k: gen_literal(rng, depth + 1)[1] for k in ks}
    raise AssertionError(k)


def gen_slice(rng):
    pick = lambda: rng.choice([None, None, 0, 1, 2, -1, -3])
    step = rng.choice([None, None, 1, 2, -1])
    return slice(pick(), pick(), step)


def gen_item(rng, depth):
    """returns (kind, value) for an index argument"""
    r = rng.random()
    if r < 0.18:
        return 'slice', gen_slice(rng)
    if r < 0.26:
        n = rng.randint(1, 3)
        parts = tuple(gen_slice(rng) if rng.random() < 0.6 else gen_literal(rng, 1, True)[1] for _ in range(n))
        if n == 1:
            return 'tuple1slice' if type(parts[0]) is slice else 'tuple1', parts
        return 'tupleslice', parts
    if r < 0.36 and depth < 2:
        return 'nestedT', gen_t(rng, T, rng.randint(1, 2), depth + 1)[0]
    return gen_literal(rng, depth, hashable=True)


def gen_t(rng, root, n, depth=0, allow_star=True):
    """returns (expr, opkinds, argkinds)"""
    x = root
    ops, args = [], []
    for i in range(n):
        choices = ['.', '.', '[', '[', '[']
        if root is not A:
            choices += ['(']
            if allow_star and root is T:
                choices += ['x', 'X']
        if root is S and i == 0:
            choices = ['.', '[', '[']  # S(...) binder handled separately
        op = rng.choice(choices)
        if op == '.':
            x = getattr(x, rng.choice(NAMES)); args.append('name')
        elif op == '[':
            k, v = gen_item(rng, depth)
            x = x[v]; args.append(k)
        elif op == '(':
            pos = [gen_call_arg(rng, depth) for _ in range(rng.randint(0, 2))]
            kws = {rng.choice(NAMES): gen_call_arg(rng, depth) for _ in range(rng.randint(0, 2))}
            # keyword order: sorted, as repr() prints them (order of **kwargs is not part of the claim)
            x = x(*[v for _, v in pos], **{k: kws[k][1] for k in sorted(kws)})
            args.append('call(%s;%s)' % (','.join(k for k, _ in pos), ','.join(sorted(k for k, _ in kws.values()))))
        elif op == 'x':
            x = x.__star__(); args.append('-')
        elif op == 'X':
            x = x.__starstar__(); args.append('-')
        ops.append(op)
    return x, ''.join(ops), tuple(args)


def gen_call_arg(rng, depth):
    if rng.random() < 0.2 and depth < 2:
        return 'nestedT', gen_t(rng, T, rng.randint(1, 2), depth + 1, allow_star=False)[0]
    return gen_literal(rng, depth + 1)


def gen_path(rng, n, root=T, allow_star=True):
    """Path from a mixture of plain parts, T steps and nested Paths.
    returns (path, parts description, expected items tuple)"""
    parts, items, kinds = [], [], []
    if root is not T:
        parts.append(root)
    while len(items) < n:
        r = rng.random()
        if r < 0.5:
            # (a tenth of the plain parts are lists / dicts: legal parts - they fail as keys, index like any other part)
            k, v = gen_literal(rng, 1, hashable=rng.random() >= 0.1)
            if k == 'builtin':
                k, v = 'str', 'blt'
            parts.append(v); items.append(('P', v)); kinds.append('P:' + k)
        elif r < 0.8:
            m = min(rng.randint(1, 2), n - len(items))
            t, ops, _ = gen_t(rng, T, m, 1, allow_star)
            parts.append(t)
            its = t.__ops__[1:]
            items.extend(zip(its[::2], its[1::2])); kinds.append('T:' + ops)
        else:
            m = min(rng.randint(1, 2), n - len(items))
            sub, _, sub_items = gen_path(rng, m, T, allow_star)
            parts.append(sub); items.extend(sub_items); kinds.append('Path%d' % m)
    if root is not T and items and items[0][0] == '(':
        return gen_path(rng, n, root, allow_star)  # S(1, 2): no such expression can be written
    return Path(*parts), tuple(kinds), tuple(items)


# ---------------------------------------------------------------------------
# features of an expression -> mechanism keys

def ops_of(x):
    return x.path_t.__ops__ if isinstance(x, Path) else x.__ops__


def _walk_ops(ops):
    """yield (root, op, arg) for the expression and every T nested in its arguments"""
    root = ops[0]
    for op, arg in zip(ops[1::2], ops[2::2]):
        yield root, op, arg
        stack = [arg]
        while stack:
            v = stack.pop()
            if isinstance(v, type(T)):
                yield from _walk_ops(v.__ops__)
            elif isinstance(v, Path):
                yield from _walk_ops(v.path_t.__ops__)
            elif type(v) in (tuple, list, set, frozenset):
                stack.extend(v)
            elif type(v) is dict:
                stack.extend(v.keys()); stack.extend(v.values())


def features(x):
    ops = ops_of(x)
    f = set()
    kinds = ops[1::2]
    if ops[0] is not T and ('P' in kinds or isinstance(x, Path)):
        f.add('non-T-root-path')
    for root, op, arg in _walk_ops(ops):
        if op == '[' and type(arg) is tuple:
            if len(arg) == 0:
                f.add('empty-tuple-index')
            elif len(arg) == 1:
                f.add('one-tuple-index')
        if op == 'P' and repr(arg).find('<') >= 0 and not isinstance(arg, str):
            f.add('path-part-with-angle-repr')
    return '+'.join(sorted(f)) or 'plain'


def ops_equal(a, b):
    """structural equality of two __ops__ tuples (TType has identity equality)"""
    if type(a) is not type(b):
        return False
    if isinstance(a, type(T)):
        return ops_equal(a.__ops__, b.__ops__) if (a.__ops__[0] is not a) else (a is b)
    if isinstance(a, Path):
        return ops_equal(a.path_t, b.path_t)
    if type(a) in (tuple, list):
        return len(a) == len(b) and all(ops_equal(p, q) for p, q in zip(a, b))
    if type(a) is dict:
        return set(a) == set(b) and all(ops_equal(a[k], b[k]) for k in a)
    if type(a) is slice:
        return ops_equal((a.start, a.stop, a.step), (b.start, b.stop, b.step))
    try:
        return bool(a == b)
    except Exception:
        return a is b


def root_ops_equal(x, y):
    a, b = ops_of(x), ops_of(y)
    return a[0] is b[0] and ops_equal(a[1:], b[1:])


# ---------------------------------------------------------------------------
# evaluation battery

class Obj:
    def __init__(self, **kw):
        self.__dict__.update(kw)

    def __repr__(self):
        return 'Obj(%s)' % ', '.join('%s=%r' % kv for kv in sorted(self.__dict__.items()))

    def __eq__(self, other):
        return type(other) is Obj and self.__dict__ == other.__dict__


def concrete_targets():
    return [
        {'a': {'b': [1, 2, {'c': 3}], 'foo': 'xyz', 'k': (1, 2)}, 'b': [[1, 2], [3]], 'c': None,
         'a.b': 5, 0: 'zero', None: 'none', 'key': {'a': 1}},
        [{'a': 1, 'b': [1]}, {'a': 2}, [0, [1, [2]]], 'str', 7],
        Obj(a=Obj(b=[1, 2, 3], c={'k': 'v'}), foo=[Obj(a=1), Obj(a=2)], k=7),
        'a string', 0, None,
    ]


def err_sig(e):
    """class + final line (type and message of the original error); the trace in between
    renders the spec object itself (a Path shows '(len=n)' when truncated, a T does not) and
    is C05's business"""
    cls, text = exc_sig(e)
    return cls, text.splitlines()[-1] if text else ''


def eval_signature(x):
    """how x evaluates: trace on the universal target, scope effects, concrete outcomes"""
    sig = []
    root = ops_of(x)[0]
    # universal target
    u = U()
    scope = {n: U((('scope', n),), u._sink) for n in NAMES}
    o = call(G, u if root is T else 'TARGET', x, scope=scope)
    sig.append(canon(o.value) if o.ok else err_sig(o.exc))
    sig.append(tuple(u._sink))
    if root is T:
        for t in concrete_targets():
            o = call(G, t, x)
            sig.append(('val', norm_text(repr(o.value))) if o.ok else err_sig(o.exc))
    return sig


# ---------------------------------------------------------------------------
# the laws

def check_roundtrip(col, x, desc, key):
    """eval(repr) and pickle for one T expression or Path"""
    feat = features(x)
    kind = 'Path' if isinstance(x, Path) else 'T'
    o = call(repr, x)
    if not o.ok:
        col.case(('rt', kind) + key, True)
        col.violation('C18/repr-raises:%s:%s' % (kind, feat), 'repr() of %s (steps %s) raised %r' % (desc, short(ops_of(x)[1:]), o.exc),
                      {'desc': desc, 'steps': short(ops_of(x)[1:])})
        return
    rx = o.value
    nontrivial = len(ops_of(x)) >= 5 or feat != 'plain' or any(
        type(a) in (tuple, slice, list, dict) or isinstance(a, type(T)) for a in ops_of(x)[2::2])
    col.case(('rt', kind) + key, nontrivial)
    if col.want_sample('roundtrip'):
        col.sample({'repr': rx, 'law': 'eval(repr(x)) and pickle round-trip'}, 'roundtrip')
    o = call(eval, rx, dict(NS))
    col.count('eval_repr')
    if not o.ok:
        col.violation('C18/repr-not-evaluable:%s:%s' % (kind, feat),
                      'repr %r of %s does not evaluate: %r' % (rx, desc, o.exc), {'repr': rx, 'desc': desc})
        y = None
    else:
        y = o.value
        if not isinstance(y, (Path, type(T))) or (type(y) is not type(x) and not isinstance(x, Path)):
            # (a Path consisting only of T steps reprs as a T expression: same steps, other type)
            col.violation('C18/repr-eval-type:%s:%s' % (kind, feat),
                          'eval(repr) of %s gives %s' % (rx, type(y).__name__), {'repr': rx})
            return
        ry = short(y, 100000)
        if ry != rx:
            col.violation('C18/repr-not-stable:%s:%s' % (kind, feat),
                          'repr(eval(repr(x))) = %r != repr(x) = %r' % (ry, rx), {'repr': rx, 'repr2': ry})
        sx, sy = eval_signature(x), eval_signature(y)
        col.count('evaluations_compared', len(sx))
        if sx != sy:
            i = next((i for i, (p, q) in enumerate(zip(sx, sy)) if p != q), 0)
            col.violation('C18/repr-roundtrip-evaluates-differently:%s:%s' % (kind, feat),
                          'x=%s ops=%s; eval(repr(x)) evaluates differently (probe %d): %s vs %s'
                          % (rx, short(ops_of(x)), i, short(sx[i:i+1]), short(sy[i:i+1])),
                          {'repr': rx, 'x': short(sx[i:i+1], 5000), 'y': short(sy[i:i+1], 5000)})
        elif not root_ops_equal(x, y):
            col.violation('C18/repr-roundtrip-steps-differ:%s:%s' % (kind, feat),
                          'x=%s ops=%s but eval(repr(x)) has ops %s' % (rx, short(ops_of(x)), short(ops_of(y))),
                          {'repr': rx})
    # pickle
    for proto in range(0, pickle.HIGHEST_PROTOCOL + 1):
        o = call(lambda: pickle.loads(pickle.dumps(x, proto)))
        col.count('pickle_roundtrips')
        if not o.ok:
            col.violation('C18/pickle-fails:%s:%s' % (kind, feat),
                          'pickle protocol %d of %s: %r' % (proto, rx, o.exc), {'repr': rx})
            break
        z = o.value
        if repr(z) != rx or not root_ops_equal(x, z) or type(z) is not type(x):
            col.violation('C18/pickle-roundtrip-differs:%s:%s' % (kind, feat),
                          'pickle protocol %d: %s -> %s' % (proto, rx, repr(z)), {'repr': rx})
            break
        if proto == pickle.HIGHEST_PROTOCOL:
            sx, sz = eval_signature(x), eval_signature(z)
            if sx != sz:
                i = next((i for i, (p, q) in enumerate(zip(sx, sz)) if p != q), 0)
                col.violation('C18/pickle-evaluates-differently:%s:%s' % (kind, feat),
                              'pickle protocol %d of %s evaluates differently (probe %d): %s vs %s'
                              % (proto, rx, i, short(sx[i:i+1], 700), short(sz[i:i+1], 700)), {'repr': rx})


def has_nested_t(v):
    if isinstance(v, (type(T), Path)):
        return True
    if type(v) in (tuple, list, set, frozenset):
        return any(has_nested_t(x) for x in v)
    if type(v) is dict:
        return any(has_nested_t(k) or has_nested_t(x) for k, x in v.items())
    return False


def items_equal(got, want):
    return len(got) == len(want) and all(a[0] == b[0] and ops_equal(a[1], b[1]) for a, b in zip(got, want))


def check_sequence_laws(col, p, kinds, steps, rng, full):
    n = len(steps)
    rp = short(p)          # (report.short: a raising repr is reported by check_roundtrip, it must not stop this law)
    key = ('seq', n, kinds[:3])
    col.case(key, n >= 2)
    if col.want_sample('sequence'):
        col.sample({'path': rp, 'steps': short(steps), 'law': 'len/index/slice/concat/values/eq/startswith vs tuple of steps'}, 'sequence')
    wit = {'path': rp, 'steps': short(steps)}
    if not items_equal(p.items(), steps):
        col.violation('C18/path-items', 'items() of %s = %s, built from steps %s' % (rp, short(p.items()), short(steps)), wit)
        return
    if len(p) != n:
        col.violation('C18/path-len', 'len(%s) = %d, tuple of steps has %d' % (rp, len(p), n), wit)
    if not ops_equal(p.values(), tuple(v for _, v in steps)):
        col.violation('C18/path-values', 'values() of %s = %s' % (rp, short(p.values())), wit)
    # indexing
    for i in range(-n - 2, n + 2):
        want = call(lambda: steps[i])
        got = call(lambda: p[i])
        col.count('index_checks')
        if not want.ok:
            if got.ok or not isinstance(got.exc, IndexError):
                col.violation('C18/path-index-out-of-range-no-IndexError',
                              '%s[%d] (len %d): tuple raises IndexError, Path gives %r' % (rp, i, n, got), dict(wit, index=i))
        else:
            if not got.ok:
                col.violation('C18/path-index-raises', '%s[%d] raised %r' % (rp, i, got.exc), dict(wit, index=i))
            elif not (isinstance(got.value, Path) and items_equal(got.value.items(), (want.value,))):
                col.violation('C18/path-index-wrong-step', '%s[%d] = %r, step is %r' % (rp, i, got.value, want.value), dict(wit, index=i))
    # slicing, in-range bounds
    bounds = [None] + list(range(-n, n + 1))
    stepsz = [None, 1, 2, 3, -1, -2]
    triples = list(itertools.product(bounds, bounds, stepsz))
    if not full and len(triples) > 120:
        triples = rng.sample(triples, 120)
    for a, b, c in triples:
        sl = slice(a, b, c)
        want = steps[sl]
        got = call(lambda: p[sl])
        col.count('slice_checks')
        sign = 'negative-step' if (c or 1) < 0 else 'positive-step'
        if not got.ok:
            col.violation('C18/path-slice-raises:' + sign, '%s[%s:%s:%s] raised %r' % (rp, a, b, c, got.exc), dict(wit, slice=[a, b, c]))
        elif not (isinstance(got.value, Path) and items_equal(got.value.items(), want)):
            col.violation('C18/path-slice-differs-from-tuple:' + sign,
                          '%s[%s:%s:%s] = %r with items %s; tuple of steps gives %s'
                          % (rp, a, b, c, got.value, short(got.value.items()), short(want)), dict(wit, slice=[a, b, c]))
        elif ops_of(got.value)[0] is not ops_of(p)[0]:
            col.violation('C18/path-slice-loses-root', '%s[%s:%s:%s] root changed' % (rp, a, b, c), wit)
        elif (a, b, c) in ((None, None, None), (n, None, None), (1, 1, None), (None, 0, None), (None, None, -1)) or not want:
            # a slice is a Path like any other: it pickles and evaluates like the Path built from the same steps
            z = call(lambda: pickle.loads(pickle.dumps(got.value, pickle.HIGHEST_PROTOCOL)))
            col.count('pickle_roundtrips')
            if not z.ok or not isinstance(z.value, Path) or not items_equal(z.value.items(), want) or ops_of(z.value)[0] is not ops_of(p)[0]:
                col.violation('C18/sliced-path-does-not-pickle', 'pickling %s[%s:%s:%s] (= %r): %r' % (rp, a, b, c, got.value, z), dict(wit, slice=[a, b, c]))
    # equality / startswith
    for k in range(n + 1):
        pre_ops = (ops_of(p)[0],) + tuple(itertools.chain.from_iterable(steps[:k]))
        pre = type(T)(); pre.__ops__ = pre_ops
        col.count('startswith_checks')
        for form in (pre, Path(pre)):
            if p.startswith(form) is not True:
                col.violation('C18/path-startswith-prefix-false', '%s.startswith(prefix of %d steps) is not True' % (rp, k), wit)
        if k < n:
            if p == Path(pre):
                col.violation('C18/path-eq-proper-prefix', '%s == its %d-step prefix' % (rp, k), wit)
            bad = type(T)(); bad.__ops__ = pre_ops + ('.', 'zz_not_there')
            if p.startswith(bad) is not False:
                col.violation('C18/path-startswith-nonprefix-true', '%s.startswith(non-prefix) is not False' % rp, wit)
            # the same VALUES reached by another kind of access are other steps: (k+1)-step prefix with the kind of its last step changed
            op, arg = steps[k]
            if op in ('.', '[', 'P') and isinstance(arg, str):
                for other_op in {'.', '[', 'P'} - {op}:
                    if other_op == '.' and not arg.isidentifier():
                        continue
                    alt = type(T)(); alt.__ops__ = pre_ops + (other_op, arg)
                    col.count('startswith_checks')
                    for form in (alt, Path(alt)):
                        got_sw = call(p.startswith, form)
                        if not got_sw.ok or got_sw.value is not False:
                            col.violation('C18/path-startswith-nonprefix-true:same-values-other-kind-of-step',
                                          '%s.startswith(%s) gave %r: step %d is %r there and %r here' % (rp, short(form), got_sw, k, (other_op, arg), (op, arg)), wit)
            # ... and the same steps from another root are not a prefix either
            for other_root in (T, S, A):
                if other_root is not ops_of(p)[0]:
                    alt = type(T)(); alt.__ops__ = (other_root,) + pre_ops[1:] + tuple(steps[k])
                    got_sw = call(p.startswith, alt)
                    col.count('startswith_checks')
                    if not got_sw.ok or got_sw.value is not False:
                        col.violation('C18/path-startswith-nonprefix-true:other-root', '%s.startswith(%s) gave %r' % (rp, short(alt), got_sw), wit)
    same = type(T)(); same.__ops__ = (ops_of(p)[0],) + tuple(itertools.chain.from_iterable(steps))
    if not (p == Path(same)) or (p != Path(same)):
        col.violation('C18/path-eq-equal-steps-false', '%s != Path rebuilt from the same steps' % rp, wit)
    if not (p == same):
        col.violation('C18/path-eq-T-false', '%s != T expression with the same steps' % rp, wit)


def check_concat(col, p, psteps, q, qsteps):
    rp, rq = short(p), short(q)
    col.case(('concat', len(psteps), len(qsteps)), len(psteps) + len(qsteps) >= 2)
    wit = {'p': rp, 'q': rq}
    o = call(lambda: Path(p, q))
    if not o.ok:
        col.violation('C18/path-concat-raises', 'Path(%s, %s) raised %r' % (rp, rq, o.exc), wit)
        return
    pq = o.value
    if not items_equal(pq.items(), psteps + qsteps):
        col.violation('C18/path-concat-items', 'Path(%s, %s).items() = %s' % (rp, rq, short(pq.items())), wit)
    kinds = [op for op, _ in psteps + qsteps]
    if 'x' in kinds or 'X' in kinds or has_nested_t(qsteps):
        return  # nested T arguments are (by design) evaluated against the original target
    # glom(t, Path(p, q)) == glom(glom(t, p), q), on the universal target and the battery
    for t in [U()] + concrete_targets():
        whole = call(G, t, pq)
        first = call(G, t, p)
        col.count('split_evaluations')
        if first.ok:
            second = call(G, first.value, q)
            if whole.ok != second.ok or (whole.ok and canon(whole.value) != canon(second.value)):
                col.violation('C18/path-split-evaluation-differs',
                              'glom(t, Path(p, q)) = %r but glom(glom(t, p), q) = %r for p=%s q=%s t=%s'
                              % (whole, second, rp, rq, short(t)), wit)
            elif not whole.ok and type(whole.exc).__name__ != type(second.exc).__name__:
                col.violation('C18/path-split-error-class-differs',
                              'glom(t, Path(p, q)) raised %r but glom(glom(t, p), q) raised %r' % (whole, second), wit)
        elif whole.ok:
            col.violation('C18/path-split-evaluation-differs',
                          'glom(t, p) fails (%r) but glom(t, Path(p, q)) = %r' % (first, whole), wit)


# ---------------------------------------------------------------------------

def split_law_along_valid_paths(col, rng, n_targets):
    """glom(t, Path(p, q)) == glom(glom(t, p), q) where the law has content: heterogeneous targets (dict -> object -> list -> dict with
    the keys 1 and '1' -> tuple ...), valid paths obtained by walking them, every segment spelled as a plain part or as a T step, every
    split point; plus the same with one failing segment appended (same error class either way).  Results compared by identity."""
    from .. import gen

    def part(rng, seg, node):
        plain = rng.random() < 0.5
        if isinstance(node, dict) or isinstance(node, (list, tuple)):
            if plain:
                if isinstance(node, (list, tuple)) and rng.random() < 0.5:
                    return str(seg)
                return seg
            return T[seg]
        if plain or not (isinstance(seg, str) and seg.isidentifier() and not seg.startswith('__')):
            return seg
        return getattr(T, seg)
    fixed = [{'a': {'b': Obj(c=1, d=[{'1': 'text key', 1: 'int key'}, ('t0', 't1')])}, 'l': [[{'k': Obj(z={'w': 0})}]]},
             Obj(a=Obj(b={'c': [10, 20]}), lst=[{'x': Obj(y=(1, 2))}])]
    for i in range(n_targets + len(fixed)):
        if i < len(fixed):
            target = fixed[i]
        else:
            shared = []
            target = gen.build(gen.gen_recipe(rng, rng.randint(2, 5), path_only_keys=rng.random() < 0.5, width=2, shared=shared), {}, shared)
        stack, paths = [([], [target])], []
        while stack and len(paths) < 60:
            segs, nodes = stack.pop()
            if len(segs) >= 5:
                continue
            for seg, child in (list(target.__dict__.items()) if isinstance(nodes[-1], Obj) and not segs and False else
                               (list(nodes[-1].__dict__.items()) if isinstance(nodes[-1], Obj) else gen.children(nodes[-1]))):
                item = (segs + [seg], nodes + [child])
                paths.append(item)
                stack.append(item)
        for segs, nodes in paths:
            if len(segs) < 2:
                continue
            for variant in range(2):
                parts = [part(rng, sg, nd) for sg, nd in zip(segs, nodes)]
                if variant == 1:
                    parts.append(rng.choice(['zz_missing', 99, T['zz_missing'], T.zz_missing]))
                whole = call(G, target, Path(*parts))
                for k in range(1, len(parts)):
                    pth, q = Path(*parts[:k]), Path(*parts[k:])
                    first = call(G, target, pth)
                    col.count('split_evaluations')
                    col.count('split_evaluations_along_valid_paths')
                    col.case(('valid-split', tuple(type(n).__name__ for n in nodes[:4]), tuple(type(x).__name__ for x in parts), k, variant), True)
                    if not first.ok:
                        col.violation('C18/path-split-evaluation-differs:valid-prefix-fails', 'glom(t, %r) raised %r on %s although the segments were '
                                      'obtained by walking t' % (pth, first.exc, short(target)), None)
                        break
                    second = call(G, first.value, q)
                    joined = call(G, target, Path(pth, q))
                    for name, got in (('Path(*parts)', whole), ('Path(p, q)', joined)):
                        if got.ok != second.ok or (got.ok and got.value is not second.value):
                            col.violation('C18/path-split-evaluation-differs:heterogeneous-target',
                                          'p=%r q=%r t=%s: glom(t, %s) = %r but glom(glom(t, p), q) = %r' % (pth, q, short(target), name, got, second), None)
                            break
                        if not got.ok and type(got.exc).__name__ != type(second.exc).__name__:
                            col.violation('C18/path-split-error-class-differs', 'p=%r q=%r: glom(t, %s) raised %r, glom(glom(t, p), q) raised %r'
                                          % (pth, q, name, got.exc, second.exc), None)
                            break


def near_misses_are_not_equal(col, rng, n):
    """== agrees with the tuple of steps: an expression that differs from p in ONE place - one more positional argument, one more
    keyword, one more element of a tuple index / tuple part, one argument replaced - is not equal to p (and p is not a prefix of it
    unless it is), while a rebuilt copy is"""
    def variants(x):
        ops = x.__ops__
        for i in range(1, len(ops), 2):
            op, arg = ops[i], ops[i + 1]
            alts = []
            if op == '(':
                a, kw = arg
                alts = [(a + (1,), kw), (a + (None,), kw), (a, dict(kw, extra=1)), (a[:-1], kw) if a else None,
                        ((a[0],) + a, kw) if a else None, (a, {k: v for k, v in list(kw.items())[:-1]}) if kw else None]
            elif isinstance(arg, tuple) and not any(isinstance(e, type(T)) for e in arg):
                alts = [arg + (1,), arg + (None,), arg[:-1] if arg else None, arg + arg if arg else None]
            elif op in ('[', 'P') and not isinstance(arg, type(T)):
                alts = [(arg,), (arg, arg)] if not isinstance(arg, (slice, list, dict, set)) else []
            for alt in alts:
                if alt is None or alt == arg:
                    continue
                y = type(T)()
                y.__ops__ = ops[:i + 1] + (alt,) + ops[i + 2:]
                yield i // 2, op, y
    for _ in range(n):
        x, _, _ = gen_t(rng, T, rng.randint(1, 4), 1, False)
        forms = [('T', x, lambda y: y), ('Path', Path(x), lambda y: Path(y))]
        for fname, px, wrap in forms:
            for k, op, y in variants(x):
                py = wrap(y)
                col.count('near_miss_comparisons')
                col.case(('near-miss', fname, op, k), True)
                eq, ne = call(lambda: px == py), call(lambda: px != py)
                if not eq.ok or eq.value is not False or not ne.ok or ne.value is not True:
                    col.violation('C18/path-eq-near-miss-true:%s' % {'(': 'call-arguments', '[': 'tuple-index', 'P': 'tuple-part'}.get(op, op),
                                  '%r == %r gave %r (!= gave %r): step %d differs' % (px, py, eq, ne, k), None)
                    break


def equality_follows_the_steps(col, rng):
    """"equality agrees with the same operation on the tuple of steps": values that are equal but print differently (1, 1.0, True; 0.0,
    -0.0; 'a' and a str subclass instance) make equal Paths, distinct objects that print alike but are not equal (two separate nested T
    expressions, two NaNs, objects without __eq__) do not; startswith and slices agree with ==."""
    class Name(str):
        pass

    class Opaque:
        def __repr__(self):
            return '<opaque>'
    nan1, nan2 = float('nan'), float('nan')
    k1, k2 = T['k'], T['k']
    o1, o2 = Opaque(), Opaque()
    atoms = [1, 1.0, True, 0, 0.0, -0.0, False, 'a', Name('a'), 2, 2.0, (1, 2), (1.0, 2.0), (True, 2), nan1, nan2, k1, k2, o1, o2, None, 'None', '1', b'a', 1 + 0j,
             frozenset([1]), frozenset([1.0])]
    n = 0
    for a in atoms:
        for b in atoms:
            for shape in ('P', 'P-after', '[', '[-after', 'call'):
                mk = {'P': lambda v: Path('x', v), 'P-after': lambda v: Path(v, 'y'), '[': lambda v: Path(T['x'][v]), '[-after': lambda v: Path(T[v].y),
                      'call': lambda v: Path(T.f(v, kw=v))}[shape]
                if shape in ('P', 'P-after') and isinstance(a, type(T)) != isinstance(b, type(T)):
                    continue
                pa, pb = call(mk, a), call(mk, b)
                if not (pa.ok and pb.ok):
                    continue
                pa, pb = pa.value, pb.value
                want = call(lambda: pa.path_t.__ops__ == pb.path_t.__ops__)
                got, got_ne = call(lambda: pa == pb), call(lambda: pa != pb)
                n += 1
                col.count('equality_pairs_compared')
                col.case(('equality-follows-steps', shape, type(a).__name__, type(b).__name__), True)
                if not (want.ok and got.ok and got_ne.ok) or got.value is not want.value or got_ne.value is not (not want.value):
                    col.violation('C18/path-eq-disagrees-with-the-steps:%s' % ('equal-values-unequal-paths' if want.ok and want.value else 'unequal-values-equal-paths'),
                                  '%r == %r gives %r (!= gives %r), their tuples of steps compare %r (arguments %r of %s and %r of %s)'
                                  % (pa, pb, got, got_ne, want, a, type(a).__name__, b, type(b).__name__), None)
                    continue
                # a path starts with an equal path, and the slice of everything is an equal path
                if want.ok and want.value:
                    sw, sl = call(lambda: pa.startswith(pb)), call(lambda: pa[:] == pb)
                    if not (sw.ok and sw.value is True and sl.ok and sl.value is True):
                        col.violation('C18/path-eq-disagrees-with-startswith-or-slices', '%r == %r, but startswith gives %r and the full slice compares %r' % (pa, pb, sw, sl), None)


def repr_from_several_threads(col):
    """repr(x) is a function of x: expressions that share a literal object, rendered by several threads at once, print what they print
    when rendered alone"""
    import threading
    shared = ['key', ('a', 1), {'k': [1, 2, 3], 'j': ('x', 'y')}, 'another string', 3.5, None] * 3
    shared_t = tuple(shared)
    exprs = [T[shared_t], T.f(shared), Path('seg', T[shared_t]), T['a'][shared_t].b(shared, k=shared_t), S[shared_t], Path(shared_t, 'z'), T.f([shared, shared])]
    alone = [repr(e) for e in exprs]
    bad = []
    old = sys.getswitchinterval()
    sys.setswitchinterval(1e-6)
    try:
        def work(offset):
            for n in range(250):
                i = (n + offset) % len(exprs)
                try:
                    r = repr(exprs[i])
                except Exception as e:
                    r = 'raised %r' % (e,)
                if r != alone[i] and len(bad) < 5:
                    bad.append((i, r))
        threads = [threading.Thread(target=work, args=(k,), daemon=True) for k in range(4)]
        for th in threads:
            th.start()
        for th in threads:
            th.join(60)
        hung = any(th.is_alive() for th in threads)
    finally:
        sys.setswitchinterval(old)
    col.case(('repr-from-threads',), True)
    col.count('eval_repr', 1000)
    col.count('reprs_rendered_by_concurrent_threads', 1000)
    if hung:
        col.fail_inconclusive('the threads rendering reprs did not finish within 60 s')
    for i, r in bad[:3]:
        col.violation('C18/repr-differs-when-rendered-by-several-threads', 'repr of expression #%d rendered while other threads render expressions sharing its literal: %s ; '
                      'alone: %s' % (i, short(r, 200), short(alone[i], 200)), None)


def systematic(col, rng):
    """every literal kind alone under each root and position"""
    lits = []
    for k in ['int', 'negint', 'str', 'qstr', 'dotstr', 'nlstr', 'none', 'float', 'bool', 'bytes',
              'builtin', 'tuple0', 'tuple1', 'tuplen']:
        for _ in range(3):
            lits.append((k, _lit(rng, k, 1)))
    lits += [('slice', slice(a, b, c)) for a in (None, 1) for b in (None, 2) for c in (None, 2, -1)]
    lits += [('tuple1slice', (slice(1, 2),)), ('tupleslice', (slice(None), 1)), ('tupleslice', (1, slice(None, None, 2))),
             ('nestedT', T.a[0]), ('nestedT', T['k'])]
    for root, rn in ((T, 'T'), (S, 'S'), (A, 'A')):
        for k, v in lits:
            forms = [('[', root[v]), ('.[', root.a[v]), ('[.', root[v].b)]
            if root is T:
                forms += [('(', T.f(v)), ('(kw', T.f(k=v)), ('[(', T[v](v))]
            for fk, x in forms:
                check_roundtrip(col, x, '%s %s %s' % (rn, fk, k), (rn, fk, k))
            if k not in ('slice', 'tuple1slice', 'tupleslice', 'nestedT', 'builtin'):
                for fk, mk in (('P', lambda: Path(root, v) if root is not T else Path(v)),
                               ('P.', lambda: Path(root.a, v) if root is not T else Path(T.a, v)),
                               ('PP', lambda: Path(root, v, 'z') if root is not T else Path(v, 'z'))):
                    check_roundtrip(col, mk(), '%s %s %s' % (rn, fk, k), (rn, fk, k))
    for txt in ['a', 'a.b', 'a.*.b', '**', '*.*', 'a.**.b.*', '0.1', '']:
        check_roundtrip(col, Path.from_text(txt), 'from_text %r' % txt, ('from_text', txt))
    # strings and attribute names that read like the roots are ordinary strings / names
    # ... and so are names and strings that coincide with the letters the library uses internally for its kinds of step
    for nm in ('T', 'S', 'A', 'Path', 'T.a', 'S.x', 'P', 'x', 'X', '_', '.', '[', '(', '+', '*', '#', ':', '~'):
        forms = [('[', T[nm]), ('.[', T.a[nm]), ('(', T.f(nm)), ('(kw', T.f(k=nm)), ('P', Path(nm)), ('PP', Path('a', nm, 'z')), ('S[', S[nm]), ('tuple[', T[(nm, 1)]),
                 ('(list', T.f([nm, {'k': nm}]))]
        if nm.isidentifier():
            forms += [('.', getattr(T, nm)), ('..', getattr(getattr(T, nm), 'rows')), ('S.', getattr(S, nm)), ('A.', getattr(A, nm))]
        for fk, x in forms:
            check_roundtrip(col, x, 'name-like-a-root %s %r' % (fk, nm), ('rootname', fk, nm))
    # attribute steps whose name starts with two underscores are written with the documented T.__('name') spelling
    for x, d in [(T.__('class__'), "T.__('class__')"), (T.a.__('x'), "T.a.__('x')"), (T.__('len__')(), "T.__('len__')()"), (S.__('private'), "S.__('private')"),
                 (T['k'].__('dict__')['z'], "T['k'].__('dict__')['z']"), (Path('a', T.__('slots__')), "Path('a', T.__('slots__'))"), (T.__('x').__('y'), "T.__('x').__('y')")]:
        check_roundtrip(col, x, d, ('dunder-attribute', d))
    for x, d in [(T, 'T'), (S, 'S'), (A.a, 'A.a'), (Path(), 'Path()'), (T.__star__(), 'star'),
                 (T.a.__starstar__().b, 'starstar'), (S(k=1), 'S(k=1)'), (S(j='lit', k=T.a), 'S(k=T.a)')]:
        check_roundtrip(col, x, d, ('special', d))
    # sequence laws, exhaustively for small fixed paths
    fixed = [
        (Path(), (), ()),
        (Path('a'), ('P:str',), (('P', 'a'),)),
        (Path('a', 'b'), ('P:str',) * 2, (('P', 'a'), ('P', 'b'))),
        (Path('a', T.b, 3), ('P:str', 'T:.', 'P:int'), (('P', 'a'), ('.', 'b'), ('P', 3))),
        (Path(T['x'], 'b', T.c[1]), ('T:[', 'P:str', 'T:.['), (('[', 'x'), ('P', 'b'), ('.', 'c'), ('[', 1))),
        (Path('a', 'b', 'c', 'd', 'e'), ('P:str',) * 5, tuple(('P', c) for c in 'abcde')),
        (Path(S, 'a', 'b', 'c'), ('S', 'P:str'), (('P', 'a'), ('P', 'b'), ('P', 'c'))),
        (Path(S.v, T['k'], 'c'), ('S.', 'T:[', 'P:str'), (('.', 'v'), ('[', 'k'), ('P', 'c'))),
    ]
    for p, kinds, steps in fixed:
        check_sequence_laws(col, p, kinds, steps, rng, full=True)
    for (p, _, ps), (q, _, qs) in itertools.product(fixed[:6], fixed[:6]):
        check_concat(col, p, ps, q, qs)


def run(ctx):
    col, rng = ctx.col, ctx.rng
    col.require('eval_repr', 50)
    col.require('slice_checks', 500)
    col.require('pickle_roundtrips', 50)
    if ctx.shard == 0:
        systematic(col, rng)
        equality_follows_the_steps(col, rng)
        repr_from_several_threads(col)
    split_law_along_valid_paths(col, rng, ctx.n(25, 150))
    col.require('split_evaluations_along_valid_paths', 500)
    near_misses_are_not_equal(col, rng, ctx.n(400, 3000))
    col.require('near_miss_comparisons', 300)
    for i in range(ctx.n(700, 12000)):
        root = rng.choice([T, T, T, S, A])
        n = rng.randint(1, 6)
        x, ops, args = gen_t(rng, root, n)
        check_roundtrip(col, x, 'random', ({T: 'T', S: 'S', A: 'A'}[root], ops, args))
    # A-rooted (assignment) paths take attribute / item / plain steps only; Path(A.., <T expression>) must refuse any other step
    # exactly as the same expression written directly on A does - or at least never build an object whose repr is refused
    for i in range(ctx.n(120, 1500)):
        first = rng.choice([A, A.dest, A['dest'], Path(A, 'dest')])
        seg, ops, _ = gen_t(rng, T, rng.randint(1, 3))
        built = call(Path, first, seg) if rng.random() < 0.7 else call(Path, first, Path(seg), 'tail')
        col.count('a_rooted_concatenations')
        legal = all(o in '.[P' for o in ops)
        col.case(('a-rooted-concat', legal, ops), True)
        if built.ok:
            if ops_of(built.value)[0] is not A:
                col.violation('C18/path-root-differs-from-its-first-argument:A', 'Path(%s, %s) is rooted at %r' % (short(first), short(seg), ops_of(built.value)[0]), None)
            else:
                check_roundtrip(col, built.value, 'A-rooted concatenation', ('A', 'concat', ops))
        elif legal:
            col.violation('C18/a-rooted-concatenation-refused', 'Path(%s, %s) raised %r although every step is an attribute / item / plain step'
                          % (short(first), short(seg), built.exc), None)
    for i in range(ctx.n(300, 5000)):
        root = rng.choice([T, T, T, S])
        n = rng.randint(0, 6)
        p, kinds, steps = gen_path(rng, n, root, allow_star=root is T)  # '**' over the scope itself is not a target
        col.count('path_root_checks')
        if ops_of(p)[0] is not root:
            col.violation('C18/path-root-differs-from-its-first-argument:%s' % {T: 'T', S: 'S'}[root],
                          'Path(%s, ...) built from parts of kinds %s is rooted at %r: %r'
                          % ({T: 'T', S: 'S'}[root], kinds, ops_of(p)[0], short(p)), {'kinds': kinds})
        check_roundtrip(col, p, 'random path', ({T: 'T', S: 'S'}[root], kinds))
        if i % 3 == 0:
            check_sequence_laws(col, p, kinds, steps, rng, full=False)
        if i % 4 == 0:
            q, _, qsteps = gen_path(rng, rng.randint(0, 3), T)
            if root is T:
                check_concat(col, p, steps, q, qsteps)
            else:
                # concatenation keeps the root of its first operand: Path(p, q) for an S-rooted p, and Path(S, q)
                for desc, joined, want_steps in (('Path(p, q)', call(Path, p, q), steps + qsteps), ('Path(S, q)', call(Path, S, q), qsteps)):
                    col.count('path_root_checks')
                    if not joined.ok or ops_of(joined.value)[0] is not S or \
                            not items_equal(tuple(zip(ops_of(joined.value)[1::2], ops_of(joined.value)[2::2])), want_steps):
                        col.violation('C18/concatenation-loses-root-or-steps:S',
                                      '%s with p = %s, q = %s gives %s' % (desc, short(p), short(q), short(joined)), None)
