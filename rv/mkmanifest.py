"""Regenerate /verif/MANIFEST.json from the table below (python -m rv.mkmanifest).
Only properties whose check module exists are claimed; the rest are listed under
not_applicable with the reason."""
import os
import json

HERE = os.path.dirname(os.path.dirname(os.path.abspath(__file__)))
PY = '/venv/bin/python'

BASELINE = ('cd /repo && /venv/bin/python -m pytest -ra -q -p no:cacheprovider --timeout=900 '
            '--continue-on-collection-errors')

# id -> (level, technique, claim text, level note, design ref)
TABLE = {
    'C01': ('exploration', 'runtime monitor: reference segment walk + access-logging containers over generated targets/paths',
            'Every generated (target, path, spelling) is run through the real glom while logging containers record each element access; '
            'the result must be identical (is) to the object a plain-Python walk reaches, and a planted bad segment k must give '
            'PathAccessError(part_idx=k) carrying the underlying exception, catchable under all four base classes, with no access after k.',
            'Held on the generated shapes only (depth <= 6, the listed container kinds); the reference walk is 20 lines of plain Python.', '3 C01'),
    'C02': ('exploration', 'runtime monitor: differential replay of recorded operations against operator.* on a twin target, probe-logged argument evaluation',
            'Each generated operation sequence is built into a real T expression and evaluated by glom; a twin target is evaluated directly with '
            'operator.*; values, failure position/class and the probe access log must agree, and a result equal to the sequence with one '
            'operation removed is reported as a dropped operation.',
            'Position is demanded for native failure classes only (see DESIGN 6); sequences up to 7 operations, nested arguments to depth 2.', '3 C02'),
    'C03': ('exploration', 'runtime monitor: compositional reference interpreter + independent call logs (order, exactly-once) + metamorphic chain law',
            'Generated Auto-mode spec trees are evaluated by glom and by a small reference interpreter that implements only the stated laws; '
            'results (value, container types, key order, identity of passed-through leaves) and the logs of every instrumented callable must be equal.',
            'Spec trees to depth 4 / width 3 over the listed constructs; the reference interpreter is trusted.', '3 C03'),
    'C04': ('fault_enumeration', 'fault injection at every evaluation step x exception catalogue x default/skip_exc/glom_debug matrix, oracle on class/args/identity',
            'For each generated spec tree the fault-free run lists every callable invocation; a fault from a catalogue of exception classes is planted '
            'at each in turn and the object leaving glom() is checked for class, args, GlomError-ness, identity of default / debug propagation.',
            'Faults are raised from user callables, from the target (accessors, iterators) and from provoked glom failures; absorbing constructs are modelled for Coalesce only.', '3 C04'),
    'C05': ('fault_enumeration', 'EvalTracer (wrapper on the recursion function) records the executed evaluation tree; error text parsed and compared with it',
            'A single failure is planted at every leaf position of generated spec shapes; the message is parsed into trace lines and checked against the '
            'frames actually open when the error was raised (ancestors in order, target of the failing frame, original error line, attempted branches).',
            'Only the structural content of the trace is checked (truncation-aware); the traceback excerpt is not constrained.', '3 C05'),
    'C06': ('exploration', 'history monitor: deep structure+identity snapshots around every call, outcome vs cold-process baseline, cache-coherence invariants at quiescent points',
            'Random call histories over a pool of pure (target, spec) pairs with cache overflow, PATH_STAR toggles, registrations and failing calls in between; '
            'every call is bracketed by snapshots of target/spec/scope and its outcome signature is compared with the same call made first in a fresh interpreter.',
            'Pool of ~60 pairs; histories up to 5000 operations; warnings are not part of the outcome.', '3 C06'),
    'C07': ('exploration', 'runtime monitor: lexical-scoping reference model; unique value per binder so each reader identifies the write it saw',
            'Binders and readers are placed at every position of generated spec trees; reader results are compared with an environment-passing model; '
            'spec objects are evaluated twice and with a snapshotted caller scope.',
            'Positions whose visibility the statement leaves open carry no reader (DESIGN 6).', '3 C07'),
    'C08': ('exploration', 'runtime monitor: calibrated mode probes around mode wrappers + sys.monitoring PY_START on the mode functions + shape isomorphism',
            'Mode-sensitive probes are placed before/inside/after/beside Auto/Fill/Match/Group wrappers at every position; each probe outcome must equal the '
            'calibrated outcome of the lexically expected mode; Fill/argument-mode results must be isomorphic (type, shape, sharing, cycles) to the literal.',
            'Probe signatures are calibrated against the directly wrapped configuration on the same tree.', '3 C08'),
    'C09': ('exploration', 'runtime monitor: independent reference matcher over pattern-derived conforming, one-edit and unrelated targets; snapshot guard',
            'Patterns to depth 3 are matched by glom (Match / matches / verify / default) and by a reference matcher implementing the documented rules; '
            'acceptance, returned value, error class and target immutability are compared.',
            'TypeMatchError is demanded only where a type rule is the only rule on the failing path.', '3 C09'),
    'C10': ('exploration', 'exhaustive truth-table enumeration against the boolean denotation; predicate call log for short-circuit',
            'Combinator trees to depth 3 are evaluated on targets enumerating all 2^n truth assignments of their atoms; pass/fail, returned value, error class and '
            'the order/set of predicates invoked are compared with the boolean reading; all Check keyword combinations are enumerated.',
            'Atoms are mutually comparable values; Check validators return booleans, other falsy values (which pass) or raise (which fails the Check).', '3 C10'),
    'C11': ('fault_enumeration', 'twin targets: glom edits one, plain Python the other; graph isomorphism; deep snapshot for atomicity under injected assignment faults',
            'All addressing styles x targets x missing factories x faults at each segment; success compared by isomorphism with the plain-Python edit, failure by an '
            'unchanged structure+identity snapshot; factory call counts and wildcard assignment order observed through logging containers.',
            'S-rooted destinations in the documented item style only.', '3 C11'),
    'C12': ('fault_enumeration', 'twin targets with plain del; snapshot for atomicity; all addressing styles x missing parent/final x ignore_missing x injected faults',
            'Same twin technique as C11 with deletion; error class (PathDeleteError / PathAccessError) and ignore_missing silence are checked for every style.',
            'For injected faults only "raises and target unchanged" is demanded.', '3 C12'),
    'C13': ('exploration', 'post-condition on every handler lookup (nearest registered type from the MRO) over all registration subsets/orders; memo coherence invariant',
            'Class families x all subsets/orders of registrations x exact flags x operations, with lookups interleaved between registrations, on Glommers and (in '
            'subprocesses) the default registry; the handler that ran is visible through tagged handlers and compared with the MRO-nearest registration.',
            'Incomparable real ancestors are a tie; re-registration with a different exact flag is not generated.', '3 C13'),
    'C14': ('exploration', 'runtime monitor: reference child enumeration / BFS with expand-once on random object graphs; identity comparison; logical step budget',
            'Random graphs with sharing, back edges and self loops are traversed by glom wildcards and by a reference BFS; entries are compared by identity; '
            'termination is decided by a budget on expansions counted with sys.monitoring, never by wall-clock.',
            'Graphs up to 8 container nodes; set order taken from iteration in the same process.', '3 C14'),
    'C15': ('exploration', 'differential against functools.reduce / sum / chain.from_iterable / dict.update; snapshot of inputs; result disjointness across evaluations',
            'Fold/Sum/Flatten/Merge/flatten/merge over generated iterables, inits, ops and levels are compared with the plain-Python reductions; inputs are '
            'snapshotted; every spec object is evaluated three times and results must not share state.',
            'ops are pure or in-place on the accumulator only.', '3 C15'),
    'C16': ('exploration', 'differential against a hand-written bucketing loop; reuse and nesting of one spec object',
            'Group spec trees up to 3 key levels with all leaf aggregators are compared with an explicit loop, on adversarial item orders; spec objects are re-used and nested.',
            'Sample excluded (random); the early-stop behaviour pinned by the test-suite is classified by a defect model.', '3 C16'),
    'C17': ('exploration', 'differential against the itertools composition; pull counter on the source for laziness; builder immutability by snapshot',
            'Stage sequences up to length 4 over finite and infinite counting sources; outputs and number of pulls compared with the reference composition; '
            'Iter/Invoke builder sequences snapshotted before/after deriving.',
            'Stage callables return ordinary values; pull bound = reference + 1 per stage.', '3 C17'),
    'C18': ('exploration', 'round-trip monitor: eval(repr)/pickle compared by evaluation trace on a universal recording target; Path vs tuple-of-steps laws',
            'Random and systematic T/S/A expressions and Paths are round-tripped through repr+eval and pickle (all protocols) and must evaluate identically on a '
            'universal recording target and concrete targets; Path len/index/slice/concat/values/eq/startswith are compared with the tuple of steps.',
            'Arithmetic steps, dunder names and non-finite floats are outside the statement.', '3 C18'),
    'C19': ('exploration', 'differential CLI vs library (in-process main + real subprocesses); sys.addaudithook watches exec/compile/os.system; canary file',
            'Random JSON-representable targets x literal specs x channels x formats x flags: stdout/exit status compared with json.dumps(glom(...)); hostile spec texts must '
            'produce no exec/system/subprocess audit event and no canary, while python-full does (monitor liveness).',
            'Flags precede positionals; results json cannot serialise are skipped.', '3 C19'),
    'C20': ('exploration', 'deterministic scheduler enumerating interleavings at user-callable yield points + line-level yield injection stress + scope-root ownership monitor',
            'Programs touching all shared state are run under every interleaving of 2-3 threads with up to 4 yield points, under free-running stress with sys.monitoring '
            'LINE yield injection, and re-entrantly; each outcome (value / error class / trace text) must equal the isolated outcome and no frame may see a foreign scope root.',
            'Exhaustive only at callable granularity; finer interleavings are sampled. Re-entry from lookup hooks runs in a child process with hang diagnosis. Concurrent register() is out of scope.', '3 C20'),
}


def main():
    checks, na = [], []
    for pid in sorted(TABLE):
        level, technique, text, note, ref = TABLE[pid]
        if not os.path.exists(os.path.join(HERE, 'rv', 'checks', pid.lower() + '.py')):
            na.append({'property_id': pid, 'reason': 'not claimed yet: its runtime-monitoring check is designed (DESIGN.md %s) but not built' % ref})
            continue
        checks.append({
            'property_id': pid,
            'quick_cmd': '%s -m rv.run %s --tier quick' % (PY, pid),
            'thorough_cmd': '%s -m rv.run %s --tier thorough' % (PY, pid),
            'evidence_file': 'evidence/%s.json' % pid,
            'replay_cmd_template': '%s -m rv.run %s --replay {path}' % (PY, pid),
            'engine': 'rv',
            'level_claimed': {'category': level, 'text': text, 'design_ref': 'DESIGN.md section ' + ref},
            'level_note': note,
            'technique': technique,
        })
    manifest = {
        'version': 1,
        'setup_cmd': '%s -c "import rv.run, rv.report, rv.env"' % PY,
        'hooks': {
            'guard': 'GLOM_VERIF',
            'enable': 'no source hooks exist: all monitors attach from outside (wrappers, sys.monitoring, audit hooks); the guard name is reserved',
            'baseline_off_cmd': BASELINE,
            'source_commits': [],
            'add_only': True,
        },
        'engines': [{'name': 'rv', 'path': 'rv/', 'serves_properties': [c['property_id'] for c in checks],
                     'kind_free_text': 'stdlib-only Python runtime-verification harness: generators, reference models, monitors, evidence writer'}],
        'checks': checks,
        'not_applicable': na,
        'notes': ('Runtime monitoring only. Checks run the real glom from /repo (or GLOM_VERIF_SRC) with /venv/bin/python; '
                  'exit 0 held / 1 violation / 2 inconclusive. known_findings.json lists genuine defects (fixed or known).'),
    }
    with open(os.path.join(HERE, 'MANIFEST.json'), 'w') as f:
        json.dump(manifest, f, indent=1)
        f.write('\n')
    print('claimed: %s' % ' '.join(c['property_id'] for c in checks))
    print('not claimed: %s' % ' '.join(n['property_id'] for n in na))


if __name__ == '__main__':
    main()
