"""Entry point:  python -m rv.run <ID> [--tier quick|thorough] [--replay PATH]

quick    : one process, target <= ~30 s
thorough : 16 shards in subprocesses (subprocess.run with a timeout each, never
           multiprocessing.Pool), merged by the parent.
The process re-executes itself with PYTHONHASHSEED=0 so that (seed, shard)
regenerates identical cases.
"""
import os
import sys
import json
import time
import argparse
import importlib
import subprocess
import tempfile
import concurrent.futures

from . import env
from .report import Collector, finalize

NSHARDS = 16
SHARD_TIMEOUT = 3600  # generous wall-clock watchdog; its firing is *inconclusive*


class Ctx:
    def __init__(self, prop, tier, shard, nshards, col):
        self.prop, self.tier, self.shard, self.nshards, self.col = prop, tier, shard, nshards, col
        self.rng = env.rng(prop, shard)
        self.thorough = tier == 'thorough'

    def n(self, quick, thorough):
        """per-shard budget"""
        return thorough if self.thorough else quick

    def subrng(self, salt):
        return env.rng(self.prop, self.shard, salt)


def load_check(prop):
    return importlib.import_module('rv.checks.%s' % prop.lower())


def run_shard(prop, tier, shard, nshards):
    col = Collector(prop, tier, shard, nshards)
    mod = load_check(prop)
    ctx = Ctx(prop, tier, shard, nshards, col)
    try:
        mod.run(ctx)
    except Exception as e:
        # The workload itself was aborted.  Outside their observed calls the checks only do things that cannot fail on a tree
        # where the property holds (build specs from valid parts, repr() them, create registries): if the exception was raised
        # by code of the library under test it is reported as a violation of its own kind, anything else is a harness
        # failure and makes the run inconclusive - never a silent crash, never "held".
        import traceback
        tb = traceback.extract_tb(e.__traceback__)
        text = ''.join(traceback.format_exception(type(e), e, e.__traceback__))[-3000:]
        lib = os.path.join(env.SRC, 'glom') + os.sep
        if tb and tb[-1].filename.startswith(lib):
            col.violation('%s/library-raised-outside-an-observed-call:%s:%s' % (prop, type(e).__name__, tb[-1].name),
                          'the workload was aborted by an exception raised inside the library while the harness was building or '
                          'rendering a valid spec / registry:\n' + text, {'traceback': text})
        else:
            col.fail_inconclusive('the check aborted with %s: %s' % (type(e).__name__, text[-800:]))
    return col, mod


def main(argv=None):
    ap = argparse.ArgumentParser()
    ap.add_argument('prop')
    ap.add_argument('--tier', default=os.environ.get('VERIF_TIER', 'quick'))
    ap.add_argument('--shard', type=int, default=0)
    ap.add_argument('--nshards', type=int, default=1)
    ap.add_argument('--child-out')
    ap.add_argument('--replay')
    ap.add_argument('--shards', type=int, default=None, help='override number of thorough shards')
    a = ap.parse_args(argv)
    prop = a.prop.upper()
    if a.tier not in ('quick', 'thorough'):
        a.tier = 'quick'

    if os.environ.get('PYTHONHASHSEED') != '0':
        os.execve(sys.executable, [sys.executable, '-m', 'rv.run'] + (argv or sys.argv[1:]),
                  env.child_env())

    if a.replay:
        with open(a.replay) as f:
            rp = json.load(f)
        os.environ['VERIF_SEED'] = str(rp.get('seed', 0))
        a.tier = rp.get('tier', a.tier)
        nsh = NSHARDS if a.tier == 'thorough' else 1
        col, mod = run_shard(prop, a.tier, rp.get('shard', 0), nsh)
        col.violations = {m: v for m, v in col.violations.items() if m == rp['mechanism']}
        return finalize(col, mod.META)

    if a.child_out:
        # a generated expression may ask for astronomically much memory ('x' * 10**11, 2 ** 10**9 ...): with a cap on the address
        # space that is a MemoryError inside the observed call - an outcome like any other, the same for glom and for the reference -
        # instead of a machine running out of memory
        try:
            import resource
            cap = int(os.environ.get('RV_MEMORY_CAP_GB', '6')) << 30
            soft, hard = resource.getrlimit(resource.RLIMIT_AS)
            if hard == resource.RLIM_INFINITY or cap < hard:
                resource.setrlimit(resource.RLIMIT_AS, (cap, hard))
        except (ImportError, ValueError, OSError):
            pass
        col, mod = run_shard(prop, a.tier, a.shard, a.nshards)
        with open(a.child_out, 'w') as f:
            json.dump(col.to_dict(), f, default=repr)
        return 0

    mod = load_check(prop)
    # every tier runs its workload in child processes under a generous wall-clock watchdog: a workload that does not come
    # back (a hang inside the library, or in a C call no signal can interrupt) makes the run inconclusive, never "held"
    nsh = 1 if a.tier == 'quick' or getattr(mod, 'SINGLE_PROCESS', False) else (a.shards or NSHARDS)
    col = Collector(prop, a.tier, 0, nsh)
    tmpdir = tempfile.mkdtemp(prefix='rv-%s-' % prop)

    def one(i):
        out = os.path.join(tmpdir, 'shard%d.json' % i)
        cmd = [sys.executable, '-m', 'rv.run', prop, '--tier', a.tier, '--shard', str(i),
               '--nshards', str(nsh), '--child-out', out]
        try:
            p = subprocess.run(cmd, env=env.child_env(), cwd=env.VERIF_DIR, timeout=SHARD_TIMEOUT,
                               stdout=subprocess.PIPE, stderr=subprocess.STDOUT, text=True)
        except subprocess.TimeoutExpired:
            return i, None, 'shard %d: watchdog expired after %ds' % (i, SHARD_TIMEOUT)
        if p.returncode != 0 or not os.path.exists(out):
            return i, None, 'shard %d: exit %s: %s' % (i, p.returncode, p.stdout[-1500:])
        with open(out) as f:
            return i, json.load(f), None

    try:
        with concurrent.futures.ThreadPoolExecutor(max_workers=min(nsh, os.cpu_count() or 4)) as ex:
            for i, d, err in ex.map(one, range(nsh)):
                if err:
                    col.fail_inconclusive(err)
                else:
                    col.merge_dict(d)
    finally:
        for fn in os.listdir(tmpdir):
            os.unlink(os.path.join(tmpdir, fn))
        os.rmdir(tmpdir)
    return finalize(col, mod.META)


if __name__ == '__main__':
    sys.exit(main())
