"""Small helpers shared by the checks (stdlib only)."""
import re
import traceback


_ADDR = re.compile(r' at 0x[0-9a-fA-F]+')
_FILE_LINE = re.compile(r'File "([^"]+)", line \d+')


def norm_text(s):
    """address-free, line-number-free rendering of a message"""
    s = _ADDR.sub(' at 0x?', s)
    s = _FILE_LINE.sub(lambda m: 'File "%s", line ?' % m.group(1).rsplit('/', 1)[-1], s)
    return s


def exc_sig(e, text=True):
    sig = (type(e).__name__,)
    if text:
        try:
            sig += (norm_text(str(e)),)
        except Exception as e2:
            sig += ('<str() raised %s>' % type(e2).__name__,)
    return sig


class Outcome:
    """value or exception of one call"""
    __slots__ = ('ok', 'value', 'exc')

    def __init__(self, ok, value=None, exc=None):
        self.ok, self.value, self.exc = ok, value, exc

    def __repr__(self):
        if self.ok:
            return 'Returned(%s)' % _short(self.value)
        return 'Raised(%s: %s)' % (type(self.exc).__name__, _short(_first_line(self.exc)))


def _first_line(e):
    try:
        lines = str(e).splitlines()
        return lines[-1] if lines else ''
    except Exception:
        return '<unprintable>'


def _short(v, n=200):
    try:
        s = repr(v)
    except Exception:
        s = '<unreprable %s>' % type(v).__name__
    return s if len(s) <= n else s[:n] + '...'


def call(fn, *a, **kw):
    try:
        return Outcome(True, fn(*a, **kw))
    except Exception as e:
        return Outcome(False, exc=e)


def call_base(fn, *a, **kw):
    """like call() but also captures BaseException (KeyboardInterrupt etc.)"""
    try:
        return Outcome(True, fn(*a, **kw))
    except BaseException as e:
        return Outcome(False, exc=e)


def tb(e):
    return ''.join(traceback.format_exception(type(e), e, e.__traceback__))[-2000:]
