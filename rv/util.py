"""Small helpers shared by the checks (stdlib only)."""
import re
import traceback


_ADDR = re.compile(r' at 0x[0-9a-fA-F]+')
_FILE_LINE = re.compile(r'File "([^"]+)", line \d+')


def norm_text(s):
    """address-free, line-number-free rendering of a message"""
    s = _ADDR.sub(' at 0x?', s)
    s = _FILE_LINE.sub(lambda m: 'File "%s", line ?' % m.group(1).rsplit('/', 1)[-1], s)
    return s


def exc_sig(e, text=True):
    sig = (type(e).__name__,)
    if text:
        try:
            sig += (norm_text(str(e)),)
        except Exception as e2:
            sig += ('<str() raised %s>' % type(e2).__name__,)
    return sig


class Outcome:
    """value or exception of one call"""
    __slots__ = ('ok', 'value', 'exc')

    def __init__(self, ok, value=None, exc=None):
        self.ok, self.value, self.exc = ok, value, exc

    def __repr__(self):
        if self.ok:
            return 'Returned(%s)' % _short(self.value)
        return 'Raised(%s: %s)' % (type(self.exc).__name__, _short(_first_line(self.exc)))


def _first_line(e):
    try:
        lines = str(e).splitlines()
        return lines[-1] if lines else ''
    except Exception:
        return '<unprintable>'


def _short(v, n=200):
    try:
        s = repr(v)
    except Exception:
        s = '<unreprable %s>' % type(v).__name__
    return s if len(s) <= n else s[:n] + '...'


def call(fn, *a, **kw):
    try:
        return Outcome(True, fn(*a, **kw))
    except Exception as e:
        return Outcome(False, exc=e)


def call_base(fn, *a, **kw):
    """like call() but also captures BaseException (KeyboardInterrupt etc.)"""
    try:
        return Outcome(True, fn(*a, **kw))
    except BaseException as e:
        return Outcome(False, exc=e)


def tb(e):
    return ''.join(traceback.format_exception(type(e), e, e.__traceback__))[-2000:]


class StepBudgetExceeded(Exception):
    """a single observed call started more Python functions than its (very generous) logical budget allows"""


class StepBudget:
    """logical non-termination guard: counts sys.monitoring PY_START events while a call is observed and raises
    StepBudgetExceeded inside the running code once the budget is spent.  Deterministic (no wall clock): the same
    evaluation always takes the same number of function starts."""
    def __init__(self, budget=300000):
        import sys
        self.budget = budget
        self.mon = getattr(sys, 'monitoring', None)
        self.tool = None
        self.count = 0
        self.active = False
        if self.mon is None:
            return
        for tid in (5, 4, 3, self.mon.OPTIMIZER_ID):
            try:
                self.mon.use_tool_id(tid, 'rv-step-budget')
                self.tool = tid
                break
            except ValueError:
                continue
        if self.tool is not None:
            self.mon.register_callback(self.tool, self.mon.events.PY_START, self._cb)
            self.mon.register_callback(self.tool, self.mon.events.PY_RESUME, self._cb)   # (generators: every item is a resume)

    @property
    def ok(self):
        return self.tool is not None

    def _cb(self, code, offset):
        if self.active:
            self.count += 1
            if self.count > self.budget:
                self.active = False
                raise StepBudgetExceeded('more than %d function starts in one call' % self.budget)

    def call(self, fn, *a, **kw):
        if self.tool is None:
            return call(fn, *a, **kw)
        self.count = 0
        self.active = True
        self.mon.set_events(self.tool, self.mon.events.PY_START | self.mon.events.PY_RESUME)
        try:
            return Outcome(True, fn(*a, **kw))
        except Exception as e:
            return Outcome(False, exc=e)
        finally:
            self.active = False
            self.mon.set_events(self.tool, 0)

    def close(self):
        if self.tool is not None:
            self.mon.set_events(self.tool, 0)
            self.mon.free_tool_id(self.tool)
            self.tool = None
