"""rv: runtime-verification machinery for mahmoud/glom (see /verif/DESIGN.md)."""
