"""Binding to the code under test, seeds, tiers.

The source tree is chosen by GLOM_VERIF_SRC (default /repo) and is put at
sys.path[0] *before* glom is imported, so the checks always exercise the current
working tree (and a scratch copy holding a mutant can be checked with the same
command).  Byte-code is never written (no stale state, nothing left behind).
"""
import os
import sys
import random

VERIF_DIR = os.path.dirname(os.path.dirname(os.path.abspath(__file__)))
SRC = os.path.abspath(os.environ.get('GLOM_VERIF_SRC', '/repo'))
GUARD = 'GLOM_VERIF'   # reserved guard name for in-source hooks (none exist)

_bound = False


_LAYOUT_JUNK = []


def bind():
    """Make `import glom` resolve to SRC and return the module."""
    global _bound
    sys.dont_write_bytecode = True
    if not _bound:
        if SRC in sys.path:
            sys.path.remove(SRC)
        sys.path.insert(0, SRC)
        for name in list(sys.modules):
            if name == 'glom' or name.startswith('glom.'):
                del sys.modules[name]
        _bound = True
        # (C11 / C12 ask some questions in fresh interpreters whose heaps are laid out differently: class objects allocated
        # right before the library creates its own shift the addresses of the library's classes)
        k = int(os.environ.get('RV_LAYOUT_PERTURB', '0') or 0)
        _LAYOUT_JUNK.extend(type('Junk%d' % i, (object,), {'__slots__': tuple('s%d' % j for j in range(i % 5))}) for i in range(k))
    import glom
    got = os.path.abspath(glom.__file__)
    if not got.startswith(SRC + os.sep):
        raise RuntimeError('glom imported from %s, expected under %s' % (got, SRC))
    return glom


def child_env(extra=None):
    env = dict(os.environ)
    env['PYTHONHASHSEED'] = '0'
    env['PYTHONDONTWRITEBYTECODE'] = '1'
    env['GLOM_VERIF_SRC'] = SRC
    env.pop('GLOM_DEBUG', None)
    pp = [VERIF_DIR]
    env['PYTHONPATH'] = os.pathsep.join(pp)
    if extra:
        env.update(extra)
    return env


def seed():
    try:
        return int(os.environ.get('VERIF_SEED', '0'))
    except ValueError:
        return 0


def rng(prop, shard=0, salt=''):
    return random.Random('%s/%s/%s/%s' % (prop, seed(), shard, salt))
